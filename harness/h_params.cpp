// C18: parameter_reader::read_numerical_parameters / read_biomechanical_parameters on a parameter "file" whose
// structure (number of cell types / face types, which tag or section is missing, where INF is written) is concrete
// and whose numeric contents are the harness inputs.
//
// irsym side : tinyxml2's tree navigation (FirstChildElement / NextSiblingElement / GetText) and libc's strtod /
//              strtol are ENVIRONMENT and are answered from the table below: the text of a numeric tag is the
//              marker "@<slot>", and strtod/strtol of a marker return din[slot] / iin[IBASE+slot] (symbolic).
//              The reader's own code (get_string_value, lower_string, std::stod/stoi wrappers, all validation
//              and all stores into the parameter structures) is the real code.
// native side: the same inputs are printed to a real XML file (tags in an order derived from iin[7], values with
//              %.17g) which the real parameter_reader + real tinyxml2 + real strtod read back. Agreement of the
//              two sides on concrete inputs validates both the translator and the environment table.
//
// slots : numerical tag k -> k ; cell tag (ct,k) -> 16+64*ct+k ; face tag (ct,ft,k) -> 16+64*ct+16+8*ft+k
// iin   : [0] nb cell types (0..4)  [1..4] nb face types per cell type (0..6)  [5] omitted slot (-1 none,
//         -2 numerical_parameters section, -3 cell_types section, -(10+ct) face_types section of cell type ct,
//         -100-slot: the tag is present but empty, <tag></tag>)
//         [6] INF modes, 2 bits per (ct, j) j=0 max_inner_pressure j=1 avg_division_volume: 0 number 1 "INF" 2 "inf" 3 "Inf"
//         [7] tag order seed (native only)   [8+slot] value of integer tags
#include "common.hpp"
#include "parameter_reader.hpp"
#include <cstring>
#include <cstdio>
#include <string>

static const int IBASE = 8;
static const char* NUM_TAGS[] = {"input_mesh_file_path", "output_mesh_folder_path", "damping_coefficient", "perform_initial_triangulation",
    "simulation_duration", "time_step", "sampling_period", "min_edge_length", "contact_cutoff_adhesion", "contact_cutoff_repulsion",
    "enable_edge_swap_operation"};
static const char NUM_KIND[] = {'s', 's', 'd', 'i', 'd', 'd', 'd', 'd', 'd', 'd', 'i'};
static const int N_NUM = 11;
static const char* CELL_TAGS[] = {"cell_type_name", "global_cell_id", "cell_mass_density", "cell_bulk_modulus", "max_inner_pressure",
    "area_elasticity_modulus", "avg_division_volume", "std_division_volume", "avg_growth_rate", "std_growth_rate",
    "target_isoperimetric_ratio", "angle_regularization_factor", "min_vol", "surface_coupling_max_curvature"};
static const char CELL_KIND[] = {'s', 'i', 'd', 'd', 'd', 'd', 'd', 'd', 'd', 'd', 'd', 'd', 'd', 'd'};
static const int N_CELL = 14;
static const char* FACE_TAGS[] = {"face_type_name", "global_face_id", "surface_tension", "adherence_strength", "repulsion_strength", "bending_modulus"};
static const char FACE_KIND[] = {'s', 'i', 'd', 'd', 'd', 'd'};
static const int N_FACE = 6;

static inline int cell_slot(int ct, int k) { return 16 + 64 * ct + k; }
static inline int face_slot(int ct, int ft, int k) { return 16 + 64 * ct + 16 + 8 * ft + k; }
static inline int inf_mode(const long* I, int ct, int k) {
    if (k != 4 && k != 6) return 0;
    return (int) ((I[6] >> (4 * ct + (k == 6 ? 2 : 0))) & 3);
}
static const char* INF_TXT[] = {"", "INF", "inf", "Inf"};

static vio* g_io;

#ifndef IRSYM_NATIVE
// ---------------------------------------------------------------- environment table (irsym side)
enum { K_NUMSEC = 1, K_CTROOT, K_CT, K_FTROOT, K_FT, K_LEAF };
struct fake { int kind, ct, ft, slot; char kd; int mode; };
static fake g_fakes[512]; static int g_nfakes;
static char g_text[512][12];
static void* g_doc;

static fake* mk(int kind, int ct, int ft, int slot = -1, char kd = 0, int mode = 0) {
    fake* f = &g_fakes[g_nfakes++]; f->kind = kind; f->ct = ct; f->ft = ft; f->slot = slot; f->kd = kd; f->mode = mode; return f;
}
static int lookup(const char* const* tags, int n, const char* name) {
    for (int k = 0; k < n; k++) if (strcmp(tags[k], name) == 0) return k;
    return -1;
}
namespace tinyxml2 {
const XMLElement* XMLNode::FirstChildElement(const char* name) const {
    const long* I = g_io->iin;
    if ((const void*) this == g_doc) {
        if (strcmp(name, "numerical_parameters") == 0 && I[5] != -2) return (const XMLElement*) mk(K_NUMSEC, 0, 0);
        if (strcmp(name, "cell_types") == 0 && I[5] != -3) return (const XMLElement*) mk(K_CTROOT, 0, 0);
        return nullptr;
    }
    const fake* f = (const fake*) this;
    switch (f->kind) {
    case K_NUMSEC: {
        int k = lookup(NUM_TAGS, N_NUM, name);
        if (k < 0 || I[5] == k) return nullptr;
        return (const XMLElement*) mk(K_LEAF, 0, 0, k, NUM_KIND[k]);
    }
    case K_CTROOT:
        if (strcmp(name, "cell_type") == 0 && I[0] > 0) return (const XMLElement*) mk(K_CT, 0, 0);
        return nullptr;
    case K_CT: {
        if (strcmp(name, "face_types") == 0) return I[5] == -(10 + f->ct) ? nullptr : (const XMLElement*) mk(K_FTROOT, f->ct, 0);
        int k = lookup(CELL_TAGS, N_CELL, name);
        if (k < 0 || I[5] == cell_slot(f->ct, k)) return nullptr;
        return (const XMLElement*) mk(K_LEAF, f->ct, 0, cell_slot(f->ct, k), CELL_KIND[k], inf_mode(I, f->ct, k));
    }
    case K_FTROOT:
        if (strcmp(name, "face_type") == 0 && I[1 + f->ct] > 0) return (const XMLElement*) mk(K_FT, f->ct, 0);
        return nullptr;
    case K_FT: {
        int k = lookup(FACE_TAGS, N_FACE, name);
        if (k < 0 || I[5] == face_slot(f->ct, f->ft, k)) return nullptr;
        return (const XMLElement*) mk(K_LEAF, f->ct, f->ft, face_slot(f->ct, f->ft, k), FACE_KIND[k]);
    }
    }
    return nullptr;
}
const XMLElement* XMLNode::NextSiblingElement(const char* name) const {
    const long* I = g_io->iin;
    const fake* f = (const fake*) this;
    if (f->kind == K_CT && strcmp(name, "cell_type") == 0 && f->ct + 1 < I[0]) return (const XMLElement*) mk(K_CT, f->ct + 1, 0);
    if (f->kind == K_FT && strcmp(name, "face_type") == 0 && f->ft + 1 < I[1 + f->ct]) return (const XMLElement*) mk(K_FT, f->ct, f->ft + 1);
    return nullptr;
}
const char* XMLElement::GetText() const {
    const fake* f = (const fake*) this;
    if (f->kind != K_LEAF) return nullptr;
    if (g_io->iin[5] == -100 - f->slot) return nullptr;          // <tag></tag>: tinyxml2 returns a null pointer for an element without text
    if (f->mode) return INF_TXT[f->mode];
    char* t = g_text[f - g_fakes];
    int p = 0; t[p++] = (f->kd == 's') ? 's' : '@';
    int s = f->slot; char dg[8]; int nd = 0;
    do { dg[nd++] = (char) ('0' + s % 10); s /= 10; } while (s);
    while (nd) t[p++] = dg[--nd];
    t[p] = 0;
    return t;
}
}
static int marker_slot(const char* s, char** end) {
    if (s[0] != '@') { g_io->status = -77; if (end) *end = (char*) s; return -1; }
    int v = 0; const char* p = s + 1;
    while (*p >= '0' && *p <= '9') { v = v * 10 + (*p - '0'); p++; }
    if (end) *end = (char*) p;
    return v;
}
extern "C" double strtod(const char* s, char** end) noexcept {
    int slot = marker_slot(s, end);
    return slot < 0 ? 0. : g_io->din[slot];
}
extern "C" long strtol(const char* s, char** end, int base) noexcept {
    int slot = marker_slot(s, end);
    return slot < 0 ? 0 : g_io->iin[IBASE + slot];
}
#else
// ---------------------------------------------------------------- real file (native side)
#include <vector>
#include <unistd.h>
static void shuffle(std::vector<int>& v, unsigned long& seed) {
    for (size_t k = v.size(); k > 1; k--) {
        seed = seed * 6364136223846793005UL + 1442695040888963407UL;
        std::swap(v[k - 1], v[(seed >> 33) % k]);
    }
}
static void emit(FILE* fp, const char* tag, char kd, int slot, int mode, const vio* io) {
    if (io->iin[5] == slot) return;
    if (io->iin[5] == -100 - slot) { fprintf(fp, "  <%s></%s>\n", tag, tag); return; }
    if (mode) fprintf(fp, "  <%s>%s</%s>\n", tag, INF_TXT[mode], tag);
    else if (kd == 's') fprintf(fp, "  <%s>s%d</%s>\n", tag, slot, tag);
    else if (kd == 'i') fprintf(fp, "  <%s>%ld</%s>\n", tag, io->iin[IBASE + slot], tag);
    else fprintf(fp, "  <!-- c --> <%s>%.17g</%s>\n", tag, io->din[slot], tag);
}
static std::string write_file(const vio* io) {
    char path[64]; snprintf(path, sizeof path, "/tmp/irsym_c18_%d.xml", (int) getpid());
    FILE* fp = fopen(path, "w");
    const long* I = io->iin; unsigned long seed = (unsigned long) I[7];
    fprintf(fp, "<?xml version=\"1.0\"?>\n");
    auto numsec = [&]() {
        if (I[5] == -2) return;
        fprintf(fp, "<numerical_parameters>\n");
        std::vector<int> o; for (int k = 0; k < N_NUM; k++) o.push_back(k);
        if (seed) shuffle(o, seed);
        for (int k : o) emit(fp, NUM_TAGS[k], NUM_KIND[k], k, 0, io);
        fprintf(fp, "</numerical_parameters>\n");
    };
    auto ctsec = [&]() {
        if (I[5] == -3) return;
        fprintf(fp, "<cell_types>\n");
        for (int ct = 0; ct < I[0]; ct++) {
            fprintf(fp, "<cell_type>\n");
            std::vector<int> o; for (int k = 0; k <= N_CELL; k++) o.push_back(k);      // N_CELL stands for the face_types block
            if (seed) shuffle(o, seed);
            for (int k : o) {
                if (k < N_CELL) { emit(fp, CELL_TAGS[k], CELL_KIND[k], cell_slot(ct, k), inf_mode(I, ct, k), io); continue; }
                if (I[5] == -(10 + ct)) continue;
                fprintf(fp, "<face_types>\n");
                for (int ft = 0; ft < I[1 + ct]; ft++) {
                    fprintf(fp, "<face_type>\n");
                    std::vector<int> q; for (int j = 0; j < N_FACE; j++) q.push_back(j);
                    if (seed) shuffle(q, seed);
                    for (int j : q) emit(fp, FACE_TAGS[j], FACE_KIND[j], face_slot(ct, ft, j), 0, io);
                    fprintf(fp, "</face_type>\n");
                }
                fprintf(fp, "</face_types>\n");
            }
            fprintf(fp, "</cell_type>\n");
        }
        fprintf(fp, "</cell_types>\n");
    };
    if (seed & 1) { ctsec(); numsec(); } else { numsec(); ctsec(); }
    fclose(fp);
    return path;
}
#endif

static void out_str(vio* io, const std::string& s) {
    OI(s.size());
    for (size_t k = 0; k < s.size(); k++) OI((unsigned char) s[k]);
}

// iout: [which part threw: 0 none 1 numerical 2 biomechanical] [exception class: 0 none 1 parameter_reader_exception 2 other std::exception 3 other]
HARNESS(h_c18_read) {
    g_io = io;
#ifdef IRSYM_NATIVE
    std::string path = write_file(io);
    parameter_reader* pr = new parameter_reader(path);
    unlink(path.c_str());
#else
    g_nfakes = 0;
    parameter_reader* pr = (parameter_reader*) operator new(sizeof(parameter_reader));     // no XMLDocument behind it: the table above answers
    g_doc = (void*) &pr->xml_doc;
#endif
    int part = 1, cls = 0;
    global_simulation_parameters sp;
    std::vector<std::shared_ptr<cell_type_parameters>> cts;
    try {
        sp = pr->read_numerical_parameters();
        part = 2;
        cts = pr->read_biomechanical_parameters();
        part = 0;
    }
    catch (const parameter_reader_exception& e) { cls = 1; }
    catch (const std::exception& e) { cls = 2; }
    catch (...) { cls = 3; }
    OI(part); OI(cls);
    if (part != 1) {
        out_str(io, sp.input_mesh_path_); out_str(io, sp.output_folder_path_);
        OD(sp.damping_coefficient_); OI(sp.perform_initial_triangulation_); OD(sp.simulation_duration_); OD(sp.time_step_);
        OD(sp.sampling_period_); OD(sp.min_edge_len_); OD(sp.contact_cutoff_adhesion_); OD(sp.contact_cutoff_repulsion_);
        OI(sp.enable_edge_swap_operation_);
    }
    if (part == 0) {
        OI(cts.size());
        for (auto& c : cts) {
            out_str(io, c->name_); OI(c->global_type_id_);
            OD(c->mass_density_); OD(c->bulk_modulus_); OD(c->max_pressure_); OD(c->area_elasticity_modulus_); OD(c->avg_division_vol_);
            OD(c->std_division_vol_); OD(c->avg_growth_rate_); OD(c->std_growth_rate_); OD(c->target_isoperimetric_ratio_);
            OD(c->angle_regularization_factor_); OD(c->min_vol_); OD(c->surface_coupling_max_curvature_);
            OI(c->face_types_.size());
            for (auto& f : c->face_types_) {
                out_str(io, f.name_); OI(f.face_type_global_id_);
                OD(f.surface_tension_); OD(f.adherence_strength_); OD(f.repulsion_strength_); OD(f.bending_modulus_);
            }
        }
    }
#ifdef IRSYM_NATIVE
    delete pr;
#else
    operator delete((void*) pr);
#endif
}
