// C07: narrow phase of the contact models, one (node, face) pair at a time.
// iin: [type_c1, type_c2, node index in c1, face index in c2, nft, face type id of the face, precoupled]
// din: [n(3) position of the node of c1, face nodes of c2 (9), cutoff_adhesion, cutoff_repulsion, l_min,
//       adherence_strength, repulsion_strength, n1 normal(3), face node normals(9), curvatures n1,f1,f2,f3, max_curvature]
#include "common.hpp"
#include "cell.hpp"
#include "epithelial_cell.hpp"
#include "ecm_cell.hpp"
#include "lumen_cell.hpp"
#include "nucleus_cell.hpp"
#include "static_cell.hpp"
#include "contact_model_abstract.hpp"
#if CONTACT_MODEL_INDEX == 0
#include "contact_node_face_via_spring.hpp"
typedef contact_node_face_via_spring model_t;
#elif CONTACT_MODEL_INDEX == 1
#include "contact_node_node_via_coupling.hpp"
typedef contact_node_node_via_coupling model_t;
#else
#include "contact_face_face_via_coupling.hpp"
typedef contact_face_face_via_coupling model_t;
#endif

static cell_ptr make_cell(long cls, const std::vector<double>& pos, cell_type_param_ptr ct, unsigned id) {
    std::vector<unsigned> ids = {0, 2, 1, 0, 1, 3, 0, 3, 2, 1, 2, 3};
    cell_ptr c;
    switch (cls) {
        case 0: c = std::make_shared<epithelial_cell>(pos, ids, id, ct); break;
        case 1: c = std::make_shared<ecm_cell>(pos, ids, id, ct); break;
        case 2: c = std::make_shared<lumen_cell>(pos, ids, id, ct); break;
        case 3: c = std::make_shared<nucleus_cell>(pos, ids, id, ct); break;
        default: c = std::make_shared<static_cell>(pos, ids, id, ct); break;
    }
    return c;
}

HARNESS(h_c07_pair) {
    const long* I = io->iin; const double* D = io->din;
    global_simulation_parameters sp;
    sp.contact_cutoff_adhesion_ = D[12]; sp.contact_cutoff_repulsion_ = D[13]; sp.min_edge_len_ = D[14];
    model_t model(sp);
    auto mk_type = [&](long cls) {
        auto ct = std::make_shared<cell_type_parameters>();
        ct->global_type_id_ = (short) cls;
        ct->surface_coupling_max_curvature_ = D[33];
        for (long k = 0; k < I[4]; k++) {
            face_type_parameters ft;
            ft.adherence_strength_ = D[15]; ft.repulsion_strength_ = D[16];
            ct->add_face_type(ft);
        }
        return ct;
    };
    // cell 1: tetrahedron far away except the query node; cell 2: the queried face has symbolic nodes
    const long ni = I[2], fi = I[3];
    std::vector<double> p1 = {100, 100, 100, 101, 100, 100, 100, 101, 100, 100, 100, 101};
    for (int k = 0; k < 3; k++) p1[3 * ni + k] = D[k];
    cell_ptr c1 = make_cell(I[0], p1, mk_type(I[0]), 0);
    c1->initialize_cell_properties(false);
    std::vector<double> p2 = {0, 0, 0, 1, 0, 0, 0, 1, 0, 0, 0, 1};
    cell_ptr c2 = make_cell(I[1], p2, mk_type(I[1]), 1);
    c2->initialize_cell_properties(false);
    c1->set_local_id(0); c2->set_local_id(1);
    face& f = c2->face_lst_[fi];
    const unsigned fn[3] = {f.n1_id_, f.n2_id_, f.n3_id_};
    for (int j = 0; j < 3; j++) c2->node_lst_[fn[j]].pos_.reset(D[3 + 3 * j], D[4 + 3 * j], D[5 + 3 * j]);
    c2->update_face_normal_and_area(f);
    f.type_id_ = (unsigned short) I[5];
    node& n1 = c1->node_lst_[ni];
#if CONTACT_MODEL_INDEX != 0
    n1.normal_.reset(D[17], D[18], D[19]); n1.curvature_ = D[29];
    for (int j = 0; j < 3; j++) { node& q = c2->node_lst_[fn[j]]; q.normal_.reset(D[20 + 3 * j], D[21 + 3 * j], D[22 + 3 * j]); q.curvature_ = D[30 + j]; }
#endif
#if CONTACT_MODEL_INDEX == 1
    for (auto cp : {c1, c2}) for (node& n : cp->node_lst_) { n.coupled_node_ = std::nullopt; n.squared_distance_to_closest_node_ = std::numeric_limits<double>::max(); }
#endif
    // the kernel's own answer for the pair (same expression the model uses)
    auto kd = contact_model_abstract::compute_node_triangle_distance(n1.pos(), c2->node_lst_[fn[0]].pos(), c2->node_lst_[fn[1]].pos(), c2->node_lst_[fn[2]].pos());
    OD(kd.first); OV(kd.second);
    OV(f.get_normal()); OD(f.get_area());
#if CONTACT_MODEL_INDEX == 0
    model.apply_contact_forces(c1, n1, &f);
#else
    model.resolve_contact(c1, c2, n1, &f);
#endif
    for (auto cp : {c1, c2}) for (const node& n : cp->node_lst_) OV(n.force());
    for (int j = 0; j < 3; j++) OI(fn[j]);
#if CONTACT_MODEL_INDEX == 1
    for (auto cp : {c1, c2}) for (const node& n : cp->node_lst_) {
        OI(n.coupled_node_.has_value());
        OI(n.coupled_node_.has_value() ? n.coupled_node_->first : -1);
        OI(n.coupled_node_.has_value() ? n.coupled_node_->second : -1);
        OD(n.squared_distance_to_closest_node_);
    }
#endif
}
