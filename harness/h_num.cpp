// C19: the output numbering law of solver::save_mesh + the time advance of the integrator, on a solver object whose members are
// set directly (no constructor: no filesystem), with mesh output stubbed by irsym. din: [dt, sampling_period], iin: [nsteps]
#include "common.hpp"
#include "solver.hpp"
#include "static_cell.hpp"

HARNESS(h_c19_numbering) {
    const double* D = io->din;
    global_simulation_parameters sp;
    sp.time_step_ = D[0]; sp.sampling_period_ = D[1]; sp.damping_coefficient_ = 1.;
#ifdef IRSYM_NATIVE
    sp.output_folder_path_ = "/tmp/irsym_c19_out";
    std::filesystem::create_directories(sp.output_folder_path_ + "/cell_data");
    std::filesystem::create_directories(sp.output_folder_path_ + "/face_data");
#else
    sp.output_folder_path_ = "out";
#endif
    solver* s = (solver*) operator new(sizeof(solver));
    new (&s->sim_parameters_) global_simulation_parameters(sp);
    new (&s->time_integrator_ptr_) std::unique_ptr<time_integration_scheme>(std::make_unique<time_integration_scheme>(sp, false));
    new (&s->cell_lst_) std::vector<cell_ptr>();
    {   // one static tetrahedron so that the real mesh writer (native replay) has something to write; static cells are not integrated
        auto ct = std::make_shared<cell_type_parameters>();
        face_type_parameters ft; ct->add_face_type(ft);
        std::vector<double> pos = {0, 0, 0, 1, 0, 0, 0, 1, 0, 0, 0, 1};
        std::vector<unsigned> ids = {0, 2, 1, 0, 1, 3, 0, 3, 2, 1, 2, 3};
        cell_ptr c = std::make_shared<static_cell>(pos, ids, 0u, ct);
        c->initialize_cell_properties(true);
        s->cell_lst_.push_back(c);
    }
    s->file_number_ = 0; s->iteration_ = 0;
    for (long k = 0; k < io->iin[0]; k++) {
        s->save_mesh();
        OI(s->file_number_);
        s->time_integrator_ptr_->update_nodes_positions(s->cell_lst_);
        OD(s->time_integrator_ptr_->get_simulation_time());
        s->iteration_++;
    }
}

// C19 (statistics cadence): the real solver (constructor + run()) on one static cell. din: [dt, sampling_period, duration]
// irsym: the statistics and mesh writers are replaced by recording stubs (events); natively the in-memory statistics writer is real and its
// rows are parsed here. iout: [final iteration count, then natively: the iteration number of every statistics row]
#include <sstream>
HARNESS(h_c19_stats) {
    const double* D = io->din;
    global_simulation_parameters sp;
    sp.time_step_ = D[0]; sp.sampling_period_ = D[1]; sp.simulation_duration_ = D[2]; sp.damping_coefficient_ = 1.; sp.min_edge_len_ = 0.3;
    sp.contact_cutoff_adhesion_ = 0.1; sp.contact_cutoff_repulsion_ = 0.1; sp.enable_edge_swap_operation_ = false;
#ifdef IRSYM_NATIVE
    sp.output_folder_path_ = "/tmp/irsym_c19_stats_out";
#else
    sp.output_folder_path_ = "out";
#endif
    auto ct = std::make_shared<cell_type_parameters>();
    ct->global_type_id_ = 4; ct->mass_density_ = 1.; ct->bulk_modulus_ = 1.; ct->max_pressure_ = 1e9; ct->avg_division_vol_ = 1e9; ct->min_vol_ = 0.;
    face_type_parameters ft; ct->add_face_type(ft);
    std::vector<double> pos = {0, 0, 0, 1, 0, 0, 0, 1, 0, 0, 0, 1};
    std::vector<unsigned> ids = {0, 2, 1, 0, 1, 3, 0, 3, 2, 1, 2, 3};
    cell_ptr c = std::make_shared<static_cell>(pos, ids, 0u, ct);
    c->initialize_cell_properties(true);
    std::vector<cell_ptr> cells = {c};
    solver s(sp, cells, 1, true, false);
    s.run();
    OI(s.iteration_);
    OD(s.time_integrator_ptr_->get_simulation_time());
#ifdef IRSYM_NATIVE
    std::istringstream is(s.get_simulation_statistics());
    for (std::string line; std::getline(is, line);) {
        if (line.empty() || line[0] < '0' || line[0] > '9') continue;
        OI(atol(line.c_str()));
    }
#endif
}

// C18 (consumer side): what the real solver constructor builds from the global parameters. din: [time_step, damping, min_edge_len, cutoff_adhesion,
// cutoff_repulsion, initial_pressure, bulk_modulus]; iin: [enable_edge_swap]. One static tetrahedron (volume 1/6).
HARNESS(h_c18_wire) {
    const double* D = io->din;
    global_simulation_parameters sp;
    sp.time_step_ = D[0]; sp.damping_coefficient_ = D[1]; sp.min_edge_len_ = D[2]; sp.contact_cutoff_adhesion_ = D[3]; sp.contact_cutoff_repulsion_ = D[4];
    sp.sampling_period_ = 1.; sp.simulation_duration_ = 10.; sp.enable_edge_swap_operation_ = io->iin[0] != 0;
#ifdef IRSYM_NATIVE
    sp.output_folder_path_ = "/tmp/irsym_c18_wire_out";
#else
    sp.output_folder_path_ = "out";
#endif
    auto ct = std::make_shared<cell_type_parameters>();
    ct->global_type_id_ = 4; ct->mass_density_ = 1.; ct->bulk_modulus_ = D[6]; ct->initial_pressure_ = D[5]; ct->max_pressure_ = std::numeric_limits<double>::infinity();
    ct->avg_division_vol_ = 1e9; ct->min_vol_ = 0.;
    face_type_parameters ft; ct->add_face_type(ft);
    std::vector<double> pos = {0, 0, 0, 1, 0, 0, 0, 1, 0, 0, 0, 1};
    std::vector<unsigned> ids = {0, 2, 1, 0, 1, 3, 0, 3, 2, 1, 2, 3};
    cell_ptr c = std::make_shared<static_cell>(pos, ids, 0u, ct);
    c->initialize_cell_properties(true);
    std::vector<cell_ptr> cells = {c};
    solver s(sp, cells, 1, true, false);
    OD(s.lmr_ptr_->l_min_); OD(s.lmr_ptr_->l_max_); OI(s.lmr_ptr_->enable_edge_swap_operation_);
    OD(s.time_integrator_ptr_->dt_); OD(s.time_integrator_ptr_->damping_coeff_);
    OD(s.contact_model_ptr_->interaction_cutoff_adhesion_); OD(s.contact_model_ptr_->interaction_cutoff_repulsion_);
    OD(s.contact_model_ptr_->aabb_padding_); OD(s.contact_model_ptr_->grid_.voxel_size_);
    OD(c->get_volume()); OD(c->get_target_volume()); OD(c->get_pressure());
}
