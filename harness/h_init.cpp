// C17 (third part): the cross-checks of simulation_initializer::run between the mesh file and the parameter file.
// The file-level pieces are replaced by stand-ins (irsym maps the real symbols to them): mesh_reader's constructor (no file),
// mesh_reader::read (ncells tetrahedra), mesh_reader::get_cell_types (the type ids given as input, as the shorts the reader stores),
// simulation_initializer::triangulate_surface (returns a static cell and records the cell type it was given). The real constructor
// simulation_initializer(sim_parameters, cell_type_param_lst, verbose) and its run() execute.
// iin: [number of cells in the mesh, number of type ids in the file, number of cell types in the parameter file, face types per cell type (4 entries),
//       type id of each cell (up to 4, as read by std::stoi)]
// iout: [0 completed | 1 intialization_exception | 2 other std::exception | 3 other, number of cells created, then for each created cell the global id of the type it received]
#include "common.hpp"
#include "simulation_initializer.hpp"
#include "static_cell.hpp"
#include <cstdio>
#include <unistd.h>

static vio* g_io5;
static std::vector<long> g_types_given;

std::vector<mesh> k5_read(const mesh_reader* self) {
    static const double P[12] = {0, 0, 0, 1, 0, 0, 0, 1, 0, 0, 0, 1};
    static const unsigned F[12] = {0, 2, 1, 0, 1, 3, 0, 3, 2, 1, 2, 3};
    std::vector<mesh> out;
    for (long c = 0; c < g_io5->iin[0]; c++) {
        mesh m;
        for (int k = 0; k < 12; k++) m.node_pos_lst.push_back(P[k] + 3. * c * (k % 3 == 0));
        for (int f = 0; f < 4; f++) m.face_point_ids.push_back({F[3 * f], F[3 * f + 1], F[3 * f + 2]});
        out.push_back(m);
    }
    return out;
}
std::vector<short> k5_get_cell_types(const mesh_reader* self) {
    std::vector<short> out;
    for (long k = 0; k < g_io5->iin[1]; k++) out.push_back((short) g_io5->iin[7 + k]);     // the reader stores std::stoi's int in a short
    return out;
}
cell_ptr k5_triangulate_surface(simulation_initializer* self, const mesh& m, const size_t cell_id, cell_type_param_ptr ct) {
    g_types_given.push_back(ct ? (long) ct->mass_density_ : -999);
    cell_ptr c = std::make_shared<static_cell>(m, (unsigned) cell_id, ct);
    c->initialize_cell_properties(true);
    return c;
}

HARNESS(h_c17_init) {
    g_io5 = io; g_types_given.clear();
    const long* I = io->iin;
    std::vector<cell_type_param_ptr> types;
    for (long t = 0; t < I[2]; t++) {
        auto ct = std::make_shared<cell_type_parameters>();
        ct->global_type_id_ = 4;                       // static cells (the class is irrelevant here)
        ct->mass_density_ = 100. + t;                  // tag by which the created cells tell which cell type they received
        for (long k = 0; k < I[3 + t]; k++) { face_type_parameters ft; ct->add_face_type(ft); }
        types.push_back(ct);
    }
    global_simulation_parameters sp;
    sp.input_mesh_path_ = "mesh.vtk"; sp.output_folder_path_ = "out"; sp.min_edge_len_ = 0.3;
    int cls = 0; long ncreated = -1;
#ifdef IRSYM_NATIVE
    // native replay: a real mesh file (ncells tetrahedra, the given type ids as text), the real mesh_reader and triangulate_surface
    char path[64]; snprintf(path, sizeof path, "/tmp/irsym_c17_init_%d.vtk", (int) getpid());
    {
        FILE* fp = fopen(path, "w");
        fprintf(fp, "# vtk DataFile Version 4.2\nvtk output\nASCII\nDATASET UNSTRUCTURED_GRID\nPOINTS %ld float\n", 4 * I[0]);
        for (long c = 0; c < I[0]; c++) fprintf(fp, "%g 0 0 %g 0 0 %g 1 0 %g 0 1\n", 3. * c, 3. * c + 1, 3. * c, 3. * c);
        fprintf(fp, "\nCELLS %ld %ld\n", I[0], 18 * I[0]);
        for (long c = 0; c < I[0]; c++) { long b = 4 * c; fprintf(fp, "17 4 3 %ld %ld %ld 3 %ld %ld %ld 3 %ld %ld %ld 3 %ld %ld %ld\n", b, b + 2, b + 1, b, b + 1, b + 3, b, b + 3, b + 2, b + 1, b + 2, b + 3); }
        fprintf(fp, "\nCELL_TYPES %ld\n", I[0]);
        for (long c = 0; c < I[0]; c++) fprintf(fp, "42\n");
        fprintf(fp, "\nCELL_DATA %ld\nFIELD FieldData 1\nCell_type_id 1 %ld int\n", I[0], I[1]);
        for (long k = 0; k < I[1]; k++) fprintf(fp, "%ld ", I[7 + k]);
        fprintf(fp, "\n");
        fclose(fp);
    }
    sp.input_mesh_path_ = path; sp.perform_initial_triangulation_ = false;
    try {
        simulation_initializer si(sp, types, false);
        ncreated = (long) si.get_cell_lst().size();
        for (auto& c : si.get_cell_lst()) g_types_given.push_back(c ? (long) c->get_cell_type()->mass_density_ : -999);
    }
#else
    try {
        simulation_initializer si(sp, types, false);
        ncreated = (long) si.get_cell_lst().size();
    }
#endif
    catch (const intialization_exception& e) { cls = 1; }
    catch (const std::exception& e) { cls = 2; }
    catch (...) { cls = 3; }
#ifdef IRSYM_NATIVE
    unlink(sp.input_mesh_path_.c_str());
#endif
    OI(cls); OI(ncreated);
    OI(g_types_given.size());
    for (long v : g_types_given) OI(v);
}
