// C15: parallel_exception_handler with a failing element at an arbitrary position.
// iin: [n, mask of throwing elements, mask of elements that throw mesh_reader_exception instead of intialization_exception]
// iout: [class of what the caller received: 0 nothing, 1 intialization_exception, 2 mesh_reader_exception, 3 other std::exception, 4 non-std;
//        index encoded in the message (-1 none)], then n flags "element was processed"
#include "common.hpp"
#include "utils.hpp"
#include "custom_exception.hpp"
#include <functional>
#include <string>
#include <vector>

HARNESS(h_c15_handler) {
    const long n = io->iin[0], mask = io->iin[1], kind = io->iin[2];
    std::vector<size_t> ids(n);
    for (long k = 0; k < n; k++) ids[k] = k;
    std::vector<int> ran(n, 0);
    const std::function<void(size_t)> f = [&](size_t i) -> void {
        ran[i] = 1;
        if ((mask >> i) & 1) {
            if ((kind >> i) & 1) throw mesh_reader_exception(std::string(1, (char) ('0' + i)));
            throw intialization_exception(std::string(1, (char) ('0' + i)));
        }
    };
    long cls = 0, who = -1;
    try { parallel_exception_handler(ids, f); }
    catch (const intialization_exception& e) { cls = 1; who = e.what()[0] - '0'; }
    catch (const mesh_reader_exception& e) { cls = 2; who = e.what()[0] - '0'; }
    catch (const std::exception& e) { cls = 3; }
    catch (...) { cls = 4; }
    OI(cls); OI(who);
    for (long k = 0; k < n; k++) OI(ran[k]);
}
