// C09 kernels of cell_divider (the randomised pipeline around them is not encoded, see DESIGN.md).
#include "common.hpp"
#include "cell_divider.hpp"

// find_edge_plane_intersection. din: e1(3) e2(3) p(3) n(3). iout: [has value]; dout: point
HARNESS(h_c09_edge) {
    const double* D = io->din;
    vec3 e1(D[0], D[1], D[2]), e2(D[3], D[4], D[5]), p(D[6], D[7], D[8]), n(D[9], D[10], D[11]);
    auto r = cell_divider::find_edge_plane_intersection(e1, e2, p, n);
    OI(r.has_value());
    if (r.has_value()) OV(r.value());
}

// map_points_to_xy_plane followed by map_points_to_division_plane, as divide_cell uses them: the K interface points are moved to
// the xy plane, new points are created there with z = 0 (triangulate_division_interface does that), everything is mapped back.
// din: n(3), K interface points (3 each), then M new points (x, y).  iin: [K, M]
// dout: translation(3), rotation(9), the K interface points in the xy plane (3 each), then all K+M points mapped back (3 each)
HARNESS(h_c09_map) {
    const double* D = io->din; const long K = io->iin[0], M = io->iin[1];
    mesh m;
    m.node_pos_lst = {11., 12., 13.};                         // one point that is not on the interface (threshold = 1)
    for (long k = 0; k < 3 * K; k++) m.node_pos_lst.push_back(D[3 + k]);
    vec3 n(D[0], D[1], D[2]);
    auto tr = cell_divider::map_points_to_xy_plane(m, 1, n);
    OV(tr.first);
    for (double x : tr.second.row_1_) OD(x); for (double x : tr.second.row_2_) OD(x); for (double x : tr.second.row_3_) OD(x);
    for (long k = 0; k < 3 * K; k++) OD(m.node_pos_lst[3 + k]);
    for (long j = 0; j < M; j++) { m.node_pos_lst.push_back(D[3 + 3 * K + 2 * j]); m.node_pos_lst.push_back(D[3 + 3 * K + 2 * j + 1]); m.node_pos_lst.push_back(0.); }
    cell_divider::map_points_to_division_plane(m, 1, tr.first, tr.second);
    for (long k = 0; k < 3 * (K + M); k++) OD(m.node_pos_lst[3 + k]);
    OD(m.node_pos_lst[0]); OD(m.node_pos_lst[1]); OD(m.node_pos_lst[2]);
}

// add_point_to_face + divide_faces on two triangles that share the cut edge (a,b).
// iin: [threshold, a, b, c, d, P, Q, R, rotation of face 0 (0..2), rotation of face 1 (0..2), second cut edge of face 0 (0: b-c, 1: c-a),
//       second cut edge of face 1 (0: a-d, 1: d-b), order (0: shared point first, 1: shared point last)]
// faces before: f0 = (a,b,c), f1 = (b,a,d), each stored with the given rotation.  iout: [class 0 ok / 1 division_exception / 2 other, number of faces, then the faces (size, ids...)]
HARNESS(h_c09_split) {
    const long* I = io->iin;
    const unsigned thr = (unsigned) I[0], a = (unsigned) I[1], b = (unsigned) I[2], c = (unsigned) I[3], d = (unsigned) I[4], P = (unsigned) I[5], Q = (unsigned) I[6], R = (unsigned) I[7];
    mesh m;
    m.node_pos_lst.assign(3 * 8, 0.);
    unsigned f0[3] = {a, b, c}, f1[3] = {b, a, d};
    std::vector<unsigned> g0, g1;
    for (int k = 0; k < 3; k++) { g0.push_back(f0[(k + I[8]) % 3]); g1.push_back(f1[(k + I[9]) % 3]); }
    m.face_point_ids.push_back(g0); m.face_point_ids.push_back(g1);
    int cls = 0;
    try {
        if (I[12] == 0) { cell_divider::add_point_to_face(m, 0, a, b, P); cell_divider::add_point_to_face(m, 1, a, b, P); }
        if (I[10] == 0) cell_divider::add_point_to_face(m, 0, b, c, Q); else cell_divider::add_point_to_face(m, 0, c, a, Q);
        if (I[11] == 0) cell_divider::add_point_to_face(m, 1, a, d, R); else cell_divider::add_point_to_face(m, 1, d, b, R);
        if (I[12] != 0) { cell_divider::add_point_to_face(m, 0, a, b, P); cell_divider::add_point_to_face(m, 1, a, b, P); }
        cell_divider::divide_faces(m, thr);
    }
    catch (const division_exception& e) { cls = 1; }
    catch (const std::exception& e) { cls = 2; }
    OI(cls); OI(m.face_point_ids.size());
    for (auto& f : m.face_point_ids) { OI(f.size()); for (unsigned v : f) OI(v); }
}

// ---------------------------------------------------------------------------------------------------------------------------------
// K4: the orchestration of cell_divider::divide_cell (what it does around its stages): the stages themselves are replaced by the
// stand-ins below (irsym maps the real symbols to them), each of which can be told to fail the way the real stage fails (by throwing an
// exception derived from std::exception). The real divide_cell body runs: compaction of the mother, target volumes of the daughters,
// random properties, conversion of every failure into "no division".
#include "epithelial_cell.hpp"
#include "ecm_cell.hpp"
#include "lumen_cell.hpp"
#include "nucleus_cell.hpp"
#include "static_cell.hpp"
#include "local_mesh_refiner.hpp"
#include "initial_triangulation.hpp"

static long g_k4_fail_stage = 0, g_k4_fail_kind = 0, g_k4_stage_reached = 0;
static void k4_maybe_throw(long stage) {
    g_k4_stage_reached = stage;
    if (g_k4_fail_stage != stage) return;
    switch (g_k4_fail_kind) {
        case 0: throw division_exception("stage failed");
        case 1: throw mesh_integrity_exception("stage failed");
        case 2: throw intialization_exception("stage failed");
        default: throw std::bad_alloc();
    }
}
mesh k4_add_intersection_points(cell_ptr c, const vec3& p, const vec3& n) {
    k4_maybe_throw(1);
    mesh m;
    for (const node& nd : c->get_node_lst()) { m.node_pos_lst.push_back(nd.pos().dx()); m.node_pos_lst.push_back(nd.pos().dy()); m.node_pos_lst.push_back(nd.pos().dz()); }
    for (int k = 0; k < 3; k++) { m.node_pos_lst.push_back(p.dx()); m.node_pos_lst.push_back(p.dy()); m.node_pos_lst.push_back(p.dz() + k); }
    for (const face& f : c->get_face_lst()) { auto [a, b, d] = f.get_node_ids(); m.face_point_ids.push_back({a, b, d}); }
    return m;
}
void k4_divide_faces(mesh& m, const unsigned thr) { k4_maybe_throw(2); }
void k4_coarse_triangulation(mesh& m) { g_k4_stage_reached = 3; }
std::pair<vec3, mat33> k4_map_points_to_xy_plane(mesh& m, const unsigned thr, const vec3& n) { g_k4_stage_reached = 4; return std::make_pair(vec3(0., 0., 0.), mat33::identity()); }
void k4_triangulate_division_interface(const double l_min, mesh& m, const unsigned t1, const unsigned t2, const vec3& n) { k4_maybe_throw(5); }
void k4_map_points_to_division_plane(mesh& m, const unsigned thr, const vec3& t, const mat33& r) { g_k4_stage_reached = 6; }
std::pair<cell_ptr, cell_ptr> k4_create_daughter_cells(cell_ptr c, mesh& m, const unsigned t1, const unsigned t2, const vec3& n, const vec3& ctr) {
    k4_maybe_throw(7);
    static const double P[12] = {0, 0, 0, 1, 0, 0, 0, 1, 0, 0, 0, 1};
    static const unsigned F[12] = {0, 2, 1, 0, 1, 3, 0, 3, 2, 1, 2, 3};
    mesh m1, m2;
    for (int k = 0; k < 4; k++) {
        m1.node_pos_lst.insert(m1.node_pos_lst.end(), {ctr.dx() + 0.4 * P[3 * k] + 0.05, ctr.dy() + 0.4 * P[3 * k + 1], ctr.dz() + 0.4 * P[3 * k + 2]});
        m2.node_pos_lst.insert(m2.node_pos_lst.end(), {ctr.dx() - 0.4 * P[3 * k] - 0.05, ctr.dy() + 0.4 * P[3 * k + 1], ctr.dz() + 0.4 * P[3 * k + 2]});
    }
    for (int f = 0; f < 4; f++) { m1.face_point_ids.push_back({F[3 * f], F[3 * f + 1], F[3 * f + 2]}); m2.face_point_ids.push_back({F[3 * f], F[3 * f + 1], F[3 * f + 2]}); }
    cell_ptr d1 = c->get_cell_same_type(m1), d2 = c->get_cell_same_type(m2);
    d1->initialize_cell_properties(true); d2->initialize_cell_properties(true);
    return std::make_pair(d1, d2);
}
void k4_refine_mesh(const local_mesh_refiner* self, cell_ptr c) { k4_maybe_throw(8); }

static void k4_dump_mother(vio* io, const cell& c) {
    OI(c.get_nb_of_nodes()); OI(c.get_nb_of_faces());
    for (const node& n : c.get_node_lst()) if (n.is_used()) OV(n.pos());
    for (const face& f : c.get_face_lst()) if (f.is_used()) { auto [a, b, d] = f.get_node_ids(); OI(a); OI(b); OI(d); }
    OD(c.get_target_volume()); OD(c.get_volume());
}

// iin: [class of the mother (0..4), failing stage (0 none), kind of exception]; din: [target volume of the mother]
// iout: [division happened, last stage reached, class of d1, class of d2, ...mother dump ints]; dout: [target volume d1, d2 (if divided), mother dump]
HARNESS(h_c09_orchestrate) {
    static const double P6[18] = {1, 0, 0, -1, 0, 0, 0, 1, 0, 0, -1, 0, 0, 0, 1, 0, 0, -1};
    static const unsigned F6[24] = {0, 2, 4, 2, 1, 4, 1, 3, 4, 3, 0, 4, 2, 0, 5, 1, 2, 5, 3, 1, 5, 0, 3, 5};
    std::vector<double> pos(P6, P6 + 18); std::vector<unsigned> ids(F6, F6 + 24);
    auto ct = std::make_shared<cell_type_parameters>();
    ct->global_type_id_ = (short) io->iin[0];
    face_type_parameters ft; ct->add_face_type(ft); ct->add_face_type(ft); ct->add_face_type(ft);
    cell_ptr c;
    switch (io->iin[0]) {
        case 0: c = std::make_shared<epithelial_cell>(pos, ids, 7u, ct); break;
        case 1: c = std::make_shared<ecm_cell>(pos, ids, 7u, ct); break;
        case 2: c = std::make_shared<lumen_cell>(pos, ids, 7u, ct); break;
        case 3: c = std::make_shared<nucleus_cell>(pos, ids, 7u, ct); break;
        default: c = std::make_shared<static_cell>(pos, ids, 7u, ct); break;
    }
    c->initialize_cell_properties(true);
    c->set_target_volume(io->din[0]);
    g_k4_fail_stage = io->iin[1]; g_k4_fail_kind = io->iin[2]; g_k4_stage_reached = 0;
    local_mesh_refiner lmr(0.3, 0.9, false);
    auto r = cell_divider::divide_cell(c, 0.3, lmr);
    OI(r.has_value()); OI(g_k4_stage_reached);
    if (r.has_value()) {
        OI(r->first->get_cell_type_id()); OI(r->second->get_cell_type_id());
        OD(r->first->get_target_volume()); OD(r->second->get_target_volume());
    }
    k4_dump_mother(io, *c);
}

// ---------------------------------------------------------------------------------------------
// K5: the real cell_divider::run (readiness test, collection of the mothers, appending of the daughters, removal of the mothers,
// renumbering) on a population of n epithelial tetrahedra. divide_cell is replaced by its contract (k5_divide_cell: two fresh cells of the
// mother's class, or nothing) because K1-K4 are about the real one. Which cells are ready (volume >= division volume) and which divisions
// succeed is decided by the symbolic doubles in din, so every subset is a path.
// iin: [n, id offset]; din: [volume of cell i (n), success selector of cell i (n): division succeeds iff > 0]
// iout: [number of divide_cell calls, (local id of the mother, success) per call, max id afterwards, size of the list afterwards,
//        per cell: id, local id, index of the original cell it is (or -1), index of the mother it is a daughter of (or -1), number of faces]
static const double* g_k5_sel = nullptr;
static long g_k5_ncalls = 0;
static long g_k5_call_mother[16], g_k5_call_ok[16];
static cell* g_k5_daughter[32]; static long g_k5_daughter_of[32]; static long g_k5_nd = 0;
std::optional<std::pair<cell_ptr, cell_ptr>> k5_divide_cell(cell_ptr c, const double l_min, const local_mesh_refiner& lmr) {
    const long i = (long) c->get_local_id();
    const bool ok = g_k5_sel[i] > 0.;
    g_k5_call_mother[g_k5_ncalls] = i; g_k5_call_ok[g_k5_ncalls] = ok; g_k5_ncalls++;
    if (!ok) return std::nullopt;
    static const double TP[12] = {0, 0, 0, 1, 0, 0, 0, 1, 0, 0, 0, 1};
    static const unsigned TF[12] = {0, 2, 1, 0, 1, 3, 0, 3, 2, 1, 2, 3};
    mesh m1, m2;
    for (int k = 0; k < 4; k++) {
        m1.node_pos_lst.insert(m1.node_pos_lst.end(), {3. * i + 0.4 * TP[3 * k] + 0.5, 0.4 * TP[3 * k + 1], 0.4 * TP[3 * k + 2]});
        m2.node_pos_lst.insert(m2.node_pos_lst.end(), {3. * i - 0.4 * TP[3 * k] - 0.05, 0.4 * TP[3 * k + 2], 0.4 * TP[3 * k + 1]});
    }
    for (int f = 0; f < 4; f++) { m1.face_point_ids.push_back({TF[3 * f], TF[3 * f + 1], TF[3 * f + 2]}); m2.face_point_ids.push_back({TF[3 * f], TF[3 * f + 1], TF[3 * f + 2]}); }
    cell_ptr d1 = c->get_cell_same_type(m1), d2 = c->get_cell_same_type(m2);
    d1->initialize_cell_properties(true); d2->initialize_cell_properties(true);
    g_k5_daughter[g_k5_nd] = d1.get(); g_k5_daughter_of[g_k5_nd++] = i;
    g_k5_daughter[g_k5_nd] = d2.get(); g_k5_daughter_of[g_k5_nd++] = i;
    return std::make_pair(d1, d2);
}

HARNESS(h_c09_run) {
    const long n = io->iin[0], off = io->iin[1];
    const double* D = io->din;
    auto ct = std::make_shared<cell_type_parameters>();
    ct->global_type_id_ = 0;
    face_type_parameters ft; ct->add_face_type(ft); ct->add_face_type(ft); ct->add_face_type(ft);
    std::vector<cell_ptr> cells;
    cell* orig[16];
    for (long i = 0; i < n; i++) {
        std::vector<double> pos = {3. * i, 0, 0, 3. * i + 1, 0, 0, 3. * i, 1, 0, 3. * i, 0, 1};
        std::vector<unsigned> ids = {0, 2, 1, 0, 1, 3, 0, 3, 2, 1, 2, 3};
        cell_ptr c = std::make_shared<epithelial_cell>(pos, ids, (unsigned) (off + i), ct);
        c->initialize_cell_properties(true);
        c->set_local_id((unsigned) i);
        c->volume_ = D[i]; c->division_volume_ = 1.;
        cells.push_back(c); orig[i] = c.get();
    }
    g_k5_sel = D + n; g_k5_ncalls = 0; g_k5_nd = 0;
    unsigned max_id = (unsigned) (off + n);
    local_mesh_refiner lmr(0.3, 0.9, false);
    cell_divider::run(cells, 0.3, lmr, max_id, false);
    OI(g_k5_ncalls);
    for (long k = 0; k < g_k5_ncalls; k++) { OI(g_k5_call_mother[k]); OI(g_k5_call_ok[k]); }
    OI(max_id); OI(cells.size());
    for (const cell_ptr& c : cells) {
        long o = -1, m = -1;
        for (long i = 0; i < n; i++) if (orig[i] == c.get()) o = i;
        for (long k = 0; k < g_k5_nd; k++) if (g_k5_daughter[k] == c.get()) m = g_k5_daughter_of[k];
        OI(c->get_id()); OI(c->get_local_id()); OI(o); OI(m); OI(c->get_face_lst().size());
    }
}

#if defined(IRSYM_NATIVE) && defined(K5_NATIVE_OVERRIDE)
// native replay of K5 only: the repository object that defines cell_divider::divide_cell is linked with that symbol weakened
// (objcopy --weaken-symbol, see checks/c09.py build_native_k5) and this definition takes its place, so that the real, compiled
// cell_divider::run calls the same contract stand-in as under irsym.
std::optional<std::pair<cell_ptr, cell_ptr>> cell_divider::divide_cell(cell_ptr c, const double l_min, const local_mesh_refiner& lmr) noexcept {
    return k5_divide_cell(c, l_min, lmr);
}
#endif
