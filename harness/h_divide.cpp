// C09 kernels of cell_divider (the randomised pipeline around them is not encoded, see DESIGN.md).
#include "common.hpp"
#include "cell_divider.hpp"

// find_edge_plane_intersection. din: e1(3) e2(3) p(3) n(3). iout: [has value]; dout: point
HARNESS(h_c09_edge) {
    const double* D = io->din;
    vec3 e1(D[0], D[1], D[2]), e2(D[3], D[4], D[5]), p(D[6], D[7], D[8]), n(D[9], D[10], D[11]);
    auto r = cell_divider::find_edge_plane_intersection(e1, e2, p, n);
    OI(r.has_value());
    if (r.has_value()) OV(r.value());
}

// map_points_to_xy_plane followed by map_points_to_division_plane, as divide_cell uses them: the K interface points are moved to
// the xy plane, new points are created there with z = 0 (triangulate_division_interface does that), everything is mapped back.
// din: n(3), K interface points (3 each), then M new points (x, y).  iin: [K, M]
// dout: translation(3), rotation(9), the K interface points in the xy plane (3 each), then all K+M points mapped back (3 each)
HARNESS(h_c09_map) {
    const double* D = io->din; const long K = io->iin[0], M = io->iin[1];
    mesh m;
    m.node_pos_lst = {11., 12., 13.};                         // one point that is not on the interface (threshold = 1)
    for (long k = 0; k < 3 * K; k++) m.node_pos_lst.push_back(D[3 + k]);
    vec3 n(D[0], D[1], D[2]);
    auto tr = cell_divider::map_points_to_xy_plane(m, 1, n);
    OV(tr.first);
    for (double x : tr.second.row_1_) OD(x); for (double x : tr.second.row_2_) OD(x); for (double x : tr.second.row_3_) OD(x);
    for (long k = 0; k < 3 * K; k++) OD(m.node_pos_lst[3 + k]);
    for (long j = 0; j < M; j++) { m.node_pos_lst.push_back(D[3 + 3 * K + 2 * j]); m.node_pos_lst.push_back(D[3 + 3 * K + 2 * j + 1]); m.node_pos_lst.push_back(0.); }
    cell_divider::map_points_to_division_plane(m, 1, tr.first, tr.second);
    for (long k = 0; k < 3 * (K + M); k++) OD(m.node_pos_lst[3 + k]);
    OD(m.node_pos_lst[0]); OD(m.node_pos_lst[1]); OD(m.node_pos_lst[2]);
}
