// C09 kernels of cell_divider (the randomised pipeline around them is not encoded, see DESIGN.md).
#include "common.hpp"
#include "cell_divider.hpp"

// find_edge_plane_intersection. din: e1(3) e2(3) p(3) n(3). iout: [has value]; dout: point
HARNESS(h_c09_edge) {
    const double* D = io->din;
    vec3 e1(D[0], D[1], D[2]), e2(D[3], D[4], D[5]), p(D[6], D[7], D[8]), n(D[9], D[10], D[11]);
    auto r = cell_divider::find_edge_plane_intersection(e1, e2, p, n);
    OI(r.has_value());
    if (r.has_value()) OV(r.value());
}

// map_points_to_xy_plane followed by map_points_to_division_plane, as divide_cell uses them: the K interface points are moved to
// the xy plane, new points are created there with z = 0 (triangulate_division_interface does that), everything is mapped back.
// din: n(3), K interface points (3 each), then M new points (x, y).  iin: [K, M]
// dout: translation(3), rotation(9), the K interface points in the xy plane (3 each), then all K+M points mapped back (3 each)
HARNESS(h_c09_map) {
    const double* D = io->din; const long K = io->iin[0], M = io->iin[1];
    mesh m;
    m.node_pos_lst = {11., 12., 13.};                         // one point that is not on the interface (threshold = 1)
    for (long k = 0; k < 3 * K; k++) m.node_pos_lst.push_back(D[3 + k]);
    vec3 n(D[0], D[1], D[2]);
    auto tr = cell_divider::map_points_to_xy_plane(m, 1, n);
    OV(tr.first);
    for (double x : tr.second.row_1_) OD(x); for (double x : tr.second.row_2_) OD(x); for (double x : tr.second.row_3_) OD(x);
    for (long k = 0; k < 3 * K; k++) OD(m.node_pos_lst[3 + k]);
    for (long j = 0; j < M; j++) { m.node_pos_lst.push_back(D[3 + 3 * K + 2 * j]); m.node_pos_lst.push_back(D[3 + 3 * K + 2 * j + 1]); m.node_pos_lst.push_back(0.); }
    cell_divider::map_points_to_division_plane(m, 1, tr.first, tr.second);
    for (long k = 0; k < 3 * (K + M); k++) OD(m.node_pos_lst[3 + k]);
    OD(m.node_pos_lst[0]); OD(m.node_pos_lst[1]); OD(m.node_pos_lst[2]);
}

// add_point_to_face + divide_faces on two triangles that share the cut edge (a,b).
// iin: [threshold, a, b, c, d, P, Q, R, rotation of face 0 (0..2), rotation of face 1 (0..2), second cut edge of face 0 (0: b-c, 1: c-a),
//       second cut edge of face 1 (0: a-d, 1: d-b), order (0: shared point first, 1: shared point last)]
// faces before: f0 = (a,b,c), f1 = (b,a,d), each stored with the given rotation.  iout: [class 0 ok / 1 division_exception / 2 other, number of faces, then the faces (size, ids...)]
HARNESS(h_c09_split) {
    const long* I = io->iin;
    const unsigned thr = (unsigned) I[0], a = (unsigned) I[1], b = (unsigned) I[2], c = (unsigned) I[3], d = (unsigned) I[4], P = (unsigned) I[5], Q = (unsigned) I[6], R = (unsigned) I[7];
    mesh m;
    m.node_pos_lst.assign(3 * 8, 0.);
    unsigned f0[3] = {a, b, c}, f1[3] = {b, a, d};
    std::vector<unsigned> g0, g1;
    for (int k = 0; k < 3; k++) { g0.push_back(f0[(k + I[8]) % 3]); g1.push_back(f1[(k + I[9]) % 3]); }
    m.face_point_ids.push_back(g0); m.face_point_ids.push_back(g1);
    int cls = 0;
    try {
        if (I[12] == 0) { cell_divider::add_point_to_face(m, 0, a, b, P); cell_divider::add_point_to_face(m, 1, a, b, P); }
        if (I[10] == 0) cell_divider::add_point_to_face(m, 0, b, c, Q); else cell_divider::add_point_to_face(m, 0, c, a, Q);
        if (I[11] == 0) cell_divider::add_point_to_face(m, 1, a, d, R); else cell_divider::add_point_to_face(m, 1, d, b, R);
        if (I[12] != 0) { cell_divider::add_point_to_face(m, 0, a, b, P); cell_divider::add_point_to_face(m, 1, a, b, P); }
        cell_divider::divide_faces(m, thr);
    }
    catch (const division_exception& e) { cls = 1; }
    catch (const std::exception& e) { cls = 2; }
    OI(cls); OI(m.face_point_ids.size());
    for (auto& f : m.face_point_ids) { OI(f.size()); for (unsigned v : f) OI(v); }
}
