// Population-level harnesses: C03 (time integration law).
#include "common.hpp"
#include "cell.hpp"
#include "epithelial_cell.hpp"
#include "ecm_cell.hpp"
#include "lumen_cell.hpp"
#include "nucleus_cell.hpp"
#include "static_cell.hpp"
#include "time_integration.hpp"

static cell_ptr make_cell_of_class(long cls, const std::vector<double>& pos, cell_type_param_ptr ct) {
    std::vector<unsigned> ids = {0, 2, 1, 0, 1, 3, 0, 3, 2, 1, 2, 3};
    switch (cls) {
        case 0: return std::make_shared<epithelial_cell>(pos, ids, 0u, ct);
        case 1: return std::make_shared<ecm_cell>(pos, ids, 0u, ct);
        case 2: return std::make_shared<lumen_cell>(pos, ids, 0u, ct);
        case 3: return std::make_shared<nucleus_cell>(pos, ids, 0u, ct);
        default: return std::make_shared<static_cell>(pos, ids, 0u, ct);
    }
}

// iin: [ncells, class(ncells), ncoup, (c1,n1,c2,n2)*ncoup, nsteps, unused_slot_cell, unused_slot_node, id offset]
// din: [dt, damping, (density, volume)*ncells, per node (4/cell): pos(3) mom(3) force(3), then per extra step: force(3) per node]
HARNESS(h_c03_step) {
    const long* I = io->iin; const double* D = io->din;
    const long nc = I[0];
    global_simulation_parameters sp;
    sp.time_step_ = D[0]; sp.damping_coefficient_ = D[1];
    time_integration_scheme integ(sp, false);
    std::vector<cell_ptr> cells;
    const double* S = D + 2 + 2 * nc;
    for (long c = 0; c < nc; c++) {
        auto ct = std::make_shared<cell_type_parameters>();
        ct->mass_density_ = D[2 + 2 * c];
        std::vector<double> pos(12);
        for (int n = 0; n < 4; n++) for (int k = 0; k < 3; k++) pos[3 * n + k] = S[(4 * c + n) * 9 + k];
        cell_ptr cp = make_cell_of_class(I[1 + c], pos, ct);
        cp->initialize_cell_properties(false);
        cp->volume_ = D[3 + 2 * c];
        cp->set_local_id((unsigned) c); cp->set_id((unsigned) c);
        for (int n = 0; n < 4; n++) {
            node& nd = cp->node_lst_[n];
            const double* q = S + (4 * c + n) * 9;
#if DYNAMIC_MODEL_INDEX == 0
            nd.momentum_.reset(q[3], q[4], q[5]);
#endif
            nd.force_.reset(q[6], q[7], q[8]);
        }
        cells.push_back(cp);
    }
    const long ncoup = I[1 + nc];
    const long* C = I + 2 + nc;
#if CONTACT_MODEL_INDEX == 1
    for (long k = 0; k < ncoup; k++) {
        cells[C[4 * k]]->node_lst_[C[4 * k + 1]].coupled_node_ = std::make_pair((unsigned) C[4 * k + 2], (unsigned) C[4 * k + 3]);
        cells[C[4 * k + 2]]->node_lst_[C[4 * k + 3]].coupled_node_ = std::make_pair((unsigned) C[4 * k], (unsigned) C[4 * k + 1]);
    }
#elif CONTACT_MODEL_INDEX == 2
    for (long k = 0; k < ncoup; k++) {
        cells[C[4 * k]]->node_lst_[C[4 * k + 1]].coupled_nodes_map_[(unsigned) C[4 * k + 2]] = std::make_pair((unsigned) C[4 * k + 3], 0.);
        cells[C[4 * k + 2]]->node_lst_[C[4 * k + 3]].coupled_nodes_map_[(unsigned) C[4 * k]] = std::make_pair((unsigned) C[4 * k + 1], 0.);
    }
#endif
    const long nsteps = C[4 * ncoup];
    const long uc = C[4 * ncoup + 1], un = C[4 * ncoup + 2];
    // persistent cell ids ahead of the list positions by this offset (the state after earlier cells have been removed or have divided)
    const long idoff = C[4 * ncoup + 3];
    for (long c = 0; c < nc; c++) cells[c]->set_id((unsigned) (c + idoff));
    if (uc >= 0) {   // mark one node slot as unused (free slot): it must not be integrated
        cells[uc]->node_lst_[un].set_is_used(false);
        cells[uc]->free_node_queue_.push_back((unsigned) un);
    }
    const double* EF = S + 4 * nc * 9;
    for (long s = 0; s < nsteps; s++) {
        if (s > 0) {
            for (long c = 0; c < nc; c++) for (int n = 0; n < 4; n++) {
                const double* q = EF + ((s - 1) * 4 * nc + 4 * c + n) * 3;
                cells[c]->node_lst_[n].force_.reset(q[0], q[1], q[2]);
            }
        }
        integ.update_nodes_positions(cells);
        OD(integ.get_simulation_time());
        for (long c = 0; c < nc; c++) for (int n = 0; n < 4; n++) {
            const node& nd = cells[c]->node_lst_[n];
            OV(nd.pos());
#if DYNAMIC_MODEL_INDEX == 0
            OV(nd.momentum());
#else
            OD(0); OD(0); OD(0);
#endif
            OV(nd.force());
        }
    }
}
