// Re-implementation of the out-of-line red-black tree helpers of libstdc++ (src/c++98/tree.cc),
// compiled to LLVM IR and linked into every irsym module so that std::set / std::map code from the
// repository runs unchanged.  Natively (SHIM_TEST) the same code is compiled under other names and
// differential-tested against libstdc++ (checks/selftest.py).
#include <set>
#include <map>
#ifdef SHIM_TEST
#define NS shim
#else
#define NS std
#endif
namespace NS {
using std::_Rb_tree_node_base;
using std::_S_red;
using std::_S_black;

static _Rb_tree_node_base* local_increment(_Rb_tree_node_base* x) noexcept {
    if (x->_M_right != 0) {
        x = x->_M_right;
        while (x->_M_left != 0) x = x->_M_left;
    } else {
        _Rb_tree_node_base* y = x->_M_parent;
        while (x == y->_M_right) { x = y; y = y->_M_parent; }
        if (x->_M_right != y) x = y;
    }
    return x;
}
_Rb_tree_node_base* _Rb_tree_increment(_Rb_tree_node_base* x) noexcept { return local_increment(x); }
const _Rb_tree_node_base* _Rb_tree_increment(const _Rb_tree_node_base* x) noexcept { return local_increment(const_cast<_Rb_tree_node_base*>(x)); }

static _Rb_tree_node_base* local_decrement(_Rb_tree_node_base* x) noexcept {
    if (x->_M_color == _S_red && x->_M_parent->_M_parent == x) x = x->_M_right;
    else if (x->_M_left != 0) {
        _Rb_tree_node_base* y = x->_M_left;
        while (y->_M_right != 0) y = y->_M_right;
        x = y;
    } else {
        _Rb_tree_node_base* y = x->_M_parent;
        while (x == y->_M_left) { x = y; y = y->_M_parent; }
        x = y;
    }
    return x;
}
_Rb_tree_node_base* _Rb_tree_decrement(_Rb_tree_node_base* x) noexcept { return local_decrement(x); }
const _Rb_tree_node_base* _Rb_tree_decrement(const _Rb_tree_node_base* x) noexcept { return local_decrement(const_cast<_Rb_tree_node_base*>(x)); }

static void rotate_left(_Rb_tree_node_base* const x, _Rb_tree_node_base*& root) {
    _Rb_tree_node_base* const y = x->_M_right;
    x->_M_right = y->_M_left;
    if (y->_M_left != 0) y->_M_left->_M_parent = x;
    y->_M_parent = x->_M_parent;
    if (x == root) root = y;
    else if (x == x->_M_parent->_M_left) x->_M_parent->_M_left = y;
    else x->_M_parent->_M_right = y;
    y->_M_left = x;
    x->_M_parent = y;
}
static void rotate_right(_Rb_tree_node_base* const x, _Rb_tree_node_base*& root) {
    _Rb_tree_node_base* const y = x->_M_left;
    x->_M_left = y->_M_right;
    if (y->_M_right != 0) y->_M_right->_M_parent = x;
    y->_M_parent = x->_M_parent;
    if (x == root) root = y;
    else if (x == x->_M_parent->_M_right) x->_M_parent->_M_right = y;
    else x->_M_parent->_M_left = y;
    y->_M_right = x;
    x->_M_parent = y;
}

void _Rb_tree_insert_and_rebalance(const bool insert_left, _Rb_tree_node_base* x, _Rb_tree_node_base* p, _Rb_tree_node_base& header) noexcept {
    _Rb_tree_node_base*& root = header._M_parent;
    x->_M_parent = p;
    x->_M_left = 0;
    x->_M_right = 0;
    x->_M_color = _S_red;
    if (insert_left) {
        p->_M_left = x;
        if (p == &header) { header._M_parent = x; header._M_right = x; }
        else if (p == header._M_left) header._M_left = x;
    } else {
        p->_M_right = x;
        if (p == header._M_right) header._M_right = x;
    }
    while (x != root && x->_M_parent->_M_color == _S_red) {
        _Rb_tree_node_base* const xpp = x->_M_parent->_M_parent;
        if (x->_M_parent == xpp->_M_left) {
            _Rb_tree_node_base* const y = xpp->_M_right;
            if (y && y->_M_color == _S_red) {
                x->_M_parent->_M_color = _S_black; y->_M_color = _S_black; xpp->_M_color = _S_red; x = xpp;
            } else {
                if (x == x->_M_parent->_M_right) { x = x->_M_parent; rotate_left(x, root); }
                x->_M_parent->_M_color = _S_black; xpp->_M_color = _S_red; rotate_right(xpp, root);
            }
        } else {
            _Rb_tree_node_base* const y = xpp->_M_left;
            if (y && y->_M_color == _S_red) {
                x->_M_parent->_M_color = _S_black; y->_M_color = _S_black; xpp->_M_color = _S_red; x = xpp;
            } else {
                if (x == x->_M_parent->_M_left) { x = x->_M_parent; rotate_right(x, root); }
                x->_M_parent->_M_color = _S_black; xpp->_M_color = _S_red; rotate_left(xpp, root);
            }
        }
    }
    root->_M_color = _S_black;
}

_Rb_tree_node_base* _Rb_tree_rebalance_for_erase(_Rb_tree_node_base* const z, _Rb_tree_node_base& header) noexcept {
    _Rb_tree_node_base*& root = header._M_parent;
    _Rb_tree_node_base*& leftmost = header._M_left;
    _Rb_tree_node_base*& rightmost = header._M_right;
    _Rb_tree_node_base* y = z;
    _Rb_tree_node_base* x = 0;
    _Rb_tree_node_base* x_parent = 0;
    if (y->_M_left == 0) x = y->_M_right;
    else if (y->_M_right == 0) x = y->_M_left;
    else {
        y = y->_M_right;
        while (y->_M_left != 0) y = y->_M_left;
        x = y->_M_right;
    }
    if (y != z) {
        z->_M_left->_M_parent = y;
        y->_M_left = z->_M_left;
        if (y != z->_M_right) {
            x_parent = y->_M_parent;
            if (x) x->_M_parent = y->_M_parent;
            y->_M_parent->_M_left = x;
            y->_M_right = z->_M_right;
            z->_M_right->_M_parent = y;
        } else x_parent = y;
        if (root == z) root = y;
        else if (z->_M_parent->_M_left == z) z->_M_parent->_M_left = y;
        else z->_M_parent->_M_right = y;
        y->_M_parent = z->_M_parent;
        std::swap(y->_M_color, z->_M_color);
        y = z;
    } else {
        x_parent = y->_M_parent;
        if (x) x->_M_parent = y->_M_parent;
        if (root == z) root = x;
        else if (z->_M_parent->_M_left == z) z->_M_parent->_M_left = x;
        else z->_M_parent->_M_right = x;
        if (leftmost == z) {
            if (z->_M_right == 0) leftmost = z->_M_parent;
            else { _Rb_tree_node_base* m = x; while (m->_M_left != 0) m = m->_M_left; leftmost = m; }
        }
        if (rightmost == z) {
            if (z->_M_left == 0) rightmost = z->_M_parent;
            else { _Rb_tree_node_base* m = x; while (m->_M_right != 0) m = m->_M_right; rightmost = m; }
        }
    }
    if (y->_M_color != _S_red) {
        while (x != root && (x == 0 || x->_M_color == _S_black)) {
            if (x == x_parent->_M_left) {
                _Rb_tree_node_base* w = x_parent->_M_right;
                if (w->_M_color == _S_red) { w->_M_color = _S_black; x_parent->_M_color = _S_red; rotate_left(x_parent, root); w = x_parent->_M_right; }
                if ((w->_M_left == 0 || w->_M_left->_M_color == _S_black) && (w->_M_right == 0 || w->_M_right->_M_color == _S_black)) {
                    w->_M_color = _S_red; x = x_parent; x_parent = x_parent->_M_parent;
                } else {
                    if (w->_M_right == 0 || w->_M_right->_M_color == _S_black) {
                        w->_M_left->_M_color = _S_black; w->_M_color = _S_red; rotate_right(w, root); w = x_parent->_M_right;
                    }
                    w->_M_color = x_parent->_M_color; x_parent->_M_color = _S_black;
                    if (w->_M_right) w->_M_right->_M_color = _S_black;
                    rotate_left(x_parent, root);
                    break;
                }
            } else {
                _Rb_tree_node_base* w = x_parent->_M_left;
                if (w->_M_color == _S_red) { w->_M_color = _S_black; x_parent->_M_color = _S_red; rotate_right(x_parent, root); w = x_parent->_M_left; }
                if ((w->_M_right == 0 || w->_M_right->_M_color == _S_black) && (w->_M_left == 0 || w->_M_left->_M_color == _S_black)) {
                    w->_M_color = _S_red; x = x_parent; x_parent = x_parent->_M_parent;
                } else {
                    if (w->_M_left == 0 || w->_M_left->_M_color == _S_black) {
                        w->_M_right->_M_color = _S_black; w->_M_color = _S_red; rotate_left(w, root); w = x_parent->_M_left;
                    }
                    w->_M_color = x_parent->_M_color; x_parent->_M_color = _S_black;
                    if (w->_M_left) w->_M_left->_M_color = _S_black;
                    rotate_right(x_parent, root);
                    break;
                }
            }
        }
        if (x) x->_M_color = _S_black;
    }
    return y;
}
}
