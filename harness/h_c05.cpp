// C05: the point-triangle kernel. Inputs: a (3), ab (3), ac (3), ap (3)  -> b=a+ab, c=a+ac, p=a+ap
#include "common.hpp"
#include "contact_model_abstract.hpp"

HARNESS(h_c05_kernel) {
    const double* d = io->din;
    vec3 a(d[0], d[1], d[2]);
    vec3 b(d[0] + d[3], d[1] + d[4], d[2] + d[5]);
    vec3 c(d[0] + d[6], d[1] + d[7], d[2] + d[8]);
    vec3 p(d[0] + d[9], d[1] + d[10], d[2] + d[11]);
    auto r = contact_model_abstract::compute_node_triangle_distance(p, a, b, c);
    OD(r.first);
    OV(r.second);
}

// raw-coordinate variant (used by the translator validation and by replay)
HARNESS(h_c05_kernel_raw) {
    const double* d = io->din;
    vec3 p(d[0], d[1], d[2]), a(d[3], d[4], d[5]), b(d[6], d[7], d[8]), c(d[9], d[10], d[11]);
    auto r = contact_model_abstract::compute_node_triangle_distance(p, a, b, c);
    OD(r.first);
    OV(r.second);
}
