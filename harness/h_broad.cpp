// C06: broad phase of the contact models (face AABBs, uniform grid, per-node voxel lookup) on a small tissue.
// Cell A is a small tetrahedron whose first node is the query point p (A = p + 0.3 * unit tetrahedron), cell B a tetrahedron
// scale * unit + offset, optional cell C (static) another tetrahedron. The whole tissue is shifted by T.
// din: [cut_adh, cut_rep, l_min, T(3), p(3), B scale, B offset(3), C scale, C offset(3)]
// iin: [class of A, class of B, with C (0/1), reference run (0/1), number of runs of the same model object, offset of the persistent cell ids,
//       B is an octahedron with one collapsed edge (unused face slots) (0/1), list the geometry first (0/1)]
// The real model's run() is executed; irsym records which (node, face) pairs pass the broad phase (calls of
// aabb_intersection_check that return true).  With iin[3] = 1 the same tissue is also run through a second model object whose
// grid has a single voxel per axis (min_edge_len = 1e9): same AABB test and narrow phase, no spatial discarding.
// dout: forces of all nodes after the real run, then (reference run) forces again; iout (model 1): couplings likewise.
#include "common.hpp"
#include "cell.hpp"
#include "epithelial_cell.hpp"
#include "ecm_cell.hpp"
#include "lumen_cell.hpp"
#include "nucleus_cell.hpp"
#include "static_cell.hpp"
#include "contact_model_abstract.hpp"
#include "local_mesh_refiner.hpp"
#if CONTACT_MODEL_INDEX == 0
#include "contact_node_face_via_spring.hpp"
typedef contact_node_face_via_spring model_t;
#elif CONTACT_MODEL_INDEX == 1
#include "contact_node_node_via_coupling.hpp"
typedef contact_node_node_via_coupling model_t;
#else
#include "contact_face_face_via_coupling.hpp"
typedef contact_face_face_via_coupling model_t;
#endif

static const double T4P[12] = {0, 0, 0, 1, 0, 0, 0, 1, 0, 0, 0, 1};

static const double T6P[18] = {1, 0, 0, -1, 0, 0, 0, 1, 0, 0, -1, 0, 0, 0, 1, 0, 0, -1};
static const unsigned T6F[24] = {0, 2, 4, 2, 1, 4, 1, 3, 4, 3, 0, 4, 2, 0, 5, 1, 2, 5, 3, 1, 5, 0, 3, 5};
static const unsigned T4F[12] = {0, 2, 1, 0, 1, 3, 0, 3, 2, 1, 2, 3};

static cell_ptr make_cell(long cls, const std::vector<double>& pos, cell_type_param_ptr ct, unsigned id) {
    std::vector<unsigned> ids = pos.size() == 18 ? std::vector<unsigned>(T6F, T6F + 24) : std::vector<unsigned>(T4F, T4F + 12);
    cell_ptr c;
    switch (cls) {
        case 0: c = std::make_shared<epithelial_cell>(pos, ids, id, ct); break;
        case 1: c = std::make_shared<ecm_cell>(pos, ids, id, ct); break;
        case 2: c = std::make_shared<lumen_cell>(pos, ids, id, ct); break;
        case 3: c = std::make_shared<nucleus_cell>(pos, ids, id, ct); break;
        default: c = std::make_shared<static_cell>(pos, ids, id, ct); break;
    }
    return c;
}

static std::vector<cell_ptr> build(vio* io) {
    const long* I = io->iin; const double* D = io->din;
    auto mk_type = [&](long cls) {
        auto ct = std::make_shared<cell_type_parameters>();
        ct->global_type_id_ = (short) cls; ct->surface_coupling_max_curvature_ = 1e9;
        for (int k = 0; k < 3; k++) { face_type_parameters ft; ft.adherence_strength_ = 2.; ft.repulsion_strength_ = 7.; ct->add_face_type(ft); }
        return ct;
    };
    const double* T = D + 3;
    std::vector<cell_ptr> cells;
    std::vector<double> pa(12), pb(12), pc(12);
    for (int n = 0; n < 4; n++) for (int k = 0; k < 3; k++) {
        pa[3 * n + k] = D[6 + k] + 0.3 * T4P[3 * n + k] + T[k];
        pb[3 * n + k] = D[9] * T4P[3 * n + k] + D[10 + k] + T[k];
        pc[3 * n + k] = D[13] * T4P[3 * n + k] + D[14 + k] + T[k];
    }
    // persistent ids ahead of the list positions by I[5] (the state after earlier cells have been removed or have divided)
    const unsigned idoff = (unsigned) I[5];
    cells.push_back(make_cell(I[0], pa, mk_type(I[0]), 0 + idoff));
    if (I[6]) {
        // B is an octahedron (scale * unit + offset) one of whose edges is collapsed below: its face list then has unused slots
        pb.assign(18, 0.);
        for (int n = 0; n < 6; n++) for (int k = 0; k < 3; k++) pb[3 * n + k] = D[9] * T6P[3 * n + k] + D[10 + k] + T[k];
    }
    cells.push_back(make_cell(I[1], pb, mk_type(I[1]), 1 + idoff));
    if (I[2]) cells.push_back(make_cell(4, pc, mk_type(4), 2 + idoff));
    for (size_t k = 0; k < cells.size(); k++) {
        cells[k]->initialize_cell_properties(k == 1 && I[6]);      // the edge set is needed for the collapse
        if (k == 1 && I[6]) {
            local_mesh_refiner lmr(0.01, 100., false);
            auto eo = cells[k]->get_edge(0u, 2u);
            edge_set to_check;
            if (eo.has_value() && lmr.can_be_merged(eo.value(), cells[k])) lmr.merge_edge(eo.value(), cells[k], to_check);
        }
        cells[k]->set_local_id(k);
        // node normals / curvatures are inputs of the narrow-phase gates only: radial normals, flat curvature
        const vec3 ctr = cells[k]->compute_centroid();
        for (node& n : cells[k]->node_lst_) {
#if CONTACT_MODEL_INDEX != 0
            n.normal_ = (n.pos() - ctr); n.curvature_ = 0.;
#endif
            n.force_.reset(0., 0., 0.);
        }
    }
    return cells;
}

static void dump_faces(vio* io, const std::vector<cell_ptr>& cells) {
    long n = 0;
    for (auto& c : cells) for (const face& f : c->face_lst_) if (f.is_used()) n++;
    OI(n);
    long ci = 0;
    for (auto& c : cells) {
        for (const face& f : c->face_lst_) if (f.is_used()) {
            OI(ci); OI(f.get_local_id());
            OV(c->node_lst_[f.n1_id_].pos()); OV(c->node_lst_[f.n2_id_].pos()); OV(c->node_lst_[f.n3_id_].pos());
        }
        ci++;
    }
    OI(-4242);
    for (auto& c : cells) { long nn = 0; for (const node& nd : c->node_lst_) if (nd.is_used()) nn++; OI(nn); for (const node& nd : c->node_lst_) if (nd.is_used()) { OI(nd.get_local_id()); OV(nd.pos()); } }
}

static void dump(vio* io, const std::vector<cell_ptr>& cells) {
    for (auto& c : cells) for (const node& n : c->node_lst_) {
        OV(n.force_);
#if CONTACT_MODEL_INDEX == 1
        OI(n.coupled_node_.has_value()); OI(n.coupled_node_.has_value() ? n.coupled_node_->first : -1); OI(n.coupled_node_.has_value() ? n.coupled_node_->second : -1);
#endif
    }
}

// marks the beginning of the k-th run of the same model object in the event log of irsym (no effect natively)
static volatile long g_c06_run = 0;
extern "C" __attribute__((noinline)) void h_c06_marker(long k) { g_c06_run = k; }

// iin[4] (optional, default 1): number of consecutive runs of the SAME model object (the solver keeps one contact model for the whole
// simulation); node forces are cleared between the runs and the forces of the last run are dumped
HARNESS(h_c06_broad) {
    const double* D = io->din;
    global_simulation_parameters sp;
    sp.contact_cutoff_adhesion_ = D[0]; sp.contact_cutoff_repulsion_ = D[1]; sp.min_edge_len_ = D[2];
    {
        std::vector<cell_ptr> cells = build(io);
        if (io->iin[7]) dump_faces(io, cells);     // geometry listing first (used faces in the order of the model's face list, used nodes)
        model_t model(sp);
        const long nruns = io->iin[4] > 1 ? io->iin[4] : 1;
        for (long k = 0; k < nruns; k++) {
            h_c06_marker(k);
            for (auto& c : cells) for (node& n : c->node_lst_) n.force_.reset(0., 0., 0.);
            model.run(cells);
        }
        dump(io, cells);
    }
    if (io->iin[3]) {
        global_simulation_parameters sr = sp;
        sr.min_edge_len_ = 1e9;            // one voxel per axis: nothing is discarded by the grid
        std::vector<cell_ptr> cells = build(io);
        model_t model(sr);
        model.run(cells);
        dump(io, cells);
    }
}
