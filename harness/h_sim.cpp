// Population-level harness: the real solver constructor and run_iteration on small tissues (C08, C14, C15, C04 removal, C06, C10).
// iin: [ncells, nsteps, mesh kind per cell (0=T4, 1=T6), class per cell, nft per cell, removal schedule (nsteps x ncells)]
// din: [dt, damping, l_min, cut_adh, cut_rep, sampling_period, duration, translation(3), then per cell: scale, offset(3), min_vol, division_volume, growth_rate]
#include "common.hpp"
#include "solver.hpp"
#include "epithelial_cell.hpp"
#include "ecm_cell.hpp"
#include "lumen_cell.hpp"
#include "nucleus_cell.hpp"
#include "static_cell.hpp"

static const double T4P[12] = {0, 0, 0, 1, 0, 0, 0, 1, 0, 0, 0, 1};
static const unsigned T4F[12] = {0, 2, 1, 0, 1, 3, 0, 3, 2, 1, 2, 3};
static const double T6P[18] = {1, 0, 0, -1, 0, 0, 0, 1, 0, 0, -1, 0, 0, 0, 1, 0, 0, -1};
static const unsigned T6F[24] = {0, 2, 4, 2, 1, 4, 1, 3, 4, 3, 0, 4, 2, 0, 5, 1, 2, 5, 3, 1, 5, 0, 3, 5};

static cell_ptr make_cell(long cls, const std::vector<double>& pos, const std::vector<unsigned>& ids, cell_type_param_ptr ct) {
    switch (cls) {
        case 0: return std::make_shared<epithelial_cell>(pos, ids, 0u, ct);
        case 1: return std::make_shared<ecm_cell>(pos, ids, 0u, ct);
        case 2: return std::make_shared<lumen_cell>(pos, ids, 0u, ct);
        case 3: return std::make_shared<nucleus_cell>(pos, ids, 0u, ct);
        default: return std::make_shared<static_cell>(pos, ids, 0u, ct);
    }
}

// stand-in for cell_divider::divide_cell with its contract (C09 is about the real one): either no division, or two fresh
// cells of the mother's class built through get_cell_same_type and initialised like real daughters. irsym maps the real symbol to this.
static long g_divide_mode = 1;
std::optional<std::pair<cell_ptr, cell_ptr>> h_divide_stub(cell_ptr c, const double l_min, const local_mesh_refiner& lmr) {
    if (g_divide_mode == 0) return std::nullopt;
    mesh m1, m2;
    const vec3 ctr = c->compute_centroid();
    for (int k = 0; k < 4; k++) {
        m1.node_pos_lst.insert(m1.node_pos_lst.end(), {ctr.dx() + 0.4 * T4P[3 * k] + 0.05, ctr.dy() + 0.4 * T4P[3 * k + 1], ctr.dz() + 0.4 * T4P[3 * k + 2]});
        m2.node_pos_lst.insert(m2.node_pos_lst.end(), {ctr.dx() - 0.4 * T4P[3 * k] - 0.05, ctr.dy() + 0.4 * T4P[3 * k + 1], ctr.dz() + 0.4 * T4P[3 * k + 2]});
    }
    for (int f = 0; f < 4; f++) { m1.face_point_ids.push_back({T4F[3 * f], T4F[3 * f + 1], T4F[3 * f + 2]}); m2.face_point_ids.push_back({T4F[3 * f], T4F[3 * f + 1], T4F[3 * f + 2]}); }
    cell_ptr d1 = c->get_cell_same_type(m1), d2 = c->get_cell_same_type(m2);
    d1->initialize_cell_properties(true); d2->initialize_cell_properties(true);
    d1->set_target_volume(c->get_target_volume() / 2.); d2->set_target_volume(c->get_target_volume() / 2.);
    return std::make_pair(d1, d2);
}

static void dump_population(vio* io, solver& s) {
    const auto& cl = s.get_cell_lst();
    OI(cl.size());
    for (size_t i = 0; i < cl.size(); i++) {
        const cell& c = *cl[i];
        OI(c.get_id()); OI(c.get_local_id()); OI(c.get_cell_type_id()); OI(c.node_lst_.size()); OI(c.face_lst_.size());
        OD(c.get_volume()); OD(c.get_target_volume()); OD(c.get_pressure()); OD(c.get_area());
        for (const node& n : c.node_lst_) {
            OI(n.is_used());
            OV(n.pos());
#if CONTACT_MODEL_INDEX == 1
            OI(n.coupled_node_.has_value());
            OI(n.coupled_node_.has_value() ? n.coupled_node_->first : -1);
            OI(n.coupled_node_.has_value() ? n.coupled_node_->second : -1);
#endif
            // the integrator clears the force of every node it advances: a force left after an iteration means the node was not integrated
            OI(n.force_.dx() == 0. && n.force_.dy() == 0. && n.force_.dz() == 0.);
        }
        for (const face& f : c.face_lst_) {
            OI(f.is_used()); OI(f.get_local_face_type_id());
            OI(f.owner_cell_ ? (long) f.owner_cell_->get_id() : -1);
            OI(f.owner_cell_.get() == cl[i].get());
            auto [a, b, d] = f.get_node_ids(); OI(a); OI(b); OI(d);
        }
    }
}

HARNESS(h_sim) {
    const long* I = io->iin; const double* D = io->din;
    const long nc = I[0], nsteps = I[1];
    global_simulation_parameters sp;
    sp.output_folder_path_ = "/tmp/irsym_sim_out";
    sp.time_step_ = D[0]; sp.damping_coefficient_ = D[1]; sp.min_edge_len_ = D[2];
    sp.contact_cutoff_adhesion_ = D[3]; sp.contact_cutoff_repulsion_ = D[4];
    sp.sampling_period_ = D[5]; sp.simulation_duration_ = D[6];
    sp.enable_edge_swap_operation_ = false;
    const double* T = D + 7;
    std::vector<cell_ptr> cells;
    for (long c = 0; c < nc; c++) {
        const double* P = D + 10 + 7 * c;
        const long kind = I[2 + c], cls = I[2 + nc + c], nft = I[2 + 2 * nc + c];
        auto ct = std::make_shared<cell_type_parameters>();
        ct->global_type_id_ = (short) cls;
        ct->mass_density_ = 1.; ct->bulk_modulus_ = 10.; ct->max_pressure_ = 1e9; ct->initial_pressure_ = 0.;
        ct->area_elasticity_modulus_ = 0.5; ct->target_isoperimetric_ratio_ = 150.; ct->angle_regularization_factor_ = 0.;
        ct->avg_growth_rate_ = P[6]; ct->std_growth_rate_ = 0.; ct->avg_division_vol_ = P[5]; ct->std_division_vol_ = 0.;
        ct->min_vol_ = P[4]; ct->surface_coupling_max_curvature_ = 1e9;
        for (long k = 0; k < nft; k++) { face_type_parameters ft; ft.surface_tension_ = 0.1 + 0.05 * k; ft.adherence_strength_ = 1.; ft.repulsion_strength_ = 5.; ft.face_type_global_id_ = (short) k; ct->add_face_type(ft); }
        const int nn = kind == 0 ? 4 : 6, nf = kind == 0 ? 4 : 8;
        const double* BP = kind == 0 ? T4P : T6P; const unsigned* BF = kind == 0 ? T4F : T6F;
        std::vector<double> pos(3 * nn); std::vector<unsigned> ids(BF, BF + 3 * nf);
        for (int n = 0; n < nn; n++) for (int k = 0; k < 3; k++) pos[3 * n + k] = P[0] * BP[3 * n + k] + P[1 + k] + T[k];
        cell_ptr cp = make_cell(cls, pos, ids, ct);
        cp->initialize_cell_properties(true);
        cells.push_back(cp);
    }
    solver s(sp, cells, 1, true, false);
    dump_population(io, s);
    const long* RM = I + 2 + 3 * nc;     // removal schedule: RM[k * nc + c] != 0 => cell c (initial numbering) falls below its minimum volume in iteration k
    for (long k = 0; k < nsteps; k++) {
        for (long c = 0; c < nc; c++) if (RM[k * nc + c]) cells[c]->cell_type_->min_vol_ = 1e9;
        s.run_iteration();
        dump_population(io, s);
    }
}
