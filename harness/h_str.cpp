// self-test of the std::string models of irsym (not tied to a property)
#include "common.hpp"
#include <string>
HARNESS(h_str_selftest) {
    std::string a = "result_" + std::to_string((unsigned) io->iin[0]) + ".vtk";
    std::string b = a + "/cell_data/some_longer_path_component_to_force_heap_allocation";
    b += std::to_string(io->iin[1]);
    std::string c = b.substr(3, 10);
    c.append("xyz");
    OI(a.size()); OI(b.size()); OI(c.size());
    long h = 0; for (char ch : b) h = h * 131 + ch; OI(h);
    h = 0; for (char ch : c) h = h * 131 + ch; OI(h);
    OI(a == "result_12.vtk"); OI(b.find("cell") != std::string::npos);
}
