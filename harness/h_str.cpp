// self-test of the std::string models of irsym (not tied to a property)
#include "common.hpp"
#include <string>
HARNESS(h_str_selftest) {
    std::string a = "result_" + std::to_string((unsigned) io->iin[0]) + ".vtk";
    std::string b = a + "/cell_data/some_longer_path_component_to_force_heap_allocation";
    b += std::to_string(io->iin[1]);
    std::string c = b.substr(3, 10);
    c.append("xyz");
    OI(a.size()); OI(b.size()); OI(c.size());
    long h = 0; for (char ch : b) h = h * 131 + ch; OI(h);
    h = 0; for (char ch : c) h = h * 131 + ch; OI(h);
    OI(a == "result_12.vtk"); OI(b.find("cell") != std::string::npos);
}

// ---------------------------------------------------------------------------------------------
// C10 (e): fixed-size formatting buffers. The two sprintf sites of the repository run with their numeric arguments symbolic; the
// sprintf model of irsym asks the solver whether the text can be longer than the destination buffer.
#include <chrono>
#include "statistics_writer.hpp"
#include "utils.hpp"

// string_statistics_writer::write_data with an empty cell list: elapsed wall-clock time -> "hh:mm:ss" in a stack buffer. The stream member is
// not constructed (write_data does not touch it when there is no cell). irsym: the writer starts at the epoch and system_clock::now() is an
// arbitrary non-negative instant, i.e. the elapsed time is arbitrary; natively iin[0] = elapsed seconds.
HARNESS(h_c10_clock) {
    string_statistics_writer* w = (string_statistics_writer*) operator new(sizeof(string_statistics_writer));
#ifdef IRSYM_NATIVE
    w->starting_time_point_ = std::chrono::system_clock::now() - std::chrono::seconds(io->iin[0]);
#else
    w->starting_time_point_ = std::chrono::time_point<std::chrono::system_clock>();
#endif
    std::vector<cell_ptr> none;
    w->string_statistics_writer::write_data(0u, 0., none);
    OI(1);
    operator delete(w);
}

// format_number with the formats the repository passes to it. iin: [format (0 "%.2e", 1 "%.3e", 2 "%.4e", 3 "%d" of an unsigned), unsigned value]; din: [value]
HARNESS(h_c10_format) {
    std::string r;
    switch (io->iin[0]) {
        case 0: r = format_number(io->din[0], "%.2e"); break;
        case 1: r = format_number(io->din[0], "%.3e"); break;
        case 2: r = format_number(io->din[0], "%.4e"); break;
        default: r = format_number((unsigned) io->iin[1], "%d"); break;
    }
    OI(r.size());
}
