// C01 / C11 / C10(a): local mesh refinement operations on a real cell.
// iin: [nn, nf, faces(3nf), op, ea, eb, swap_enabled, face labels (nf)]
// din: [coords(3nn), momenta(3nn), l_min, (op 4: second set of coordinates for all node slots, up to 3*NMAX)]
#include "common.hpp"
#include "cell.hpp"
#include "local_mesh_refiner.hpp"

static void dump_cell(vio* io, const cell& c) {
    OI(c.node_lst_.size()); OI(c.face_lst_.size());
    OI(c.get_nb_of_nodes()); OI(c.get_nb_of_faces());
    for (const node& n : c.node_lst_) {
        OI(n.is_used()); OI(n.get_local_id());
        OV(n.pos());
#if DYNAMIC_MODEL_INDEX == 0
        OV(n.momentum());
#else
        OD(0); OD(0); OD(0);
#endif
    }
    for (const face& f : c.face_lst_) {
        OI(f.is_used()); OI(f.get_local_id()); OI(f.get_local_face_type_id());
        auto [a, b, d] = f.get_node_ids();
        OI(a); OI(b); OI(d);
        OV(f.get_normal()); OD(f.get_area());
    }
    OI(c.edge_set_.size());
    for (const edge& e : c.edge_set_) {
        OI(e.n1()); OI(e.n2()); OI(e.is_manifold());
        OI(e.is_manifold() ? e.f1() : -1); OI(e.is_manifold() ? e.f2() : -1);
    }
    OI(c.free_node_queue_.size()); for (unsigned v : c.free_node_queue_) OI(v);
    OI(c.free_face_queue_.size()); for (unsigned v : c.free_face_queue_) OI(v);
}

HARNESS(h_refine) {
    const long nn = io->iin[0], nf = io->iin[1];
    const long* I = io->iin + 2 + 3 * nf;
    const long op = I[0], ea = I[1], eb = I[2], swap_enabled = I[3];
    const long* labels = I + 4;
    const double* D = io->din;
    std::vector<double> pos(D, D + 3 * nn);
    std::vector<unsigned> ids(3 * nf);
    for (long k = 0; k < 3 * nf; k++) ids[k] = (unsigned) io->iin[2 + k];
    auto c = std::make_shared<cell>(pos, ids, 0u, nullptr);
    c->initialize_cell_properties(true);
    for (long k = 0; k < nf; k++) c->face_lst_[k].set_face_type_id((unsigned short) labels[k]);
#if DYNAMIC_MODEL_INDEX == 0
    for (long n = 0; n < nn; n++) c->node_lst_[n].set_momentum(vec3(D[3 * nn + 3 * n], D[3 * nn + 3 * n + 1], D[3 * nn + 3 * n + 2]));
#endif
    const double l_min = D[6 * nn];
    local_mesh_refiner lmr(l_min, 3. * l_min, swap_enabled != 0);
    c->update_centroid();
    io->status = 0;
    try {
        if (op <= 2) {
            auto eo = c->get_edge((unsigned) ea, (unsigned) eb);
            if (!eo.has_value()) { io->status = 5; return; }
            edge e = eo.value();
            edge_set to_check;
            if (op == 0) lmr.split_edge(e, c, to_check);
            else if (op == 1) {
                const bool ok = lmr.can_be_merged(e, c);
                OI(ok);
                if (ok) lmr.merge_edge(e, c, to_check);
            } else lmr.swap_edge(e, c);
        } else if (op == 3) {
            lmr.refine_mesh(c);
        } else if (op == 4) {
            // pass, compaction, nodes moved arbitrarily, second pass, compaction
            lmr.refine_mesh(c);
            c->rebase();
            dump_cell(io, *c);
            const double* D2 = D + 6 * nn + 1;
            for (size_t n = 0; n < c->node_lst_.size(); n++) c->node_lst_[n].pos_.reset(D2[3 * n], D2[3 * n + 1], D2[3 * n + 2]);
            c->update_all_face_normals_and_areas();
            lmr.refine_mesh(c);
            c->rebase();
        } else if (op == 5) {
            c->rebase();
        } else if (op == 6 || op == 7) {
            // history: collapse edge (ea,eb) (frees two node slots and two face slots), then split edge (swap_enabled>>8 encodes it) which reuses them
            const long ec = (swap_enabled >> 8) & 0xff, ed = (swap_enabled >> 16) & 0xff;
            auto eo = c->get_edge((unsigned) ea, (unsigned) eb);
            if (!eo.has_value()) { io->status = 5; return; }
            edge e = eo.value();
            edge_set to_check;
            const bool ok = lmr.can_be_merged(e, c);
            OI(ok);
            if (ok) lmr.merge_edge(e, c, to_check);
            auto e2o = c->get_edge((unsigned) ec, (unsigned) ed);
            OI(e2o.has_value());
            if (e2o.has_value()) { edge e2 = e2o.value(); lmr.split_edge(e2, c, to_check); }
            if (op == 7) c->rebase();      // compaction after a history that leaves a free node slot but no free face slot
        }
    } catch (const mesh_integrity_exception& e) {
        io->status = 1;
    }
    dump_cell(io, *c);
}

// C01/O5: the ordering key of std::set<edge>. iin: [a, b, c, d] -> iout: hash(a,b), (edge(a,b) < edge(c,d)), (edge(a,b) == edge(c,d))
HARNESS(h_edge_key) {
    edge e1((unsigned) io->iin[0], (unsigned) io->iin[1]);
    edge e2((unsigned) io->iin[2], (unsigned) io->iin[3]);
    OI(e1.hash());
    OI(e1 < e2);
    OI(e1 == e2);
}
