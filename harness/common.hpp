// Shared by all irsym harnesses. A harness is an extern "C" function taking a vio*: inputs are
// arrays of doubles / longs (symbolic or concrete on the irsym side), outputs are written with
// OD()/OI(). The same translation unit is compiled to LLVM IR (clang-14) for irsym and natively
// (g++ -O2, baseline flags) for replay and translator validation. Harness code only *calls*
// repository code; every decision about the property is taken on the Python side.
#ifndef IRSYM_HARNESS_COMMON
#define IRSYM_HARNESS_COMMON
#include <exception>
#include <stdexcept>

struct vio {
    const double* din;
    const long*   iin;
    double*       dout;
    long*         iout;
    long nd;
    long ni;
    long status;
};

#define OD(x) (io->dout[io->nd++] = (double)(x))
#define OI(x) (io->iout[io->ni++] = (long)(x))
#define OV(v) do { OD((v).dx()); OD((v).dy()); OD((v).dz()); } while (0)

typedef void (*harness_fn)(vio*);
#ifdef IRSYM_NATIVE
struct harness_registrar { harness_registrar(const char* name, harness_fn f); };
#define HARNESS(name) extern "C" void name(vio* io); static harness_registrar reg_##name(#name, name); extern "C" void name(vio* io)
#else
#define HARNESS(name) extern "C" void name(vio* io)
#endif

#endif
