// C17: mesh_reader::get_cell_mesh (the step after tokenisation) on arbitrary connectivity lists.
// iin: [number of doubles in node_pos, number of cells, length of each cell's list ..., entries of all lists ...]
// node_pos[k] = 1000 + k (concrete: the property is about which reads happen, not about the values read).
// iout: [0 returned | 1 mesh_reader_exception | 2 other std::exception | 3 anything else], then for every returned mesh:
//       nb faces, per face (nb nodes, local ids...), nb of coordinates; dout: the coordinates copied into the meshes.
#include "common.hpp"
#include "mesh_reader.hpp"

HARNESS(h_c17_cell_mesh) {
    const long* I = io->iin;
    long npos = I[0], ncells = I[1];
    std::vector<double> node_pos;
    node_pos.reserve(npos > 0 ? npos : 1);
    for (long k = 0; k < npos; k++) node_pos.push_back(1000. + k);
    std::vector<std::vector<unsigned>> lists;
    lists.reserve(ncells > 0 ? ncells : 1);
    long p = 2 + ncells;
    for (long c = 0; c < ncells; c++) {
        std::vector<unsigned> l;
        l.reserve(I[2 + c]);                      // as read_cell_faces does: reserve(nb_cell_data), then push_back
        for (long k = 0; k < I[2 + c]; k++) l.push_back((unsigned) I[p++]);
        lists.push_back(l);
    }
    int cls = 0;
    std::vector<mesh> out;
    try { out = mesh_reader::get_cell_mesh(node_pos, lists); }
    catch (const mesh_reader_exception& e) { cls = 1; }
    catch (const std::exception& e) { cls = 2; }
    catch (...) { cls = 3; }
    OI(cls);
    if (cls == 0) {
        OI(out.size());
        for (auto& m : out) {
            OI(m.face_point_ids.size());
            for (auto& f : m.face_point_ids) { OI(f.size()); for (unsigned v : f) OI(v); }
            OI(m.node_pos_lst.size());
            for (double x : m.node_pos_lst) OD(x);
        }
    }
}
