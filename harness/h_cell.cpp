// Cell-level harnesses (C12 geometry, C02 forces, C04 cell-cycle law).
// iin: [nn, nf, face node ids (3*nf) ...extra], din: [coords (3*nn) ...extra]
#include "common.hpp"
#include "cell.hpp"
#include "epithelial_cell.hpp"
#include "ecm_cell.hpp"
#include "lumen_cell.hpp"
#include "nucleus_cell.hpp"
#include "static_cell.hpp"

static std::shared_ptr<cell> build_cell(vio* io, cell_type_param_ptr ct = nullptr) {
    const long nn = io->iin[0], nf = io->iin[1];
    std::vector<double> pos(io->din, io->din + 3 * nn);
    std::vector<unsigned> ids(3 * nf);
    for (long k = 0; k < 3 * nf; k++) ids[k] = (unsigned) io->iin[2 + k];
    return std::make_shared<cell>(pos, ids, 0u, ct);
}

static void dump_faces(vio* io, const cell& c) {
    for (const face& f : c.get_face_lst()) {
        OI(f.is_used());
        if (!f.is_used()) continue;
        auto [a, b, d] = f.get_node_ids();
        OI(a); OI(b); OI(d);
        OV(f.get_normal()); OD(f.get_area());
    }
}

// C12: constructor + initialize_cell_properties(true): volume, area, centroid, aabb, faces
HARNESS(h_c12_geom) {
    auto c = build_cell(io);
    c->initialize_cell_properties(true);
    c->update_centroid();
    OD(c->get_volume()); OD(c->get_area());
    OV(c->get_centroid());
    auto bb = c->get_aabb();
    for (double x : bb) OD(x);
    dump_faces(io, *c);
    OI(c->is_manifold());
}

// same without the orientation repair (input winding is trusted): isolates compute_volume etc.
HARNESS(h_c12_geom_noorient) {
    auto c = build_cell(io);
    c->initialize_cell_properties(false);
    c->update_centroid();
    OD(c->get_volume()); OD(c->get_area());
    OV(c->get_centroid());
    auto bb = c->get_aabb();
    for (double x : bb) OD(x);
    dump_faces(io, *c);
}

// ---------------------------------------------------------------------------------------------
// C02: one internal force term at a time.
// iin: [nn, nf, faces(3nf), term, nft, type_id per face (nf), face_index]
// din: [coords(3nn), pressure, area_elasticity_modulus, target_isoperimetric_ratio, angle_regularization_factor,
//       bulk_modulus, max_pressure, growth_rate, min_vol, dt, then per face type: surface_tension, bending_modulus]
static cell_type_param_ptr make_cell_type(vio* io, long nn, long nf, long& term, long& face_index) {
    const long* I = io->iin + 2 + 3 * nf;
    term = I[0];
    const long nft = I[1];
    face_index = I[2 + nf];
    const double* D = io->din + 3 * nn;
    auto ct = std::make_shared<cell_type_parameters>();
    ct->area_elasticity_modulus_ = D[1];
    ct->target_isoperimetric_ratio_ = D[2];
    ct->angle_regularization_factor_ = D[3];
    ct->bulk_modulus_ = D[4];
    ct->max_pressure_ = D[5];
    ct->avg_growth_rate_ = D[6];
    ct->std_growth_rate_ = 0.;
    ct->min_vol_ = D[7];
    ct->avg_division_vol_ = 1e30;
    ct->std_division_vol_ = 0.;
    ct->mass_density_ = 1.;
    for (long k = 0; k < nft; k++) {
        face_type_parameters ft;
        ft.surface_tension_ = D[9 + 2 * k];
        ft.bending_modulus_ = D[10 + 2 * k];
        ct->add_face_type(ft);
    }
    return ct;
}

HARNESS(h_c02_forces) {
    const long nn = io->iin[0], nf = io->iin[1];
    long term, face_index;
    auto ct = make_cell_type(io, nn, nf, term, face_index);
    auto c = build_cell(io, ct);
    c->initialize_cell_properties(true);
    const long* types = io->iin + 2 + 3 * nf + 2;
    for (long k = 0; k < nf; k++) c->face_lst_[k].type_id_ = (unsigned short) types[k];
    const double* D = io->din + 3 * nn;
    if (term == 2) {
        // isolate one hinge: keep only the edge (iin[..+3], iin[..+4]) in the edge set, so that the loop body of
        // apply_bending_forces runs for exactly that hinge (total force = sum over hinges)
        const long ea = types[nf + 1], eb = types[nf + 2];
        for (auto it = c->edge_set_.begin(); it != c->edge_set_.end();) {
            const bool keep = (it->n1() == ea && it->n2() == eb) || (it->n1() == eb && it->n2() == ea);
            if (keep) ++it; else it = c->edge_set_.erase(it);
        }
    }
    switch (term) {
        case 0: c->pressure_ = D[0]; c->apply_pressure_on_surface(); break;
        case 1: c->apply_surface_tension_and_membrane_elasticity(); break;
        case 2: c->apply_bending_forces(); break;
        case 3: c->regularize_face_angles(c->face_lst_[face_index]); break;
        case 4: c->apply_internal_forces(D[8]); break;
    }
    for (const node& n : c->get_node_lst()) OV(n.force());
    OD(c->get_volume()); OD(c->get_area()); OD(c->get_pressure()); OD(c->get_target_volume());
}

// ---------------------------------------------------------------------------------------------
// C04: cell-cycle law on a cell of a given class (0 epithelial, 1 ecm, 2 lumen, 3 nucleus, 4 static).
static std::shared_ptr<cell> make_class_cell(long cls, cell_type_param_ptr ct) {
    std::vector<double> pos = {0, 0, 0, 1, 0, 0, 0, 1, 0, 0, 0, 1};
    std::vector<unsigned> ids = {0, 2, 1, 0, 1, 3, 0, 3, 2, 1, 2, 3};
    switch (cls) {
        case 0: return std::make_shared<epithelial_cell>(pos, ids, 0u, ct);
        case 1: return std::make_shared<ecm_cell>(pos, ids, 0u, ct);
        case 2: return std::make_shared<lumen_cell>(pos, ids, 0u, ct);
        case 3: return std::make_shared<nucleus_cell>(pos, ids, 0u, ct);
        default: return std::make_shared<static_cell>(pos, ids, 0u, ct);
    }
}

// din: [V, Vt, K, Pmax, g, dt, minvol, Vdiv]  iin: [class, pmax_is_inf, vdiv_is_inf]
HARNESS(h_c04_cycle) {
    const double* D = io->din;
    auto ct = std::make_shared<cell_type_parameters>();
    ct->bulk_modulus_ = D[2];
    ct->max_pressure_ = io->iin[1] ? std::numeric_limits<double>::infinity() : D[3];
    ct->min_vol_ = D[6];
    auto c = make_class_cell(io->iin[0], ct);
    c->volume_ = D[0]; c->target_volume_ = D[1]; c->growth_rate_ = D[4];
    c->division_volume_ = io->iin[2] ? std::numeric_limits<double>::infinity() : D[7];
    c->update_target_volume(D[5]);
    OD(c->get_target_volume());
    c->update_pressure();
    OD(c->get_pressure());
    OI(c->is_ready_to_divide());
    OI(c->is_below_min_vol());
    OI(c->is_static());
}

// C04, link to the mesh: a cell of the given class is built on one tetrahedron, its properties are initialised, then its nodes are moved
// (as the time integrator or the mesh refiner would) and the per-iteration entry point apply_internal_forces(dt) runs. The volume it
// stores, the target volume, the pressure and the removal predicate must be those of the mesh as it is now.
// din: [coords at construction (12), coords now (12), Vt, K, Pmax, g, dt, minvol]  iin: [class, pmax_is_inf]
HARNESS(h_c04_mesh) {
    const double* D = io->din;
    auto ct = std::make_shared<cell_type_parameters>();
    ct->bulk_modulus_ = D[25];
    ct->max_pressure_ = io->iin[1] ? std::numeric_limits<double>::infinity() : D[26];
    ct->min_vol_ = D[29];
    ct->area_elasticity_modulus_ = 0.; ct->target_isoperimetric_ratio_ = 150.; ct->angle_regularization_factor_ = 0.;
    ct->avg_division_vol_ = 1e30; ct->std_division_vol_ = 0.; ct->mass_density_ = 1.;
    face_type_parameters ft; ft.surface_tension_ = 0.; ft.bending_modulus_ = 0.;
    ct->add_face_type(ft);
    std::vector<double> pos(D, D + 12);
    std::vector<unsigned> ids = {0, 2, 1, 0, 1, 3, 0, 3, 2, 1, 2, 3};
    std::shared_ptr<cell> c;
    switch (io->iin[0]) {
        case 0: c = std::make_shared<epithelial_cell>(pos, ids, 0u, ct); break;
        case 2: c = std::make_shared<lumen_cell>(pos, ids, 0u, ct); break;
        case 3: c = std::make_shared<nucleus_cell>(pos, ids, 0u, ct); break;
        default: c = std::make_shared<static_cell>(pos, ids, 0u, ct); break;
    }
    c->initialize_cell_properties(false);
    c->target_volume_ = D[24]; c->growth_rate_ = D[27];
    for (unsigned k = 0; k < 4; k++) c->node_lst_[k].pos_ = vec3(D[12 + 3 * k], D[13 + 3 * k], D[14 + 3 * k]);
    c->apply_internal_forces(D[28]);
    OD(c->get_volume());
    OD(c->get_target_volume());
    OD(c->get_pressure());
    OI(c->is_below_min_vol());
    OD(c->get_area());
}

// din: [mu_g, sigma_g, mu_div, sigma_div]  iin: [class, sigma_g_is_zero, sigma_div_is_zero, mu_div_is_inf]
HARNESS(h_c04_random) {
    const double* D = io->din;
    auto ct = std::make_shared<cell_type_parameters>();
    ct->avg_growth_rate_ = D[0];
    ct->std_growth_rate_ = io->iin[1] ? 0. : D[1];
    ct->avg_division_vol_ = io->iin[3] ? std::numeric_limits<double>::infinity() : D[2];
    ct->std_division_vol_ = io->iin[2] ? 0. : D[3];
    auto c = make_class_cell(io->iin[0], ct);
    c->initialize_random_properties();
    OD(c->get_growth_rate());
    OD(c->get_division_volume());
}

// C12: get_cell_longest_axis. The 3x3 symmetric eigen-solver (gte::SymmetricEigensolver3x3, iterative) is environment: irsym replaces
// mat33::eigen_decomposition by a stub that records the matrix it is given and returns arbitrary (symbolic) eigen pairs.
HARNESS(h_c12_axis) {
    auto c = build_cell(io);
    c->initialize_cell_properties(false);
    const vec3 axis = c->get_cell_longest_axis();
    OV(axis);
    const vec3 ctr = c->compute_centroid();      // the reference point the second moments are taken about (its own law is a C12 obligation)
    OV(ctr);
}
