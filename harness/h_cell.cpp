// Cell-level harnesses (C12 geometry, C02 forces, C04 cell-cycle law).
// iin: [nn, nf, face node ids (3*nf) ...extra], din: [coords (3*nn) ...extra]
#include "common.hpp"
#include "cell.hpp"
#include "epithelial_cell.hpp"
#include "ecm_cell.hpp"
#include "lumen_cell.hpp"
#include "nucleus_cell.hpp"
#include "static_cell.hpp"

static std::shared_ptr<cell> build_cell(vio* io, cell_type_param_ptr ct = nullptr) {
    const long nn = io->iin[0], nf = io->iin[1];
    std::vector<double> pos(io->din, io->din + 3 * nn);
    std::vector<unsigned> ids(3 * nf);
    for (long k = 0; k < 3 * nf; k++) ids[k] = (unsigned) io->iin[2 + k];
    return std::make_shared<cell>(pos, ids, 0u, ct);
}

static void dump_faces(vio* io, const cell& c) {
    for (const face& f : c.get_face_lst()) {
        OI(f.is_used());
        if (!f.is_used()) continue;
        auto [a, b, d] = f.get_node_ids();
        OI(a); OI(b); OI(d);
        OV(f.get_normal()); OD(f.get_area());
    }
}

// C12: constructor + initialize_cell_properties(true): volume, area, centroid, aabb, faces
HARNESS(h_c12_geom) {
    auto c = build_cell(io);
    c->initialize_cell_properties(true);
    c->update_centroid();
    OD(c->get_volume()); OD(c->get_area());
    OV(c->get_centroid());
    auto bb = c->get_aabb();
    for (double x : bb) OD(x);
    dump_faces(io, *c);
    OI(c->is_manifold());
}

// same without the orientation repair (input winding is trusted): isolates compute_volume etc.
HARNESS(h_c12_geom_noorient) {
    auto c = build_cell(io);
    c->initialize_cell_properties(false);
    c->update_centroid();
    OD(c->get_volume()); OD(c->get_area());
    OV(c->get_centroid());
    auto bb = c->get_aabb();
    for (double x : bb) OD(x);
    dump_faces(io, *c);
}
