// Native replay driver: reads requests "name nd ni <doubles as hex> <longs>" (one per line) from stdin,
// calls the harness compiled by g++ with the baseline flags, prints "status nd ni <doubles hex> <longs>".
#include "common.hpp"
#include <cstdio>
#include <cstdlib>
#include <cstring>
#include <map>
#include <string>
#include <vector>
#include <iostream>
#include <sstream>

static std::map<std::string, harness_fn>& table() { static std::map<std::string, harness_fn> t; return t; }
harness_registrar::harness_registrar(const char* name, harness_fn f) { table()[name] = f; }

int main() {
    std::string line;
    while (std::getline(std::cin, line)) {
        std::istringstream is(line);
        std::string name; long nd, ni;
        if (!(is >> name >> nd >> ni)) continue;
        std::vector<double> din(nd + 1); std::vector<long> iin(ni + 1);
        for (long k = 0; k < nd; k++) { std::string t; is >> t; din[k] = strtod(t.c_str(), nullptr); }
        for (long k = 0; k < ni; k++) is >> iin[k];
        std::vector<double> dout(1 << 16); std::vector<long> iout(1 << 16);
        vio io{din.data(), iin.data(), dout.data(), iout.data(), 0, 0, 0};
        auto it = table().find(name);
        if (it == table().end()) { printf("-999 0 0\n"); fflush(stdout); continue; }
        try { it->second(&io); }
        catch (const std::exception& e) { io.status = -1; fprintf(stderr, "exception: %s\n", e.what()); }
        catch (...) { io.status = -2; }
        printf("%ld %ld %ld", io.status, io.nd, io.ni);
        for (long k = 0; k < io.nd; k++) printf(" %a", dout[k]);
        for (long k = 0; k < io.ni; k++) printf(" %ld", iout[k]);
        printf("\n"); fflush(stdout);
    }
    return 0;
}
