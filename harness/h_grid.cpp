// C20: spatial grids.
#include "common.hpp"
#include "uspg_4d.hpp"
#include "uspg_3d.hpp"

// din: [min(3), max(3), voxel, p(3)]  -> iout: nb(3), idx(3), linear index, total
HARNESS(h_c20_index4d) {
    const double* D = io->din;
    uspg_4d<int> g(D[0], D[1], D[2], D[3], D[4], D[5], D[6], 0);
    auto nb = g.get_nb_voxels();
    auto id = g.get_3d_voxel_index(D[7], D[8], D[9]);
    for (unsigned v : nb) OI(v);
    for (unsigned v : id) OI(v);
    OI(g.get_voxel_index(id[0], id[1], id[2]));
    auto mn = g.get_min_corner(); auto mx = g.get_max_corner();
    for (double v : mn) OD(v);
    for (double v : mx) OD(v);
}

HARNESS(h_c20_index3d) {
    const double* D = io->din;
    uspg_3d<int> g(D[0], D[1], D[2], D[3], D[4], D[5], D[6], 0);
    auto nb = g.get_nb_voxels();
    auto id = g.get_3d_voxel_index(D[7], D[8], D[9]);
    for (unsigned v : nb) OI(v);
    for (unsigned v : id) OI(v);
    OI(g.get_voxel_index(id[0], id[1], id[2]));
    auto mn = g.get_min_corner(); auto mx = g.get_max_corner();
    for (double v : mn) OD(v);
    for (double v : mx) OD(v);
}

// O3: index arithmetic with given voxel counts. iin: [nbx, nby, nbz, x, y, z] -> iout: linear index (as computed by the class)
HARNESS(h_c20_linear) {
    uspg_4d<int> g;
    g.nb_voxels_x_ = (unsigned) io->iin[0]; g.nb_voxels_y_ = (unsigned) io->iin[1]; g.nb_voxels_z_ = (unsigned) io->iin[2];
    OI(g.get_voxel_index((unsigned) io->iin[3], (unsigned) io->iin[4], (unsigned) io->iin[5]));
}

// total number of voxels allocated by update_dimensions. din: [min(3), max(3), voxel] -> iout: nb(3), voxel_lst_.size()
HARNESS(h_c20_alloc4d) {
    const double* D = io->din;
    uspg_4d<int> g(D[0], D[1], D[2], D[3], D[4], D[5], D[6], 0);
    auto nb = g.get_nb_voxels();
    for (unsigned v : nb) OI(v);
    OI(g.voxel_lst_.size());
}

// O4/O5: place one object, query its retrievability and the neighbourhood of a second point.
// din: [min(3), max(3), voxel, p(3), q(3)] iin: [which grid: 4 or 3]
// iout: found_in_own_voxel, found_in_neighbourhood_of_q, count in full grid content, nb(3)
HARNESS(h_c20_neigh) {
    const double* D = io->din;
    if (io->iin[0] == 4) {
        uspg_4d<int> g(D[0], D[1], D[2], D[3], D[4], D[5], D[6], 1);
        g.place_object(7, D[7], D[8], D[9]);
        auto id = g.get_3d_voxel_index(D[7], D[8], D[9]);
        int own = 0; for (int v : g.get_voxel_content(id[0], id[1], id[2])) own += (v == 7);
        int nb = 0; for (int v : g.get_neighborhood(D[10], D[11], D[12])) nb += (v == 7);
        int all = 0; for (int v : g.get_grid_content()) all += (v == 7);
        OI(own); OI(nb); OI(all);
        for (unsigned v : g.get_nb_voxels()) OI(v);
    } else {
        uspg_3d<int> g(D[0], D[1], D[2], D[3], D[4], D[5], D[6], 1);
        g.place_object(7, D[7], D[8], D[9]);
        auto id = g.get_3d_voxel_index(D[7], D[8], D[9]);
        auto oc = g.get_voxel_content(id[0], id[1], id[2]);
        int own = (oc.has_value() && oc.value() == 7);
        int nb = 0; for (int v : g.get_neighborhood(D[10], D[11], D[12])) nb += (v == 7);
        int all = 0; for (int v : g.get_grid_content()) all += (v == 7);
        OI(own); OI(nb); OI(all);
        for (unsigned v : g.get_nb_voxels()) OI(v);
    }
}
