"""Solver back ends for irsym: translation of sym.Node DAGs to z3 (in-process) and to SMT-LIB2
(for the cvc5 / z3 CLI cross-check), path controller (decisions on symbolic branches by
re-execution with a recorded decision prefix), and the obligation log.
"""
import math
import os
import subprocess
import sys
import time
from fractions import Fraction

import z3

from . import sym as S
from .interp import PathEnd, Unsupported

Node = S.Node

class Z3Ctx:
    """memoised Node -> z3 translation with defining constraints for sqrt / floor / uf / r2i atoms"""
    def __init__(self):
        self.cache = {}
        self.defs = {}          # node id -> list of z3 constraints defining auxiliary symbols used by that node
        self.aux_count = 0
        self.ufuncs = {}
        self.node_defs = {}     # node id -> frozenset of def ids needed (transitively)
        self.def_list = []      # (id, z3 constraint, description)
        self.uf_axioms = {}     # name -> callable(args z3, result z3) -> list of constraints
        self.queries = 0
        self.solver_time = 0.0
        self.som_cache = {}
        self.som_def_cache = {}

    def fresh(self, prefix, sort='R'):
        self.aux_count += 1
        name = '%s!%d' % (prefix, self.aux_count)
        return z3.Real(name) if sort == 'R' else z3.Int(name)

    def add_def(self, c, desc):
        self.def_list.append((len(self.def_list), c, desc))
        return len(self.def_list) - 1

    def tr(self, n):
        """returns (z3 expr, frozenset of def ids)"""
        r = self.cache.get(n.id)
        if r is not None:
            return r
        # iterative post-order to avoid deep recursion
        stack = [n]
        cache = self.cache
        while stack:
            x = stack[-1]
            if x.id in cache:
                stack.pop(); continue
            pending = [a for a in x.args if type(a) is Node and a.id not in cache]
            if pending:
                stack.extend(pending); continue
            stack.pop()
            cache[x.id] = self._tr1(x)
        return cache[n.id]

    def _tr1(self, x):
        op = x.op
        a = x.args
        cache = self.cache
        if op == 'const':
            q = a[0]
            return (z3.RealVal(str(q.numerator)) / z3.RealVal(str(q.denominator)) if q.denominator != 1 else z3.RealVal(str(q.numerator)), frozenset())
        if op == 'var': return (z3.Real(a[0]), frozenset())
        if op == 'iconst': return (z3.IntVal(a[0]), frozenset())
        if op == 'ivar':
            v = z3.Int(a[0])
            d = self.add_def(z3.And(v >= x.lo, v <= x.hi), 'range of ' + a[0])
            return (v, frozenset([d]))
        if op == 'bvar': return (z3.Bool(a[0]), frozenset())
        if op == 'true': return (z3.BoolVal(True), frozenset())
        if op == 'false': return (z3.BoolVal(False), frozenset())
        sub = [cache[y.id] if type(y) is Node else (y, frozenset()) for y in a]
        deps = frozenset().union(*[s[1] for s in sub]) if sub else frozenset()
        e = [s[0] for s in sub]
        if op in ('add', 'iadd'): return (e[0] + e[1], deps)
        if op in ('sub', 'isub'): return (e[0] - e[1], deps)
        if op in ('mul', 'imul'): return (e[0] * e[1], deps)
        if op == 'div': return (e[0] / e[1], deps)
        if op == 'neg': return (-e[0], deps)
        if op == 'sqrt':
            s = self.fresh('sqrt')
            d = self.add_def(z3.And(s >= 0, s * s == e[0]), 'sqrt')
            return (s, deps | {d})
        if op == 'abs': return (z3.If(e[0] >= 0, e[0], -e[0]), deps)
        if op == 'floor':
            k = self.fresh('floor', 'I')
            kr = z3.ToReal(k)
            d = self.add_def(z3.And(kr <= e[0], e[0] < kr + 1), 'floor')
            return (kr, deps | {d})
        if op == 'ceil':
            k = self.fresh('ceil', 'I')
            kr = z3.ToReal(k)
            d = self.add_def(z3.And(kr - 1 < e[0], e[0] <= kr), 'ceil')
            return (kr, deps | {d})
        if op == 'r2i':
            # truncation toward zero; the harness guarantees non-negative arguments where it matters,
            # general definition: k = floor(x) if x >= 0 else ceil(x)
            k = self.fresh('trunc', 'I')
            kr = z3.ToReal(k)
            d = self.add_def(z3.If(e[0] >= 0, z3.And(kr <= e[0], e[0] < kr + 1), z3.And(kr - 1 < e[0], e[0] <= kr)), 'fptoint')
            return (k, deps | {d})
        if op == 'i2r': return (z3.ToReal(e[0]), deps)
        if op == 'irew': return (e[0], deps)
        if op == 'idiv': return (e[0] / e[1], deps)
        if op in ('imod', 'imodop'): return (e[0] % e[1], deps)
        if op == 'ite': return (z3.If(e[0], e[1], e[2]), deps)
        if op == 'uf':
            name = a[0]
            args = e[1:]
            f = self.ufuncs.get((name, len(args)))
            if f is None:
                f = z3.Function('uf_' + name, *([z3.RealSort()] * (len(args) + 1)))
                self.ufuncs[(name, len(args))] = f
            app = f(*args)
            ax = self.uf_axioms.get(name)
            if ax is not None:
                cs = ax(args, app)
                ds = set()
                for c in cs:
                    ds.add(self.add_def(c, 'axiom ' + name))
                return (app, deps | ds)
            return (app, deps)
        if op == 'lt': return (e[0] < e[1], deps)
        if op == 'le': return (e[0] <= e[1], deps)
        if op == 'gt': return (e[0] > e[1], deps)
        if op == 'ge': return (e[0] >= e[1], deps)
        if op == 'eq': return (e[0] == e[1], deps)
        if op == 'ne': return (e[0] != e[1], deps)
        if op == 'not': return (z3.Not(e[0]), deps)
        if op == 'and': return (z3.And(e[0], e[1]), deps)
        if op == 'or': return (z3.Or(e[0], e[1]), deps)
        if op == 'xor': return (z3.Xor(e[0], e[1]), deps)
        raise Unsupported('z3 translation of ' + op)

    def trs(self, n):
        """like tr, but the z3 term is put in sum-of-monomials normal form (so that equal polynomials
        written differently by the code and by an oracle become the same term)"""
        r = self.som_cache.get(n.id)
        if r is None:
            e, deps = self.tr(n)
            try:
                e = z3.simplify(e, som=True, mul_to_power=False)
            except z3.Z3Exception:
                pass
            r = (e, deps)
            self.som_cache[n.id] = r
        return r

    def sdef(self, k):
        r = self.som_def_cache.get(k)
        if r is None:
            r = self.def_list[k][1]
            try:
                r = z3.simplify(r, som=True, mul_to_power=False)
            except z3.Z3Exception:
                pass
            self.som_def_cache[k] = r
        return r

    def formula(self, n):
        """z3 Bool for node n conjoined with its auxiliary definitions"""
        e, deps = self.tr(n)
        return e, [self.def_list[d][1] for d in sorted(deps)]

class NormCtx:
    """stage N: boolean skeleton over canonical polynomials (see irsym/poly.py). Over-approximation: unsat is sound."""
    def __init__(self, positive_vars=()):
        from .poly import PolyCtx
        self.P = PolyCtx(positive_vars)
        self.vars = {}
        self.cache = {}
        self.facts = {}

    def pvar(self, key, q):
        v = self.vars.get(key)
        if v is None:
            v = z3.Real('P!%d' % len(self.vars))
            self.vars[key] = v
            # a lone sqrt atom (or product of sqrt atoms / even powers) is non-negative
            if len(q) == 1:
                (m, c), = q.items()
                if all((self.P.atoms[a][0] == 'sqrt' and e > 0) or e % 2 == 0 for a, e in m):
                    self.facts[key] = v >= 0
                elif len(m) == 1 and m[0][1] == 1 and self.P.atoms[m[0][0]][0] == 'node':
                    nd = self.P.atoms[m[0][0]][1]
                    if nd.op == 'uf' and nd.args[0] == 'acos':
                        self.facts[key] = z3.And(v >= 0, v <= z3.RealVal('3.141592653589794'))
                    elif nd.op == 'abs':
                        self.facts[key] = v >= 0
        return v

    def factored(self, key, q):
        """z3 term for the canonical polynomial q: its monomial content (atoms common to every term) is pulled out as a product of
        per-atom variables, the remaining polynomial gets its own variable: k*s*P and P then share the variable of P"""
        P = self.P
        if len(q) < 2:
            if len(q) == 1:
                (m, c), = q.items()
                if len(m) > 1 or (len(m) == 1 and m[0][1] != 1):
                    t = None
                    for a, e in m:
                        va = self.pvar(P.key_of({((a, 1),): Fraction(1)}), {((a, 1),): Fraction(1)})
                        for _ in range(abs(e)):
                            t = (va if t is None else t * va) if e > 0 else ((1 / va) if t is None else t / va)
                    return t
            return self.pvar(key, q)
        it = iter(q.keys())
        g = dict(next(it))
        for m in it:
            d = dict(m)
            for a in list(g):
                e = d.get(a)
                if e is None or (e > 0) != (g[a] > 0): del g[a]
                else: g[a] = min(g[a], e) if e > 0 else max(g[a], e)
            if not g: break
        if not g:
            return self.pvar(key, q)
        div = tuple(sorted((a, -e) for a, e in g.items()))
        rest = {P.mmul(m, div): c for m, c in q.items()}
        c2, k2, q2 = P.canon(rest)
        t = z3.RealVal(str(c2)) * self.pvar(k2, q2)
        for a, e in sorted(g.items()):
            va = self.pvar(P.key_of({((a, 1),): Fraction(1)}), {((a, 1),): Fraction(1)})
            for _ in range(abs(e)):
                t = t * va if e > 0 else t / va
        return t

    def sqrt_quotient(self, p):
        """Q / s with Q a constant multiple of the radicand of the sqrt atom s is c * s (since s*s = radicand)"""
        P = self.P
        if len(p) < 2 or not P.sqrt_rad: return p
        first = next(iter(p))
        for a, e in first:
            if e == -1 and a in P.sqrt_rad and all((a, -1) in m for m in p):
                Q = {tuple(t for t in m if t[0] != a): c for m, c in p.items()}
                cq, kq, _ = P.canon(Q)
                cr, kr, _ = P.canon(P.sqrt_rad[a])
                if kq == kr:
                    return {((a, 1),): cq / cr}
        return p

    def tr(self, n):
        r = self.cache.get(n.id)
        if r is not None: return r
        op = n.op
        if op == 'true': r = z3.BoolVal(True)
        elif op == 'false': r = z3.BoolVal(False)
        elif op == 'and': r = z3.And(self.tr(n.args[0]), self.tr(n.args[1]))
        elif op == 'or': r = z3.Or(self.tr(n.args[0]), self.tr(n.args[1]))
        elif op == 'not': r = z3.Not(self.tr(n.args[0]))
        elif op == 'xor': r = z3.Xor(self.tr(n.args[0]), self.tr(n.args[1]))
        elif op in ('lt', 'le', 'gt', 'ge', 'eq', 'ne') and n.args[0].sort == 'R':
            P = self.P
            p = P.padd(P.of(n.args[0]), P.of(n.args[1]), -1)
            if op in ('eq', 'ne') and p:
                # zero test with denominators cleared (sound: multipliers are non-zero)
                try:
                    if not P.cleared(p): p = {}
                except Exception:
                    pass
            p = self.sqrt_quotient(p)
            c, key, q = P.canon(p)
            if not p:
                lhs = z3.RealVal(0)
            elif len(p) == 1 and () in p:
                lhs = z3.RealVal(str(p[()]))
            else:
                lhs = z3.RealVal(str(c)) * self.factored(key, q)
            zero = z3.RealVal(0)
            r = {'lt': lhs < zero, 'le': lhs <= zero, 'gt': lhs > zero, 'ge': lhs >= zero, 'eq': lhs == zero, 'ne': lhs != zero}[op]
        else:
            r = z3.Bool('opaque!%d' % n.id)
        self.cache[n.id] = r
        return r

    def unsat(self, nodes, timeout_ms=5000):
        s = z3.Solver()
        s.set('timeout', timeout_ms)
        for n in nodes:
            s.add(self.tr(n))
        for f in self.facts.values():
            s.add(f)
        # link every sqrt atom that occurs on its own with its radicand polynomial when both have a variable: s*s = radicand
        P = self.P
        for a, rad in P.sqrt_rad.items():
            ks = P.key_of({((a, 1),): 1})
            vs = self.vars.get(ks)
            if vs is None: continue
            cr, kr, _ = P.canon(rad)
            vr = self.vars.get(kr)
            if vr is not None:
                s.add(vs * vs == z3.RealVal(str(cr)) * vr)
        return s.check() == z3.unsat

def norm_of(z):
    n = getattr(z, 'norm', None)
    if n is None:
        n = z.norm = NormCtx(getattr(z, 'positive_vars', ()))
    return n

def slice_context(z, pc_nodes, goal):
    """pc conjuncts relevant to goal: those without auxiliary symbols (pure conditions over the inputs) and those
    connected to the goal through shared auxiliary symbols (sqrt/floor/... definitions). Dropping conjuncts is sound
    for unsat answers (a subset being unsat implies the whole is unsat)."""
    need = set(z.tr(goal)[1])
    rest = []
    chosen = []
    for n in pc_nodes:
        d = z.tr(n)[1]
        if not d: chosen.append(n)
        else: rest.append((n, d))
    changed = True
    while changed and rest:
        changed = False
        keep = []
        for n, d in rest:
            if d & need:
                chosen.append(n); need |= d; changed = True
            else:
                keep.append((n, d))
        rest = keep
    return chosen, len(rest)

def _solve(z, nodes, timeout_ms):
    s = z3.Solver()
    s.set('timeout', timeout_ms)
    deps = set()
    for n in nodes:
        e, d = z.trs(n)
        s.add(e); deps |= d
    for k in sorted(deps):
        s.add(z.sdef(k))
    t = time.time()
    r = s.check()
    z.solver_time += time.time() - t
    z.queries += 1
    return r, s

def model_value(m, name, sort='R'):
    v = m.eval(z3.Real(name) if sort == 'R' else z3.Int(name), model_completion=True)
    return z3_to_fraction(v)

def z3_to_fraction(v):
    if z3.is_int_value(v):
        return Fraction(v.as_long())
    if z3.is_rational_value(v):
        return Fraction(v.numerator_as_long(), v.denominator_as_long())
    if z3.is_algebraic_value(v):
        a = v.approx(30)
        return Fraction(a.numerator_as_long(), a.denominator_as_long())
    if z3.is_true(v): return True
    if z3.is_false(v): return False
    raise ValueError('model value %r' % v)

class Inexact(Exception):
    pass

def eval_robust(n, env, cache):
    """evaluate node under env (name -> Fraction|int|bool). Exact rationals where possible, floats after
    sqrt/uf; comparisons that are too close to call on floats raise Inexact."""
    import math
    def ev(x):
        if type(x) is not Node: return x
        k = x.id
        if k in cache: return cache[k]
        op = x.op; a = x.args
        if op in ('const', 'iconst'): r = a[0]
        elif op in ('var', 'ivar', 'bvar'): r = env[a[0]]
        elif op == 'true': r = True
        elif op == 'false': r = False
        elif op in ('add', 'iadd'): r = ev(a[0]) + ev(a[1])
        elif op in ('sub', 'isub'): r = ev(a[0]) - ev(a[1])
        elif op in ('mul', 'imul'): r = ev(a[0]) * ev(a[1])
        elif op == 'div':
            d = ev(a[1])
            if d == 0: raise Inexact()
            r = ev(a[0]) / d
        elif op == 'idiv':
            d = ev(a[1])
            if d == 0: raise Inexact()
            r = ev(a[0]) // d
        elif op in ('imod', 'imodop'):
            d = ev(a[1])
            if d == 0: raise Inexact()
            r = ev(a[0]) % d
        elif op == 'neg': r = -ev(a[0])
        elif op == 'sqrt':
            v = ev(a[0])
            if v < 0: raise Inexact()
            if type(v) is Fraction or type(v) is int:
                v = Fraction(v)
                rn = math.isqrt(v.numerator); rd = math.isqrt(v.denominator)
                if rn * rn == v.numerator and rd * rd == v.denominator: r = Fraction(rn, rd)
                else: r = math.sqrt(v)
            else: r = math.sqrt(v)
        elif op == 'abs': r = abs(ev(a[0]))
        elif op == 'floor': r = Fraction(math.floor(ev(a[0])))
        elif op == 'ceil': r = Fraction(math.ceil(ev(a[0])))
        elif op == 'ite': r = ev(a[1]) if ev(a[0]) else ev(a[2])
        elif op in ('irew', 'i2r'): r = ev(a[0])
        elif op == 'r2i': r = int(ev(a[0]))
        elif op == 'uf':
            try:
                r = getattr(math, a[0])(*[float(ev(y)) for y in a[1:]])
            except (ValueError, OverflowError, AttributeError):
                raise Inexact()
        elif op in ('lt', 'le', 'gt', 'ge', 'eq', 'ne'):
            u = ev(a[0]); v = ev(a[1])
            if type(u) is float or type(v) is float:
                if abs(u - v) <= 1e-7 * (1 + abs(u) + abs(v)): raise Inexact()
            r = S._CMPF[op](u, v)
        elif op == 'not': r = not ev(a[0])
        elif op == 'and': r = ev(a[0]) and ev(a[1])
        elif op == 'or': r = ev(a[0]) or ev(a[1])
        elif op == 'xor': r = bool(ev(a[0])) != bool(ev(a[1]))
        else: raise Inexact()
        cache[k] = r
        return r
    return ev(n)

class SamplePool:
    """random rational assignments used only to *witness feasibility* (a verified model is a model);
    infeasibility is always left to the solver."""
    def __init__(self, seed=0, n=300):
        import random
        self.rng = random.Random(seed)
        self.n = n
        self.points = []      # list of (env, cache)
        self.vars = {}
        self.custom = None    # optional fn(rng) -> {name: Fraction} giving problem-specific sample points

    def gen_value(self, name, kind):
        r = self.rng
        if kind[0] == 'I':
            lo, hi = kind[1], kind[2]
            if r.random() < 0.5: return r.randint(lo, min(hi, lo + 8))
            return r.randint(lo, hi)
        if kind[0] == 'B': return r.random() < 0.5
        c = r.random()
        if c < 0.3: return Fraction(r.randint(-4, 4))
        if c < 0.8: return Fraction(r.randint(-40, 40), r.choice([1, 2, 3, 4, 5, 7, 8, 10]))
        return Fraction(r.randint(-4000, 4000), r.choice([100, 128, 1000]))

    def ensure_vars(self, node):
        new = []
        stack = [node]; seen = set()
        while stack:
            x = stack.pop()
            if type(x) is not Node or x.id in seen: continue
            seen.add(x.id)
            if x.op == 'var':
                if x.args[0] not in self.vars: self.vars[x.args[0]] = ('R',); new.append(x.args[0])
            elif x.op == 'ivar':
                if x.args[0] not in self.vars: self.vars[x.args[0]] = ('I', x.lo, x.hi); new.append(x.args[0])
            elif x.op == 'bvar':
                if x.args[0] not in self.vars: self.vars[x.args[0]] = ('B',); new.append(x.args[0])
            else:
                stack.extend(x.args)
        if new:
            if not self.points:
                self.points = [({}, {}) for _ in range(self.n)]
                self.custom_env = [self.custom(self.rng) if (self.custom is not None and k % 4 != 0) else None for k in range(self.n)]
            for k, (env, cache) in enumerate(self.points):
                ce = self.custom_env[k] if k < len(getattr(self, 'custom_env', [])) else None
                for nm in new:
                    if nm in env: continue
                    if ce is not None and nm in ce: env[nm] = ce[nm]
                    else: env[nm] = self.gen_value(nm, self.vars[nm])

    def holds(self, point, node):
        try:
            return bool(eval_robust(node, point[0], point[1]))
        except (Inexact, ZeroDivisionError, OverflowError, KeyError):
            return None

class Decision:
    __slots__ = ('taken', 'forced', 'kind', 'value')
    def __init__(self, taken, forced, kind='b', value=None):
        self.taken = taken; self.forced = forced; self.kind = kind; self.value = value

class PathController:
    """Explores the feasible paths of one harness by re-execution.

    A path is identified by its decision list.  `decide` replays the prefix, then asks the
    solver which sides are feasible under the path condition; the untaken feasible side is
    queued.  Unknown (timeout) counts as feasible, so no reachable path is lost.
    """
    def __init__(self, zctx=None, branch_timeout_ms=10000, max_paths=400):
        self.z = zctx or Z3Ctx()
        self.branch_timeout_ms = branch_timeout_ms
        self.max_paths = max_paths
        self.worklist = [[]]
        self.paths_done = 0
        self.ite_ints = False
        self.assumptions = []       # Nodes assumed at the start of every path
        self.check_divisions = False
        self.division_reports = []
        self.unknown_branches = 0
        self.concretize_limit = 64
        self.pool = SamplePool(seed=12345)
        self.use_sampling = True
        self.stats_sampled = 0
        self.generic_position = False
        self.generic_assumed = []
        self._gp_seen = set()
        self.branch_filter = None
        self.filter_log = []
        self.known = {}
        self.stats = {'branch_queries': 0, 'forks': 0, 'forced': 0, 'replayed': 0}
        self._solver = None

    # per-path state ---------------------------------------------------------
    def begin_path(self, prefix):
        self.prefix = prefix
        self.pos = 0
        self.trace = []
        self.pc = []                # list of Nodes (sort B) on this path
        self._solver = z3.Solver()
        self._solver.set('timeout', self.branch_timeout_ms)
        self._asserted_defs = set()
        self.live_points = None
        self.filter_log = []
        self.known = {}
        self.ivl = {}               # variable -> [lo, lo_strict, hi, hi_strict] implied by the single-variable linear conjuncts of the path condition
        for a in self.assumptions:
            self._assert(a)

    # ---- interval fast path: a condition a*x + b REL 0 that the bounds already implied by the path condition make impossible
    # is infeasible without a solver call (the converse is never concluded from intervals)
    @staticmethod
    def _affine1(n):
        """n (sort R) as (var or None, a, b) meaning a*var + b, or None"""
        op = n.op
        if op == 'const': return (None, 0, n.args[0])
        if op == 'var': return (n.args[0], 1, 0)
        if op in ('add', 'sub'):
            l = PathController._affine1(n.args[0]); r = PathController._affine1(n.args[1])
            if l is None or r is None: return None
            sg = 1 if op == 'add' else -1
            if l[0] is not None and r[0] is not None and l[0] != r[0]: return None
            v = l[0] if l[0] is not None else r[0]
            return (v, l[1] + sg * r[1], l[2] + sg * r[2])
        if op == 'neg':
            l = PathController._affine1(n.args[0])
            return None if l is None else (l[0], -l[1], -l[2])
        if op == 'mul':
            l = PathController._affine1(n.args[0]); r = PathController._affine1(n.args[1])
            if l is None or r is None: return None
            if l[0] is None: return (r[0], l[2] * r[1], l[2] * r[2])
            if r[0] is None: return (l[0], r[2] * l[1], r[2] * l[2])
            return None
        return None

    def _lin1(self, cond):
        """cond as (var, rel, c) meaning var REL c with REL in lt/le/gt/ge/eq/ne, or None"""
        if cond.op not in ('lt', 'le', 'gt', 'ge', 'eq', 'ne') or cond.args[0].sort != 'R': return None
        l = self._affine1(cond.args[0]); r = self._affine1(cond.args[1])
        if l is None or r is None: return None
        if l[0] is not None and r[0] is not None and l[0] != r[0]: return None
        v = l[0] if l[0] is not None else r[0]
        a = l[1] - r[1]; b = l[2] - r[2]
        if v is None or a == 0: return None
        c = Fraction(-b) / Fraction(a)
        rel = cond.op
        if a < 0: rel = {'lt': 'gt', 'le': 'ge', 'gt': 'lt', 'ge': 'le'}.get(rel, rel)
        return v, rel, c

    def _ivl_update(self, cond):
        if cond.op == 'and':
            for a in cond.args: self._ivl_update(a)
            return
        if cond.op == 'not' and cond.args[0].op in ('lt', 'le', 'gt', 'ge', 'eq', 'ne'):
            inner = cond.args[0]
            t = self._lin1(inner)
            if t is None: return
            v, rel, c = t
            rel = {'lt': 'ge', 'le': 'gt', 'gt': 'le', 'ge': 'lt', 'eq': 'ne', 'ne': 'eq'}[rel]
        else:
            t = self._lin1(cond)
            if t is None: return
            v, rel, c = t
        b = self.ivl.setdefault(v, [None, False, None, False])
        if rel in ('gt', 'ge', 'eq'):
            st = rel == 'gt'
            if b[0] is None or c > b[0] or (c == b[0] and st): b[0] = c; b[1] = st
        if rel in ('lt', 'le', 'eq'):
            st = rel == 'lt'
            if b[2] is None or c < b[2] or (c == b[2] and st): b[2] = c; b[3] = st

    def _ivl_impossible(self, cond):
        """True if the single-variable linear condition cannot hold within the recorded bounds of its variable"""
        neg = False
        if cond.op == 'not':
            cond = cond.args[0]; neg = True
        t = self._lin1(cond)
        if t is None: return False
        v, rel, c = t
        if neg: rel = {'lt': 'ge', 'le': 'gt', 'gt': 'le', 'ge': 'lt', 'eq': 'ne', 'ne': 'eq'}[rel]
        b = self.ivl.get(v)
        if b is None: return False
        lo, ls, hi, hs = b
        if rel == 'lt': return lo is not None and lo >= c
        if rel == 'le': return lo is not None and (lo > c or (lo == c and ls))
        if rel == 'gt': return hi is not None and hi <= c
        if rel == 'ge': return hi is not None and (hi < c or (hi == c and hs))
        if rel == 'eq': return (lo is not None and (lo > c or (lo == c and ls))) or (hi is not None and (hi < c or (hi == c and hs)))
        if rel == 'ne': return lo is not None and hi is not None and lo == hi == c and not ls and not hs
        return False

    def _assert(self, node):
        self._ivl_update(node)
        e, deps = self.z.tr(node)
        for d in deps:
            if d not in self._asserted_defs:
                self._asserted_defs.add(d)
                self._solver.add(self.z.def_list[d][1])
        self._solver.add(e)
        self.pc.append(node)
        if self.use_sampling:
            self.pool.ensure_vars(node)
            pts = self.pool.points if self.live_points is None else self.live_points
            self.live_points = [p for p in pts if self.pool.holds(p, node)]

    def witness(self, node):
        """True if some sample point satisfying the path condition satisfies node"""
        if not self.use_sampling: return False
        self.pool.ensure_vars(node)
        if self.live_points is None:
            self.live_points = list(self.pool.points)
        for p in self.live_points:
            if self.pool.holds(p, node):
                self.stats_sampled += 1
                return True
        return False

    def assume(self, node, it=None):
        """harness-level assumption on the current path; infeasible => path ends"""
        if node is S.TRUE: return
        if node is S.FALSE: raise PathEnd('assumption false')
        self._assert(node)

    def _check(self, extra_node, cheap=False):
        if self.witness(extra_node):
            return z3.sat
        # fresh (non-incremental) solver: lets z3 pick nlsat for QF_NRA, which the incremental core does not use.
        # stage 1: sliced context (sound for unsat); stage 2: full context.
        self.stats['branch_queries'] += 1
        t = time.time()
        try:
            if norm_of(self.z).unsat(self.pc + [extra_node]):
                self.z.queries += 1; self.z.solver_time += time.time() - t
                self.stats['normalised_unsat'] = self.stats.get('normalised_unsat', 0) + 1
                return z3.unsat
        except RecursionError:
            pass
        self.z.queries += 1; self.z.solver_time += time.time() - t
        if cheap:
            return z3.unknown
        sl, dropped = slice_context(self.z, self.pc, extra_node)
        if dropped:
            r, _ = _solve(self.z, sl + [extra_node], self.branch_timeout_ms)
            if r == z3.unsat:
                return r
        r, sv = _solve(self.z, self.pc + [extra_node], self.branch_timeout_ms)
        if r == z3.sat and self.use_sampling:
            self.harvest(sv)
        return r

    def harvest(self, sv):
        """turn a solver model of (pc and cond) into a sample point, so that later feasibility questions on this path are
        answered by evaluation (a verified model is a model)"""
        try:
            m = sv.model()
            env = {}
            for nm, kind in self.pool.vars.items():
                if kind[0] == 'R': v = m.eval(z3.Real(nm), model_completion=True)
                elif kind[0] == 'I': v = m.eval(z3.Int(nm), model_completion=True)
                else: v = m.eval(z3.Bool(nm), model_completion=True)
                env[nm] = z3_to_fraction(v)
                if kind[0] == 'I': env[nm] = int(env[nm])
            pt = (env, {})
            if all(self.pool.holds(pt, n) for n in self.pc):
                self.pool.points.append(pt)
                if hasattr(self.pool, 'custom_env'): self.pool.custom_env.append(None)
                if self.live_points is not None: self.live_points.append(pt)
        except Exception:
            pass

    def decide(self, cond, it):
        fl = self.branch_filter(self, cond) if self.branch_filter is not None else None
        if self.pos < len(self.prefix):
            d = self.prefix[self.pos]
            self.pos += 1
            self.trace.append(d)
            self.stats['replayed'] += 1
            self._assert(cond if d.taken else S.bnot(cond))
            if fl is not None: self.filter_log.append((fl[0], d.taken == fl[1]))
            return d.taken
        if fl is not None:
            kind, event, allowed = fl
            cheap = len(allowed) == 1     # side imposed by the exploration bound: evaluation witness / normalised refutation only
            rt = self._check(cond, cheap) if True in allowed else z3.unsat
            rf = self._check(S.bnot(cond), cheap) if False in allowed else z3.unsat
            ft = rt != z3.unsat; ff = rf != z3.unsat
            if not ft and not ff:
                raise PathEnd('no outcome allowed by the exploration bound is feasible')
            self.pos += 1
            if ft and ff:
                self.stats['forks'] += 1
                self.worklist.append(list(self.trace) + [Decision(False, False)])
                taken = True; forced = False
            else:
                taken = ft; forced = len(allowed) == 2
                if len(allowed) == 1: self.stats['bounded_out'] = self.stats.get('bounded_out', 0) + 1
            self.trace.append(Decision(taken, forced))
            self._assert(cond if taken else S.bnot(cond))
            self.filter_log.append((kind, taken == event))
            return taken
        guard = self.degeneracy_guard(cond) if self.generic_position else None
        if guard is not None:
            # degeneracy guard on a real quantity (x == c, |x| <= tiny, |x| <= eps*|y|): the claim is restricted to inputs
            # in generic position, i.e. the non-degenerate side is assumed (recorded) provided it is feasible
            want = guard
            side = cond if want else S.bnot(cond)
            r = self._check(side)
            if r != z3.unsat:
                self.pos += 1
                d = Decision(want, True)
                self.trace.append(d)
                self._assert(side)
                if side.id not in self._gp_seen:
                    self._gp_seen.add(side.id)
                    self.generic_assumed.append(S.show(side, 3))
                return want
        if self._ivl_impossible(cond):
            rt = z3.unsat; rf = z3.sat
            self.stats['interval'] = self.stats.get('interval', 0) + 1
        elif self._ivl_impossible(S.bnot(cond)):
            rt = z3.sat; rf = z3.unsat
            self.stats['interval'] = self.stats.get('interval', 0) + 1
        else:
            rt = self._check(cond)
            rf = self._check(S.bnot(cond))
        if rt == z3.unknown or rf == z3.unknown:
            self.unknown_branches += 1
        ft = rt != z3.unsat
        ff = rf != z3.unsat
        if not ft and not ff:
            raise PathEnd('path condition became infeasible')
        self.pos += 1
        if ft and ff:
            self.stats['forks'] += 1
            alt = list(self.trace) + [Decision(False, False)]
            self.worklist.append(alt)
            d = Decision(True, False)
            self.trace.append(d)
            self._assert(cond)
            return True
        self.stats['forced'] += 1
        d = Decision(ft, True)
        self.trace.append(d)
        self._assert(cond if ft else S.bnot(cond))
        return ft

    @staticmethod
    def _tiny(n, bound):
        c = S.cval(n)
        return c is not None and 0 <= c <= bound

    def _small(self, n):
        """constant <= 1e-100, or a product containing a constant factor <= 1e-10 (epsilon-scaled quantity)"""
        c = S.cval(n)
        if c is not None:
            return 0 < c <= Fraction(1, 10 ** 100)
        if n.op == 'mul':
            for t in n.args:
                ct = S.cval(t)
                if ct is not None and 0 < ct <= Fraction(1, 10 ** 10): return True
                if t.op == 'mul' and self._small(t): return True
        return False

    def degeneracy_guard(self, cond):
        """truth value to assume for a degeneracy test (x == c, x <= tiny, x <= eps*y and boolean combinations), else None"""
        op = cond.op
        if op in ('eq', 'ne') and cond.args[0].sort == 'R':
            # an input symbol compared with a constant (e.g. a parameter tested against exactly 0) is a case distinction of the code, not a
            # geometric degeneracy: both sides are explored
            a, b = cond.args
            if (a.op == 'var' and S.cval(b) is not None) or (b.op == 'var' and S.cval(a) is not None):
                return None
            return op == 'ne'
        if op in ('le', 'lt', 'ge', 'gt') and cond.args[0].sort == 'R':
            x, y = cond.args
            if self._small(y) and not self._small(x): return op in ('gt', 'ge')
            if self._small(x) and not self._small(y): return op in ('lt', 'le')
            return None
        if op == 'not':
            g = self.degeneracy_guard(cond.args[0])
            return None if g is None else (not g)
        if op == 'and':
            ga = self.degeneracy_guard(cond.args[0]); gb = self.degeneracy_guard(cond.args[1])
            if ga is False or gb is False: return False
            if ga is True and gb is True: return True
            return None
        if op == 'or':
            ga = self.degeneracy_guard(cond.args[0]); gb = self.degeneracy_guard(cond.args[1])
            if ga is True or gb is True: return True
            if ga is False and gb is False: return False
            return None
        return None

    def implied(self, cond, timeout_ms=1000):
        """True if cond follows from the path condition, False if its negation does, None otherwise (cheap: evaluation
        witnesses, normalised stage and one short solver call per side)"""
        old = self.branch_timeout_ms
        self.branch_timeout_ms = min(old, timeout_ms) if old else timeout_ms
        try:
            if self._check(S.bnot(cond)) == z3.unsat: return True
            if self._check(cond) == z3.unsat: return False
        finally:
            self.branch_timeout_ms = old
        return None

    def sign_of(self, x, it):
        """+1 if x >= 0 is implied by the path condition, -1 if x <= 0 is implied, else 0 (no fork).
        Cheap: normalised stage, then a short full query."""
        old = self.branch_timeout_ms
        self.branch_timeout_ms = min(old, 1500)
        try:
            r = self._check(S.cmp('lt', x, S.ZERO))
            if r == z3.unsat: return 1
            r = self._check(S.cmp('gt', x, S.ZERO))
            if r == z3.unsat: return -1
        finally:
            self.branch_timeout_ms = old
        return 0

    @staticmethod
    def _strip_linear(v):
        """v = f(x) with f built from +,-,* by constants, width changes: return x (the node worth enumerating)"""
        while True:
            if v.op in ('irew',):
                v = v.args[0]; continue
            if v.op == 'imod' and v.args[1].op == 'iconst':
                v = v.args[0]; continue
            if v.op in ('imul', 'iadd', 'isub') and (v.args[0].op == 'iconst') != (v.args[1].op == 'iconst'):
                v = v.args[1] if v.args[0].op == 'iconst' else v.args[0]; continue
            return v

    def concretize(self, v, it):
        """enumerate the feasible values of symbolic integer v (fork per value)"""
        k = self.known.get(v.id)
        if k is not None: return k
        base = self._strip_linear(v)
        if base is not v and base.sort == 'I' and base.id not in self.known:
            self.concretize(base, it)       # fixes the underlying quantity first; v then has a single value
        elif base is v and v.op in ('iadd', 'isub', 'imul'):
            # a combination of several symbolic integers (e.g. a linear voxel index from three per-axis indices): fix each
            # constituent first, every one of them is a much simpler query than the combination
            leaves = []
            def walk(n, depth=0):
                if n.sort != 'I' or n.op == 'iconst' or depth > 12: return
                if n.op in ('iadd', 'isub', 'imul', 'irew', 'imod'):
                    for a in n.args:
                        if type(a) is S.Node: walk(a, depth + 1)
                else:
                    if n not in leaves: leaves.append(n)
            walk(v)
            if len(leaves) > 1:
                for lf in leaves:
                    if lf.id not in self.known: self.concretize(lf, it)
        r = self._concretize(v, it)
        self.known[v.id] = r
        return r

    def _concretize(self, v, it):
        if self.pos < len(self.prefix):
            d = self.prefix[self.pos]
            self.pos += 1
            self.trace.append(d)
            self._assert(S.cmp('eq', v, S.iconst(d.value, v.width)))
            return d.value
        e, deps = self.z.tr(v)
        s = self._solver
        vals = []; wit = []
        s.push()
        for d in deps:
            if d not in self._asserted_defs:
                s.add(self.z.def_list[d][1])
        while len(vals) <= self.concretize_limit:
            t = time.time()
            r = s.check()
            self.z.solver_time += time.time() - t
            self.z.queries += 1
            if r != z3.sat:
                if r == z3.unknown:
                    # the incremental solver gives up on mixed integer/real constraints more easily than a fresh one
                    vals = self._enumerate_fresh(v)
                    if vals is None:
                        vals = self._enumerate_by_interval(v)
                    if vals is None:
                        s.pop()
                        raise Unsupported('cannot enumerate values of a symbolic integer (solver: unknown)')
                break
            val = s.model().eval(e, model_completion=True).as_long()
            vals.append(val)
            if len(wit) < 4:
                try: wit.append((val, _model_of(s)))
                except Exception: pass
            s.add(e != val)
        s.pop()
        if not vals:
            raise PathEnd('path condition became infeasible')
        if len(vals) > self.concretize_limit:
            import os
            if os.environ.get('IRSYM_DEBUG'):
                import traceback; traceback.print_stack(limit=8); print('value:', S.show(v, 5))
            # inputs under which the integer takes different values (used by checks to pick concrete replays)
            self.unbounded = {'value': S.show(v, 4), 'where': it.where(), 'witnesses': wit}
            raise Unsupported('symbolic integer has more than %d feasible values at %s' % (self.concretize_limit, it.where()))
        vals.sort()
        self.pos += 1
        for other in vals[1:]:
            self.worklist.append(list(self.trace) + [Decision(True, False, 'v', other)])
        d = Decision(True, len(vals) == 1, 'v', vals[0])
        self.trace.append(d)
        self._assert(S.cmp('eq', v, S.iconst(vals[0], v.width)))
        return vals[0]

    def witness_value(self, v):
        """one value of the symbolic integer v admitted by the current path condition (no constraint is added)"""
        try:
            e, deps = self.z.tr(v)
            s = self._solver
            s.push()
            for d in deps:
                if d not in self._asserted_defs: s.add(self.z.def_list[d][1])
            r = s.check()
            self.z.queries += 1
            val = s.model().eval(e, model_completion=True).as_long() if r == z3.sat else None
            s.pop()
            return val
        except Exception:
            return None

    def _ival(self, n, depth=0):
        """interval of a node from the recorded bounds of its variables (None if unknown); only the operators of index arithmetic"""
        if depth > 40: return None
        op = n.op
        if op in ('const', 'iconst'): return (Fraction(n.args[0]), Fraction(n.args[0]))
        if op == 'var':
            b = self.ivl.get(n.args[0])
            if b is None or b[0] is None or b[2] is None: return None
            return (Fraction(b[0]), Fraction(b[2]))
        if op == 'ivar':
            lo = getattr(n, 'lo', None); hi = getattr(n, 'hi', None)
            return None if lo is None or hi is None else (Fraction(lo), Fraction(hi))
        if op in ('irew', 'i2r', 'r2i'):
            return self._ival(n.args[0], depth + 1)
        if op in ('floor', 'ceil'):
            r = self._ival(n.args[0], depth + 1)
            if r is None: return None
            import math
            f = math.floor if op == 'floor' else math.ceil
            return (Fraction(f(r[0])), Fraction(f(r[1])))
        if op in ('add', 'iadd', 'sub', 'isub', 'mul', 'imul', 'div'):
            a = self._ival(n.args[0], depth + 1); b = self._ival(n.args[1], depth + 1)
            if a is None or b is None: return None
            if op in ('add', 'iadd'): return (a[0] + b[0], a[1] + b[1])
            if op in ('sub', 'isub'): return (a[0] - b[1], a[1] - b[0])
            if op in ('mul', 'imul'):
                c = [a[0] * b[0], a[0] * b[1], a[1] * b[0], a[1] * b[1]]
                return (min(c), max(c))
            if b[0] <= 0 <= b[1]: return None
            c = [a[0] / b[0], a[0] / b[1], a[1] / b[0], a[1] / b[1]]
            return (min(c), max(c))
        if op == 'neg':
            a = self._ival(n.args[0], depth + 1)
            return None if a is None else (-a[1], -a[0])
        if op == 'imod' and n.args[1].op == 'iconst':
            a = self._ival(n.args[0], depth + 1)
            if a is not None and a[0] >= 0 and a[1] < n.args[1].args[0]: return a
            return None
        return None

    def _enumerate_by_interval(self, v):
        """candidates from interval arithmetic, each kept unless the staged feasibility check refutes it (an undecided candidate is kept:
        exploring an infeasible value is harmless, dropping a feasible one would not be)"""
        r = self._ival(v)
        if r is None: return None
        import math
        lo = math.floor(r[0]); hi = math.ceil(r[1])
        if hi - lo > self.concretize_limit: return None
        vals = []
        for c in range(lo, hi + 1):
            if c < 0: continue
            res = self._check(S.cmp('eq', v, S.iconst(c, v.width)))
            if res != z3.unsat: vals.append(c)
        return vals

    def _enumerate_fresh(self, v):
        s2 = z3.Solver()
        s2.set('timeout', max(self.branch_timeout_ms, 20000))
        deps = set()
        for n in self.pc:
            e_, d_ = self.z.trs(n)
            s2.add(e_); deps |= d_
        e, d_ = self.z.trs(v); deps |= d_
        for k in sorted(deps):
            s2.add(self.z.sdef(k))
        vals = []
        while len(vals) <= self.concretize_limit:
            t = time.time()
            r = s2.check()
            self.z.solver_time += time.time() - t
            self.z.queries += 1
            if r == z3.unknown: return None
            if r != z3.sat: break
            val = s2.model().eval(e, model_completion=True).as_long()
            vals.append(val)
            s2.add(e != val)
        return vals

    # monitors ---------------------------------------------------------------------
    def note_division(self, b, it):
        if not self.check_divisions: return
        r = self._check(S.cmp('eq', b, S.ZERO))
        if r != z3.unsat:
            self.division_reports.append((it.where(), S.show(b, 3), str(r)))

    def note_sqrt(self, x, it):
        pass

    def note_fptoint(self, v, op, bits, it):
        pass

    # exploration driver -------------------------------------------------------------
    def explore(self, run_path):
        """run_path(ctl) executes the harness once; returns per-path result. Yields (trace, result)."""
        results = []
        while self.worklist and self.paths_done < self.max_paths:
            prefix = self.worklist.pop()
            self.begin_path(prefix)
            try:
                res = run_path(self)
                results.append((list(self.trace), list(self.pc), res))
            except PathEnd as e:
                results.append((list(self.trace), list(self.pc), ('pathend', e.reason)))
            self.paths_done += 1
        self.exhausted = not self.worklist
        return results

# ---------------------------------------------------------------------------------------
# obligations
# ---------------------------------------------------------------------------------------
class Obligation:
    def __init__(self, name, status, detail=None, model=None, time_s=0.0, core=True):
        self.name = name; self.status = status; self.detail = detail; self.model = model; self.time_s = time_s; self.core = core
    def to_json(self):
        d = {'name': self.name, 'status': self.status, 'time_s': round(self.time_s, 3)}
        if self.detail: d['detail'] = self.detail
        if self.model: d['model'] = self.model
        return d

def _model_of(s):
    m = s.model()
    model = {}
    for dcl in m.decls():
        nm = dcl.name()
        if '!' in nm or dcl.arity() > 0: continue
        try:
            model[nm] = z3_to_fraction(m[dcl])
        except Exception:
            pass
    return model

def prove(z, pc_nodes, claim, timeout_ms=60000, name='', want_model=True):
    """Is (AND pc) => claim valid?  Returns (status, model) with status in proved / violated / unknown.
    Stage 1 uses the sliced context (an unsat answer there is final); a sat answer is only accepted from the full context."""
    neg = S.bnot(claim)
    t = time.time()
    try:
        ok = norm_of(z).unsat(list(pc_nodes) + [neg])
    except RecursionError:
        ok = False
    z.queries += 1; z.solver_time += time.time() - t
    if ok:
        return 'proved', None
    # prefix stages: many claims follow from the harness assumptions alone (they come first in the path condition)
    if len(pc_nodes) > 12:
        for k in (0, 8):
            r, s = _solve(z, list(pc_nodes[:k]) + [neg], min(2000, timeout_ms))
            if r == z3.unsat:
                return 'proved', None
    sl, dropped = slice_context(z, pc_nodes, neg)
    if dropped:
        r, s = _solve(z, sl + [neg], max(1000, timeout_ms // 3))
        if r == z3.unsat:
            return 'proved', None
    r, s = _solve(z, list(pc_nodes) + [neg], timeout_ms)
    if r == z3.unsat:
        return 'proved', None
    if r == z3.sat:
        return 'violated', _model_of(s)
    # undecided by the solver: look for a refutation by evaluating the encoding at sampled points (three-valued evaluation with a
    # tolerance, so a rounding residue of an identity is never taken for a counterexample). A hit is a candidate like any solver
    # model: the checks replay it against the native build before reporting anything.
    m = numeric_refute(list(pc_nodes), claim)
    if m is not None:
        return 'violated', m
    return 'unknown', None

class _Unsure(Exception):
    pass

def _tri(n, env, cache, ufs=None):
    """three-valued truth of a boolean node at env (floats): True / False, raises _Unsure when within tolerance"""
    op = n.op
    if op == 'true': return True
    if op == 'false': return False
    if op == 'not': return not _tri(n.args[0], env, cache, ufs)
    if op == 'and': return _tri(n.args[0], env, cache, ufs) and _tri(n.args[1], env, cache, ufs)
    if op == 'or':
        # or: sure-true if one side is surely true
        vals = []
        for a in n.args:
            try: vals.append(_tri(a, env, cache, ufs))
            except _Unsure: vals.append(None)
        if any(v is True for v in vals): return True
        if all(v is False for v in vals): return False
        raise _Unsure()
    if op in ('lt', 'le', 'gt', 'ge', 'eq', 'ne'):
        a = S.evaluate(n.args[0], env, ufs, cache); b = S.evaluate(n.args[1], env, ufs, cache)
        if isinstance(a, bool) or isinstance(b, bool): raise _Unsure()
        a = float(a); b = float(b)
        if a != a or b != b or abs(a) == float('inf') or abs(b) == float('inf'): raise _Unsure()
        tol = 1e-7 * (1.0 + abs(a) + abs(b))
        d = a - b
        if abs(d) <= tol: raise _Unsure()
        return {'lt': d < 0, 'le': d < 0, 'gt': d > 0, 'ge': d > 0, 'eq': False, 'ne': True}[op]
    if op == 'xor':
        return _tri(n.args[0], env, cache, ufs) != _tri(n.args[1], env, cache, ufs)
    if op in ('bvar',): return bool(env[n.args[0]])
    raise _Unsure()

def numeric_refute(pc_nodes, claim, tries=1500, seed=12345, budget_s=6.0):
    import random
    rnd = random.Random(seed)
    t_end = time.time() + budget_s
    names = set()
    kinds = {}
    for n in pc_nodes + [claim]:
        stack = [n]; seen = set()
        while stack:
            x = stack.pop()
            if type(x) is not S.Node or x.id in seen: continue
            seen.add(x.id)
            if x.op in ('var', 'ivar', 'bvar'): kinds[x.args[0]] = (x.op, getattr(x, 'lo', None), getattr(x, 'hi', None))
            stack.extend(a for a in x.args if type(a) is S.Node)
    if not kinds or len(kinds) > 80: return None
    ufs = {'cbrt': lambda v: math.copysign(abs(v) ** (1.0 / 3.0), v)}
    for t in range(tries):
        if time.time() > t_end: break
        scale = rnd.choice([0.5, 1.0, 2.0, 5.0])
        env = {}
        for nm, (op, lo, hi) in kinds.items():
            if op == 'var': env[nm] = rnd.uniform(-scale, scale) if rnd.random() < 0.8 else rnd.uniform(0, scale)
            elif op == 'ivar':
                lo_ = 0 if lo is None else lo; hi_ = lo_ + 16 if hi is None else min(hi, lo_ + 64)
                env[nm] = rnd.randint(lo_, hi_)
            else: env[nm] = rnd.random() < 0.5
        cache = {}
        try:
            if not all(_tri(c, env, cache, ufs) for c in pc_nodes): continue
            if _tri(claim, env, cache, ufs) is False:
                return {k: (Fraction(v).limit_denominator(10 ** 9) if isinstance(v, float) else v) for k, v in env.items()}
        except (_Unsure, ZeroDivisionError, ValueError, OverflowError, KeyError, TypeError, AttributeError, RecursionError):
            continue
    return None

def satisfiable(z, nodes, timeout_ms=30000):
    s = z3.Solver()
    s.set('timeout', timeout_ms)
    deps = set()
    for n in nodes:
        e, d = z.trs(n)
        s.add(e); deps |= d
    for k in sorted(deps):
        s.add(z.sdef(k))
    t = time.time()
    r = s.check()
    z.solver_time += time.time() - t
    z.queries += 1
    if r == z3.sat:
        m = s.model()
        model = {}
        for dcl in m.decls():
            nm = dcl.name()
            if '!' in nm or dcl.arity() > 0: continue
            try: model[nm] = z3_to_fraction(m[dcl])
            except Exception: pass
        return 'sat', model
    return ('unsat' if r == z3.unsat else 'unknown'), None

def smtlib_of(z, pc_nodes, claim):
    """SMT-LIB2 text of the negated obligation (for the second solver)"""
    s = z3.Solver()
    deps = set()
    for n in pc_nodes:
        e, d = z.tr(n)
        s.add(e); deps |= d
    e, d = z.tr(S.bnot(claim))
    s.add(e); deps |= d
    for k in sorted(deps):
        s.add(z.def_list[k][1])
    return s.to_smt2()

def run_cvc5(smt2, timeout_s=60, logic=None):
    txt = smt2
    if logic:
        txt = '(set-logic %s)\n' % logic + txt
    else:
        txt = '(set-logic ALL)\n' + txt
    t = time.time()
    try:
        p = subprocess.run(['cvc5', '--lang=smt2', '--tlimit=%d' % (timeout_s * 1000)], input=txt, capture_output=True, text=True, timeout=timeout_s + 10)
        out = p.stdout + p.stderr
    except subprocess.TimeoutExpired:
        return 'unknown', time.time() - t
    dt = time.time() - t
    if '(error' in out or 'error' in out.lower() and 'unsat' not in out and 'sat' not in out:
        return 'error', dt
    first = out.strip().split('\n')[0].strip() if out.strip() else ''
    if first == 'unsat': return 'unsat', dt
    if first == 'sat': return 'sat', dt
    return 'unknown', dt

class FPPathController(PathController):
    """path controller for the bit-precise mode: no pruning (both sides of every symbolic branch are explored);
    feasibility of each path is decided by cbmc together with the obligation (assume(pc))."""
    def __init__(self, max_paths=256):
        PathController.__init__(self, None, 0, max_paths)
        self.use_sampling = False
        self.cut_function = None      # name of a function whose formatting tail is cut (see ReturnFrom)
        self.cut_predicate = lambda cond: False

    def begin_path(self, prefix):
        self.prefix = prefix
        self.pos = 0
        self.trace = []
        self.pc = []
        for a in self.assumptions:
            self.pc.append(a)

    def _assert(self, node):
        self.pc.append(node)

    def assume(self, node, it=None):
        self.pc.append(node)

    def decide(self, cond, it):
        if self.cut_function is not None and self.cut_function in it.call_stack and self.cut_predicate(cond):
            from .interp import ReturnFrom
            raise ReturnFrom(self.cut_function)
        if self.pos < len(self.prefix):
            d = self.prefix[self.pos]
            self.pos += 1
            self.trace.append(d)
            self.pc.append(cond if d.taken else S.bnot(cond))
            return d.taken
        self.pos += 1
        self.stats['forks'] += 1
        self.worklist.append(list(self.trace) + [Decision(False, False)])
        self.trace.append(Decision(True, False))
        self.pc.append(cond)
        return True

    def sign_of(self, x, it):
        return 0

    def concretize(self, v, it):
        if self.cut_function is not None and self.cut_function in it.call_stack:
            from .interp import ReturnFrom
            raise ReturnFrom(self.cut_function)
        raise Unsupported('symbolic integer used as address/index in bit-precise mode at %s' % it.where())

    def note_division(self, b, it): pass
