"""Bit-precise back end: prints a path's expression DAG (fpsym / integer nodes) as straight-line C and lets
cbmc decide `assume(path condition and assumptions); assert(claim)`.  Counterexample values are read back
from the trace with their exact bit patterns."""
import os
import re
import struct
import subprocess
import tempfile
import time

from . import sym as S
from . import fpsym as FS

Node = S.Node

FCMP_C = {'oeq': '==', 'olt': '<', 'ole': '<=', 'ogt': '>', 'oge': '>=', 'one': None, 'une': '!=', 'ueq': None, 'ult': None, 'ule': None, 'ugt': None, 'uge': None}

class Emitter:
    def __init__(self):
        self.lines = []
        self.names = {}
        self.inputs = {}     # name -> ctype
        self.n = 0

    def tmp(self, node, ctype, expr):
        self.n += 1
        name = 't%d' % self.n
        self.lines.append('  %s %s = %s;' % (ctype, name, expr))
        self.names[node.id] = name
        return name

    def ctype_of(self, n):
        if n.sort == 'F': return 'double'
        if n.sort == 'B': return '_Bool'
        return 'uint64_t'

    def emit(self, n):
        r = self.names.get(n.id)
        if r is not None: return r
        # post-order without recursion
        stack = [n]
        while stack:
            x = stack[-1]
            if x.id in self.names:
                stack.pop(); continue
            kids = [a for a in x.args if type(a) is Node and a.id not in self.names]
            if kids:
                stack.extend(kids); continue
            stack.pop()
            self.emit1(x)
        return self.names[n.id]

    def emit1(self, x):
        op = x.op; a = x.args
        N = lambda y: self.names[y.id]
        if op == 'f_const':
            v = struct.unpack('<d', a[0])[0]
            if v != v: e = '(0.0/0.0)'
            elif v in (float('inf'), float('-inf')): e = '(1.0/0.0)' if v > 0 else '(-1.0/0.0)'
            else: e = v.hex()
            return self.tmp(x, 'double', e)
        if op == 'f_var':
            self.inputs[a[0]] = 'double'
            self.names[x.id] = a[0]; return a[0]
        if op in ('f_add', 'f_sub', 'f_mul', 'f_div'):
            return self.tmp(x, 'double', '%s %s %s' % (N(a[0]), {'f_add': '+', 'f_sub': '-', 'f_mul': '*', 'f_div': '/'}[op], N(a[1])))
        if op == 'f_neg': return self.tmp(x, 'double', '-%s' % N(a[0]))
        if op == 'f_sqrt': return self.tmp(x, 'double', 'sqrt(%s)' % N(a[0]))
        if op == 'f_floor': return self.tmp(x, 'double', 'floor(%s)' % N(a[0]))
        if op == 'f_ceil': return self.tmp(x, 'double', 'ceil(%s)' % N(a[0]))
        if op == 'f_abs': return self.tmp(x, 'double', 'fabs(%s)' % N(a[0]))
        if op == 'f_ite': return self.tmp(x, 'double', '%s ? %s : %s' % (N(a[0]), N(a[1]), N(a[2])))
        if op == 'f_cmp':
            pred, l, r = a
            L, R = N(l), N(r)
            un = '(%s != %s || %s != %s)' % (L, L, R, R)
            base = {'eq': '==', 'lt': '<', 'le': '<=', 'gt': '>', 'ge': '>=', 'ne': '!='}
            if pred in ('ord',): e = '!%s' % un
            elif pred == 'uno': e = un
            elif pred == 'one': e = '(!%s && %s != %s)' % (un, L, R)
            elif pred == 'une': e = '(%s != %s)' % (L, R)
            elif pred[0] == 'o': e = '(%s %s %s)' % (L, base[pred[1:]], R)
            else: e = '(%s || %s %s %s)' % (un, L, base[pred[1:]], R)
            return self.tmp(x, '_Bool', e)
        if op == 'f_toint':
            v, bits, signed = a
            mask = (1 << bits) - 1
            if signed:
                return self.tmp(x, 'uint64_t', '((uint64_t)(int64_t)%s) & 0x%xULL' % (N(v), mask))
            return self.tmp(x, 'uint64_t', '((uint64_t)%s) & 0x%xULL' % (N(v), mask))
        if op == 'f_lround':
            return self.tmp(x, 'uint64_t', '(uint64_t)llround(%s)' % N(a[0]))
        if op == 'f_fromint':
            return self.tmp(x, 'double', '(double)%s' % N(a[0]))
        # integers: every value is kept in a uint64_t masked to its width
        if op == 'iconst': return self.tmp(x, 'uint64_t', '0x%xULL' % a[0])
        if op == 'ivar':
            self.inputs[a[0]] = 'uint64_t:%d' % x.width
            self.names[x.id] = a[0]; return a[0]
        mask = '0x%xULL' % ((1 << x.width) - 1) if x.sort == 'I' else ''
        if op in ('iadd', 'isub', 'imul'):
            return self.tmp(x, 'uint64_t', '(%s %s %s) & %s' % (N(a[0]), {'iadd': '+', 'isub': '-', 'imul': '*'}[op], N(a[1]), mask))
        if op == 'idiv': return self.tmp(x, 'uint64_t', '%s / %s' % (N(a[0]), N(a[1])))
        if op in ('imod', 'imodop'):
            if op == 'imod': return self.tmp(x, 'uint64_t', '%s & %s' % (N(a[0]), mask))
            return self.tmp(x, 'uint64_t', '%s %% %s' % (N(a[0]), N(a[1])))
        if op == 'irew': return self.tmp(x, 'uint64_t', '%s & %s' % (N(a[0]), mask))
        if op == 'ite' and x.sort == 'I': return self.tmp(x, 'uint64_t', '%s ? %s : %s' % (N(a[0]), N(a[1]), N(a[2])))
        if op in ('lt', 'le', 'gt', 'ge', 'eq', 'ne'):
            cop = {'lt': '<', 'le': '<=', 'gt': '>', 'ge': '>=', 'eq': '==', 'ne': '!='}[op]
            return self.tmp(x, '_Bool', '(%s %s %s)' % (N(a[0]), cop, N(a[1])))
        if op == 'true': return self.tmp(x, '_Bool', '1')
        if op == 'false': return self.tmp(x, '_Bool', '0')
        if op == 'bvar':
            self.inputs[a[0]] = '_Bool'
            self.names[x.id] = a[0]; return a[0]
        if op == 'not': return self.tmp(x, '_Bool', '!%s' % N(a[0]))
        if op == 'and': return self.tmp(x, '_Bool', '(%s && %s)' % (N(a[0]), N(a[1])))
        if op == 'or': return self.tmp(x, '_Bool', '(%s || %s)' % (N(a[0]), N(a[1])))
        if op == 'xor': return self.tmp(x, '_Bool', '(%s != %s)' % (N(a[0]), N(a[1])))
        raise ValueError('cemit: unsupported node %s (sort %s)' % (op, x.sort))

def program(assumes, claim):
    em = Emitter()
    anames = [em.emit(a) for a in assumes]
    cname = em.emit(claim)
    out = ['#include <stdint.h>', '#include <math.h>', 'double nondet_double(void);', 'uint64_t nondet_u64(void);', '_Bool nondet_bool(void);', 'int main(void) {']
    for nm, ct in sorted(em.inputs.items()):
        if ct == 'double':
            out.append('  double %s = nondet_double();' % nm)
        elif ct == '_Bool':
            out.append('  _Bool %s = nondet_bool();' % nm)
        else:
            w = int(ct.split(':')[1])
            out.append('  uint64_t %s = nondet_u64() & 0x%xULL;' % (nm, (1 << w) - 1))
    out += em.lines
    for a in anames:
        out.append('  __CPROVER_assume(%s);' % a)
    out.append('  __CPROVER_assert(%s, "claim");' % cname)
    out.append('  return 0;')
    out.append('}')
    return '\n'.join(out) + '\n', em.inputs

_TRACE = re.compile(r'^\s+(\w+)=(\S+)\s+\(([01 ]+)\)\s*$')

def run_cbmc(assumes, claim, timeout_s=120, workdir=None, solver_args=(), keep=None, portfolio=True):
    """returns (status, model, seconds): status proved | violated | unknown; model: name -> python float/int (exact bits)"""
    text, inputs = program(assumes, claim)
    d = workdir or tempfile.mkdtemp(prefix='cbmc_')
    path = os.path.join(d, 'ob_%d_%d.c' % (os.getpid(), int(time.time() * 1e6) % 10 ** 9))
    with open(path, 'w') as f:
        f.write(text)
    base = ['cbmc', path, '--trace', '--no-standard-checks', '--no-built-in-assertions'] + list(solver_args)
    variants = [base + ['--external-sat-solver', 'kissat'], base] if portfolio else [base]
    t = time.time()
    procs = []
    outs = []
    for k, cmd in enumerate(variants):
        of = open(path + '.out%d' % k, 'w+')
        outs.append(of)
        procs.append(subprocess.Popen(cmd, stdout=of, stderr=subprocess.DEVNULL, text=True, cwd=d, start_new_session=True))
    out = None
    try:
        while time.time() - t < timeout_s and out is None:
            for p, of in zip(procs, outs):
                if p.poll() is not None:
                    of.flush(); of.seek(0)
                    o = of.read()
                    if 'VERIFICATION SUCCESSFUL' in o or 'VERIFICATION FAILED' in o:
                        out = o; break
            if out is None:
                if all(p.poll() is not None for p in procs): break
                time.sleep(0.05)
    finally:
        for p in procs:
            if p.poll() is None:
                try: os.killpg(p.pid, 9)
                except OSError: pass
            try: p.wait(timeout=5)
            except Exception: pass
        for k, of in enumerate(outs):
            of.close()
            try: os.remove(path + '.out%d' % k)
            except OSError: pass
    dt = time.time() - t
    if keep is None:
        try: os.remove(path)
        except OSError: pass
    if out is None:
        return 'unknown', None, dt
    if 'VERIFICATION SUCCESSFUL' in out:
        return 'proved', None, dt
    if 'VERIFICATION FAILED' in out:
        model = {}
        for line in out.split('\n'):
            m = _TRACE.match(line)
            if not m: continue
            nm, txt, bits = m.group(1), m.group(2), m.group(3).replace(' ', '')
            if nm not in inputs or nm in model: continue
            if inputs[nm] == 'double' and len(bits) == 64:
                model[nm] = struct.unpack('<d', struct.pack('<Q', int(bits, 2)))[0]
            elif inputs[nm] == '_Bool':
                model[nm] = int(bits, 2) != 0
            else:
                model[nm] = int(bits, 2)
        return 'violated', model, dt
    return 'unknown', {'cbmc_output_tail': out[-600:]}, dt
