"""Models of external functions (libc / libstdc++ / libm / libomp / C++ ABI) for irsym.

Every model here is part of the trusted base and is listed in the evidence files
(`Interp.used_models`).  I/O and formatting have empty bodies.
"""
import math
import struct
from fractions import Fraction

from . import sym as S
from . import fpsym as FS
from .interp import (UNDEF, Unsupported, MemoryError_, Unwind, ProgramExit, PathEnd, K_INT, K_DOUBLE, K_PTR, SHIFT, Node, f2i, i2f)

EXTERNAL_TYPEINFO_BASES = {
    '_ZTISt9exception': None,
    '_ZTISt9bad_alloc': '_ZTISt9exception',
    '_ZTISt20bad_array_new_length': '_ZTISt9bad_alloc',
    '_ZTISt8bad_cast': '_ZTISt9exception',
    '_ZTISt13runtime_error': '_ZTISt9exception',
    '_ZTISt11logic_error': '_ZTISt9exception',
    '_ZTISt12out_of_range': '_ZTISt11logic_error',
    '_ZTISt12length_error': '_ZTISt11logic_error',
    '_ZTISt16invalid_argument': '_ZTISt11logic_error',
    '_ZTISt12domain_error': '_ZTISt11logic_error',
    '_ZTISt14overflow_error': '_ZTISt13runtime_error',
    '_ZTISt11range_error': '_ZTISt13runtime_error',
    '_ZTISt12system_error': '_ZTISt13runtime_error',
    '_ZTINSt8ios_base7failureB5cxx11E': '_ZTISt12system_error',
    '_ZTINSt10filesystem7__cxx1116filesystem_errorE': '_ZTISt12system_error',
    '_ZTISt17bad_function_call': '_ZTISt9exception',
    '_ZTISt11regex_error': '_ZTISt13runtime_error',
}

def install(it):
    E = it.externals
    it.used_models = set()
    def reg(names, fn=None):
        def deco(f):
            for n in (names if isinstance(names, (list, tuple)) else [names]):
                def wrapped(interp, args, _f=f, _n=n):
                    interp.used_models.add(_n)
                    return _f(interp, args)
                E[n] = wrapped
            return f
        if fn is not None:
            return deco(fn)
        return deco

    # ---- memory -------------------------------------------------------------
    def op_new(it, a):
        n = it._known(a[0])
        if type(n) is not int and type(n) is Node and n.sort == 'I' and it.pathctl is not None and getattr(it.pathctl, 'symbolic_alloc', False):
            # allocation with a symbolic byte count: the object has that size for every bounds decision; the backing store is fixed
            if not it.decide(S.cmp('le', n, S.iconst(1 << 31, 64))):
                it.throw_std('_ZTISt9bad_alloc')
            p = it.alloc(1 << 16, 'heap', 'new(%s)@%s' % (S.show(n, 3), it.call_stack[-1] if it.call_stack else '?'))
            it.regions[p >> SHIFT].sym_size = n
            return p
        if type(n) is not int: n = it.concretize_int(n)
        if n > (1 << 31):
            it.throw_std('_ZTISt9bad_alloc')
        return it.alloc(n, 'heap', 'new(%d)@%s' % (n, it.call_stack[-1] if it.call_stack else '?'))
    reg(['_Znwm', '_Znam'], op_new)
    def malloc(it, a):
        n = a[0]
        if type(n) is not int: n = it.concretize_int(n)
        return it.alloc(n, 'heap', 'malloc(%d)' % n)
    reg('malloc', malloc)
    def calloc(it, a):
        n = a[0] * a[1]
        p = it.alloc(n, 'heap', 'calloc(%d)' % n)
        it.memset(p, 0, n)
        return p
    reg('calloc', calloc)
    reg(['_ZdlPv', '_ZdaPv', 'free'], lambda it, a: it.free_region(a[0], 'delete'))
    reg(['_ZdlPvm', '_ZdaPvm'], lambda it, a: it.free_region(a[0], 'sized delete', a[1] if type(a[1]) is int else None))
    def realloc(it, a):
        p, n = a
        q = it.alloc(n, 'heap', 'realloc(%d)' % n)
        if p:
            r = it.regions[p >> SHIFT]
            it.memcpy(q, p, min(r.size, n))
            it.free_region(p)
        return q
    reg('realloc', realloc)

    def memcpy(it, a):
        n = a[2]
        if type(n) is not int: n = it.concretize_int(n)
        it.memcpy(a[0], a[1], n)
        return a[0]
    reg(['llvm.memcpy', 'llvm.memmove', 'memcpy', 'memmove'], memcpy)
    def memset(it, a):
        n = a[2]
        if type(n) is not int: n = it.concretize_int(n)
        v = a[1]
        if type(v) is not int: raise Unsupported('memset with symbolic byte')
        it.memset(a[0], v, n)
        return a[0]
    reg(['llvm.memset', 'memset'], memset)
    def memcmp(it, a):
        n = a[2]
        for i in range(n):
            x = it.load(a[0] + i, 1, K_INT); y = it.load(a[1] + i, 1, K_INT)
            if x is UNDEF or y is UNDEF:
                raise MemoryError_('uninitialised-decision', 'memcmp over uninitialised bytes', it.where())
            if x != y: return (x - y) & 0xFFFFFFFF
        return 0
    reg(['memcmp', 'bcmp'], memcmp)
    reg('strlen', lambda it, a: len(it.read_cstring(a[0])))
    def memchr(it, a):
        p, c, n = a
        for i in range(n):
            if it.load(p + i, 1, K_INT) == (c & 0xFF): return p + i
        return 0
    reg('memchr', memchr)
    def strcmp(it, a):
        x = it.read_cstring(a[0]); y = it.read_cstring(a[1])
        return 0 if x == y else ((1 if x > y else -1) & 0xFFFFFFFF)
    reg('strcmp', strcmp)
    def errno_location(it, a):
        p = getattr(it, '_errno_ptr', None)
        if p is None:
            p = it.alloc(4, 'global', 'errno'); it.store(p, 4, 0); it._errno_ptr = p
        return p
    reg('__errno_location', errno_location)
    def tolower(it, a):
        c = a[0]
        if type(c) is not int: raise Unsupported('tolower of a symbolic character')
        c &= 0xFFFFFFFF
        return c + 32 if 65 <= c <= 90 else c
    reg('tolower', tolower)
    def sprintf(it, a):
        """sprintf(buf, fmt, ...) for the integer and floating directives the repository uses. The number of characters written is an
        expression in the (possibly symbolic) arguments; the solver decides whether it can exceed the room left in the destination
        object (then the path is an out-of-bounds report carrying the path condition)."""
        import re as _re
        dst, fmt = a[0], it.read_cstring(a[1]).decode('latin-1')
        vals = list(a[2:])
        r_, off = it.region_of(dst, 1, 'store')
        room = r_.size - off
        total = S.iconst(0, 64); fixed = 0
        pieces = []
        pos = 0
        for m_ in _re.finditer(r'%([-+ 0#]*)(\d*)(?:\.(\d+))?(l|ll|z|h|hh)?([diuxXeEfgGsc%])', fmt):
            lit = fmt[pos:m_.start()]; fixed += len(lit); pieces.append(('lit', lit)); pos = m_.end()
            flags, width, prec, lm, conv = m_.groups()
            width = int(width) if width else 0
            if conv == '%':
                fixed += 1; pieces.append(('lit', '%')); continue
            if not vals: raise Unsupported('sprintf: missing argument')
            v = vals.pop(0)
            if conv in 'diu':
                bits = 64 if lm in ('l', 'll', 'z') else 32
                signed = conv in 'di'
                if type(v) is int:
                    x = v & ((1 << bits) - 1)
                    if signed and x >> (bits - 1): x -= 1 << bits
                    txt = ('%' + flags + (str(width) if width else '') + 'd') % x
                    fixed += len(txt); pieces.append(('lit', txt)); continue
                if type(v) is not Node or v.sort != 'I': raise Unsupported('sprintf: integer directive with a non-integer argument')
                # v is an unsigned bits-wide pattern; as a signed number it is negative when >= 2^(bits-1)
                half = S.iconst(1 << (bits - 1), 64)
                neg_ = S.cmp('ge', v, half) if (signed and (v.hi is None or v.hi >= (1 << (bits - 1)))) else S.FALSE
                mag = v if neg_ is S.FALSE else S.ite(neg_, S.isub(S.iconst(1 << bits, 64), v, 64), v)
                ln = S.iconst(1, 64) if neg_ is S.FALSE else S.ite(neg_, S.iconst(2, 64), S.iconst(1, 64))
                for k in range(1, 20):
                    if neg_ is S.FALSE and v.hi is not None and v.hi < 10 ** k: break
                    if 10 ** k > (1 << bits): break
                    ln = S.iadd(ln, S.ite(S.cmp('ge', mag, S.iconst(10 ** k, 64)), S.iconst(1, 64), S.iconst(0, 64)), 64)
                if width:
                    ln = S.ite(S.cmp('lt', ln, S.iconst(width, 64)), S.iconst(width, 64), ln)
                total = S.iadd(total, ln, 64); pieces.append(('int', v, flags, width)); continue
            if conv in 'eE' and type(v) is Node:
                # any double: [-]d.ddde[+-]dd(d), or [-]inf / [-]nan -- at most precision + 8 characters (7 without the point), all reachable
                pr = int(prec) if prec is not None else 6
                n_ = max(width, pr + 8 if (pr or '#' in flags) else 7)
                fixed += n_; pieces.append(('lit', ('-1.' + '0' * pr + 'e-100')[:n_].ljust(n_, '0'))); continue
            if conv in 'eEfgG':
                if type(v) is not float: raise Unsupported('sprintf: floating directive with a symbolic argument')
                txt = ('%' + flags + (str(width) if width else '') + ('.' + prec if prec is not None else '') + conv) % v
                fixed += len(txt); pieces.append(('lit', txt)); continue
            raise Unsupported('sprintf: directive %%%s' % conv)
        lit = fmt[pos:]; fixed += len(lit); pieces.append(('lit', lit))
        need = S.iadd(total, S.iconst(fixed + 1, 64), 64)        # characters + terminating NUL
        if type(need) is Node and need.op != 'iconst':
            fits = S.cmp('le', need, S.iconst(room, 64))
            if not it.decide(fits):
                raise MemoryError_('out-of-bounds', 'sprintf("%s") can write more than the %d bytes left in %s region %s of size %d' % (fmt, room, r_.kind, r_.name, r_.size), it.where())
        else:
            nn = need.args[0] if type(need) is Node else need
            if nn > room:
                raise MemoryError_('out-of-bounds', 'sprintf("%s") writes %d bytes into the %d bytes left in %s region %s of size %d' % (fmt, nn, room, r_.kind, r_.name, r_.size), it.where())
        # contents: a witness value of every symbolic argument (the text is not part of any claim)
        out = ''
        for pc_ in pieces:
            if pc_[0] == 'lit': out += pc_[1]
            else:
                w = it.pathctl.witness_value(pc_[1]) if it.pathctl is not None else None
                out += ('%' + pc_[2] + (str(pc_[3]) if pc_[3] else '') + 'd') % (w if w is not None else 0)
        out = out.encode('latin-1')[:max(room - 1, 0)]
        for i_, b_ in enumerate(out): it.store(dst + i_, 1, b_)
        it.store(dst + len(out), 1, 0)
        return len(out)
    reg('sprintf', sprintf)
    def toupper(it, a):
        c = a[0]
        if type(c) is not int: raise Unsupported('toupper of a symbolic character')
        c &= 0xFFFFFFFF
        return c - 32 if 97 <= c <= 122 else c
    reg('toupper', toupper)

    nop = lambda it, a: None
    reg(['llvm.lifetime.start', 'llvm.lifetime.end', 'llvm.dbg.value', 'llvm.dbg.declare', 'llvm.assume',
         'llvm.experimental.noalias.scope.decl', 'llvm.stackrestore', 'llvm.prefetch', 'llvm.invariant.start', 'llvm.invariant.end',
         'llvm.donothing', 'llvm.var.annotation'], nop)
    reg('llvm.stacksave', lambda it, a: 0)
    reg('llvm.expect', lambda it, a: a[0])
    reg('llvm.is.constant', lambda it, a: 0)
    reg('llvm.objectsize', lambda it, a: (1 << 64) - 1)
    def trap(it, a):
        raise MemoryError_('trap', 'llvm.trap executed', it.where())
    reg('llvm.trap', trap)

    # ---- integer intrinsics --------------------------------------------------
    def int2(f):
        def h(it, a):
            x, y = a[0], a[1]
            if type(x) is not int: x = it.concretize_int(x)
            if type(y) is not int: y = it.concretize_int(y)
            return f(x, y)
        return h
    reg('llvm.umax', int2(max)); reg('llvm.umin', int2(min))
    def smax(bits):
        from .interp import sext
        return int2(lambda x, y: x if sext(x, bits) >= sext(y, bits) else y)
    def smin(bits):
        from .interp import sext
        return int2(lambda x, y: x if sext(x, bits) <= sext(y, bits) else y)
    for b in (8, 16, 32, 64):
        reg('llvm.smax.i%d' % b, smax(b)); reg('llvm.smin.i%d' % b, smin(b))
        def mk_abs(bits):
            from .interp import sext
            def f(it, a):
                v = it._known(a[0])
                if type(v) is Node and getattr(it, 'format_witness', False) and it.pathctl is not None:
                    # decimal formatting of a symbolic integer (diagnostic text only): continue with ONE value the path condition admits,
                    # without constraining the path (the text produced is that of some admissible value)
                    w = it.pathctl.witness_value(v)
                    if w is not None:
                        return abs(sext(w, bits)) & ((1 << bits) - 1)
                return abs(sext(it.concretize_int(v), bits)) & ((1 << bits) - 1)
            return f
        reg('llvm.abs.i%d' % b, mk_abs(b))
        def mk_ctlz(bits):
            return lambda it, a: bits - it.concretize_int(a[0]).bit_length()
        reg('llvm.ctlz.i%d' % b, mk_ctlz(b))
        def mk_cttz(bits):
            def h(it, a):
                x = it.concretize_int(a[0])
                return bits if x == 0 else (x & -x).bit_length() - 1
            return h
        reg('llvm.cttz.i%d' % b, mk_cttz(b))
        reg('llvm.ctpop.i%d' % b, lambda it, a: bin(it.concretize_int(a[0])).count('1'))
        def mk_ovf(bits, f):
            def h(it, a):
                x = it.concretize_int(a[0]); y = it.concretize_int(a[1])
                r = f(x, y)
                return [r & ((1 << bits) - 1), 1 if (r >> bits) or r < 0 else 0]
            return h
        reg('llvm.umul.with.overflow.i%d' % b, mk_ovf(b, lambda x, y: x * y))
        reg('llvm.uadd.with.overflow.i%d' % b, mk_ovf(b, lambda x, y: x + y))
        reg('llvm.usub.with.overflow.i%d' % b, mk_ovf(b, lambda x, y: x - y))
        def mk_fsh(bits, left):
            def h(it, a):
                x, y, s = [it.concretize_int(v) for v in a[:3]]
                s %= bits
                c = (x << bits) | y
                if left: return (c >> (bits - s)) & ((1 << bits) - 1) if s else x
                return (c >> s) & ((1 << bits) - 1)
            return h
        reg('llvm.fshl.i%d' % b, mk_fsh(b, True)); reg('llvm.fshr.i%d' % b, mk_fsh(b, False))
        reg('llvm.bswap.i%d' % b, (lambda bits: lambda it, a: int.from_bytes(it.concretize_int(a[0]).to_bytes(bits // 8, 'little'), 'big'))(b))

    # ---- libm ---------------------------------------------------------------
    def m1(name, f, symf=None):
        def h(it, a):
            x = a[0]
            if type(x) is float:
                try:
                    return f(x)
                except (ValueError, OverflowError):
                    return math.nan
            if x is UNDEF: return UNDEF
            if it.mode == 'fp':
                f2 = {'sqrt': FS.fsqrt, 'fabs': FS.ffabs, 'floor': FS.ffloor, 'ceil': FS.fceil}.get(name)
                if f2 is None: raise Unsupported('libm function %s on a bit-precise symbolic double' % name)
                return f2(x)
            if symf is not None: return symf(it, x)
            return S.uf(name, x)
        return h
    def sym_sqrt(it, x):
        if it.pathctl is not None: it.pathctl.note_sqrt(x, it)
        return S.sqrt(x)
    def c_sqrt(x):
        return math.sqrt(x) if x >= 0 else math.nan
    reg(['sqrt', 'llvm.sqrt.f64'], m1('sqrt', c_sqrt, sym_sqrt))
    reg(['fabs', 'llvm.fabs.f64', 'llvm.fabs.f32', 'fabsf'], m1('fabs', abs, lambda it, x: it.sym_fabs(x)))
    reg(['floor', 'llvm.floor.f64'], m1('floor', lambda x: float(math.floor(x)) if math.isfinite(x) else x, lambda it, x: S.floor(x)))
    reg(['ceil', 'llvm.ceil.f64'], m1('ceil', lambda x: float(math.ceil(x)) if math.isfinite(x) else x, lambda it, x: S.ceil(x)))
    reg(['trunc', 'llvm.trunc.f64'], m1('trunc', lambda x: float(math.trunc(x)) if math.isfinite(x) else x))
    reg(['round', 'llvm.round.f64'], m1('round', lambda x: float(math.floor(abs(x) + 0.5)) * (1 if x >= 0 else -1) if math.isfinite(x) else x))
    def lround(it, a):
        x = a[0]
        if type(x) is float:
            if not math.isfinite(x): return UNDEF
            r = int(math.floor(abs(x) + 0.5)); r = r if x >= 0 else -r
            return r & ((1 << 64) - 1)
        if it.mode == 'fp':
            n = S.mk('f_lround', (x,), 'I', 64); n.lo = 0; n.hi = (1 << 64) - 1
            return n
        # exact reals: floor(x + 1/2) for x >= 0 (negative arguments do not occur for the quantities rounded by this code base)
        return S.r2i(S.add(x, S.const(Fraction(1, 2))), 64)
    reg(['lround', 'llround', 'llvm.lround.i64.f64', 'llvm.llround.i64.f64'], lround)
    reg(['rint', 'nearbyint', 'llvm.rint.f64', 'llvm.nearbyint.f64'], m1('rint', lambda x: float(round(x)) if math.isfinite(x) else x))
    def c_acos(x):
        return math.acos(x) if -1.0 <= x <= 1.0 else math.nan
    reg('acos', m1('acos', c_acos))
    reg('asin', m1('asin', lambda x: math.asin(x) if -1.0 <= x <= 1.0 else math.nan))
    reg('atan', m1('atan', math.atan))
    def trig(name, f, table):
        def h(it, a):
            x = a[0]
            if type(x) is float:
                if it.mode == 'real':
                    # exact-real reading: a double that is the nearest double to k*pi/2 is read as k*pi/2
                    k = round(x / (math.pi / 2))
                    if abs(k) <= 8 and x == k * (math.pi / 2):
                        return table[k % 4]
                try: return f(x)
                except (ValueError, OverflowError): return math.nan
            if x is UNDEF: return UNDEF
            return S.uf(name, x)
        return h
    reg(['cos', 'llvm.cos.f64'], trig('cos', math.cos, [1.0, 0.0, -1.0, 0.0]))
    reg(['sin', 'llvm.sin.f64'], trig('sin', math.sin, [0.0, 1.0, 0.0, -1.0]))
    def sym_tan(it, x):
        # tan(acos(c)) = sqrt(1 - c^2) / c   (identity on (-1, 1] \\ {0}; listed in the trusted base)
        if type(x) is Node and x.op == 'uf' and x.args[0] == 'acos':
            c = x.args[1]
            return S.div(S.sqrt(S.sub(S.ONE, S.mul(c, c))), c)
        return S.uf('tan', x)
    reg('tan', m1('tan', math.tan, sym_tan))
    def c_log(x):
        if x > 0: return math.log(x)
        return -math.inf if x == 0 else math.nan
    reg(['log', 'llvm.log.f64'], m1('log', c_log))
    def c_exp(x):
        try: return math.exp(x)
        except OverflowError: return math.inf
    reg(['exp', 'llvm.exp.f64'], m1('exp', c_exp))
    reg('cbrt', m1('cbrt', lambda x: math.copysign(abs(x) ** (1.0 / 3.0), x) if not hasattr(math, 'cbrt') else math.cbrt(x)))
    reg('log10', m1('log10', lambda x: math.log10(x) if x > 0 else (-math.inf if x == 0 else math.nan)))
    reg('log2', m1('log2', lambda x: math.log2(x) if x > 0 else (-math.inf if x == 0 else math.nan)))
    def powf(it, a):
        x, y = a[0], a[1]
        if type(y) is int:  # powi
            y = float(y if y < (1 << 31) else y - (1 << 32))
        if type(x) is float and type(y) is float:
            try: return math.pow(x, y)
            except (ValueError, OverflowError, ZeroDivisionError): return math.nan
        if type(y) is float and y == 2.0: return S.mul(x, x)
        if type(y) is float and y == 3.0: return S.mul(x, S.mul(x, x))
        if type(y) is float and y == 1.5: return S.mul(x, sym_sqrt(it, x))
        if type(y) is float and y == 0.5: return sym_sqrt(it, x)
        return S.uf('pow', x, y)
    reg(['pow', 'llvm.pow.f64', 'llvm.powi.f64.i32'], powf)
    def atan2(it, a):
        if type(a[0]) is float and type(a[1]) is float: return math.atan2(a[0], a[1])
        return S.uf('atan2', a[0], a[1])
    reg('atan2', atan2)
    def fmod(it, a):
        if type(a[0]) is float and type(a[1]) is float:
            return math.fmod(a[0], a[1]) if a[1] != 0 and math.isfinite(a[0]) else math.nan
        return S.uf('fmod', a[0], a[1])
    reg('fmod', fmod)
    def fminmax(is_max):
        def h(it, a):
            x, y = a[0], a[1]
            if type(x) is float and type(y) is float:
                if x != x: return y
                if y != y: return x
                return max(x, y) if is_max else min(x, y)
            c = S.cmp('ge' if is_max else 'le', S.R(x), S.R(y))
            return S.ite(c, S.R(x), S.R(y))
        return h
    reg(['fmax', 'llvm.maxnum.f64'], fminmax(True)); reg(['fmin', 'llvm.minnum.f64'], fminmax(False))
    def copysign(it, a):
        if type(a[0]) is float and type(a[1]) is float: return math.copysign(a[0], a[1])
        raise Unsupported('copysign symbolic')
    reg(['copysign', 'llvm.copysign.f64'], copysign)
    reg('llvm.fmuladd.f64', lambda it, a: it.fbin(0, it.fbin(2, a[0], a[1], False), a[2], False))
    reg(['ldexp'], lambda it, a: math.ldexp(a[0], a[1] if a[1] < (1 << 31) else a[1] - (1 << 32)))
    def frexp_(it, a):
        m, e = math.frexp(a[0])
        it.store(a[1], 4, e & 0xFFFFFFFF)
        return m
    reg('frexp', frexp_)

    # ---- C++ ABI: exceptions ------------------------------------------------------
    def cxa_allocate_exception(it, a):
        return it.alloc(a[0], 'heap', 'exception(%d)' % a[0])
    reg('__cxa_allocate_exception', cxa_allocate_exception)
    reg('__cxa_free_exception', lambda it, a: it.free_region(a[0]))
    def cxa_throw(it, a):
        it.uncaught += 1
        it.events.append(('throw', it.typeinfo_name(a[1]), it.where()))
        u = Unwind(a[0], a[1], a[2])
        it.live_exceptions[a[0]] = u
        raise u
    reg('__cxa_throw', cxa_throw)
    def cxa_begin_catch(it, a):
        # a[0] is the exception object pointer from the landingpad
        u = it.find_exception(a[0])
        if u is not None: u.in_flight = False
        it.exc_stack.append(u)
        it.uncaught = max(0, it.uncaught - 1)
        return a[0]
    reg('__cxa_begin_catch', cxa_begin_catch)
    def cxa_end_catch(it, a):
        u = it.exc_stack.pop()
        if u is not None and not getattr(u, 'rethrown', False) and getattr(u, 'refs', 0) <= 0:
            it.destroy_exception(u)
        if u is not None: u.rethrown = False
        return None
    reg('__cxa_end_catch', cxa_end_catch)
    def cxa_rethrow(it, a):
        u = it.exc_stack[-1]
        u.rethrown = True
        it.uncaught += 1
        raise u
    reg('__cxa_rethrow', cxa_rethrow)
    reg('__cxa_get_exception_ptr', lambda it, a: a[0])
    reg('llvm.eh.typeid.for', lambda it, a: it.typeid_for(a[0]))
    reg('__cxa_atexit', lambda it, a: 0)
    reg('__cxa_guard_acquire', lambda it, a: 1 if it.load(a[0], 1, K_INT) == 0 else 0)
    reg('__cxa_guard_release', lambda it, a: it.store(a[0], 1, 1))
    reg('__cxa_guard_abort', nop)
    def pure_virtual(it, a):
        raise MemoryError_('pure-virtual-call', 'pure virtual function called', it.where())
    reg('__cxa_pure_virtual', pure_virtual)
    def terminate(it, a):
        raise MemoryError_('terminate', 'std::terminate called', it.where())
    reg(['_ZSt9terminatev', '__clang_call_terminate', 'abort'], terminate)
    def exit_(it, a):
        raise ProgramExit(a[0])
    reg(['exit', '_exit'], exit_)
    reg('_ZSt18uncaught_exceptionv', lambda it, a: 1 if it.uncaught else 0)
    reg('_ZSt19uncaught_exceptionsv', lambda it, a: it.uncaught)

    def thrower(ti):
        def h(it, a):
            msg = None
            try:
                if a and type(a[0]) is int and a[0]:
                    msg = it.read_cstring(a[0], 200).decode('latin1')
            except Exception:
                pass
            it.throw_std(ti, msg)
        return h
    reg('_ZSt17__throw_bad_allocv', thrower('_ZTISt9bad_alloc'))
    reg('_ZSt28__throw_bad_array_new_lengthv', thrower('_ZTISt20bad_array_new_length'))
    reg('_ZSt16__throw_bad_castv', thrower('_ZTISt8bad_cast'))
    reg('_ZSt20__throw_length_errorPKc', thrower('_ZTISt12length_error'))
    reg('_ZSt19__throw_logic_errorPKc', thrower('_ZTISt11logic_error'))
    reg('_ZSt20__throw_out_of_rangePKc', thrower('_ZTISt12out_of_range'))
    reg('_ZSt24__throw_out_of_range_fmtPKcz', thrower('_ZTISt12out_of_range'))
    reg('_ZSt24__throw_invalid_argumentPKc', thrower('_ZTISt16invalid_argument'))
    reg('_ZSt21__throw_runtime_errorPKc', thrower('_ZTISt13runtime_error'))
    reg('_ZSt25__throw_bad_function_callv', thrower('_ZTISt17bad_function_call'))
    reg('_ZSt20__throw_system_errori', thrower('_ZTISt12system_error'))
    reg('_ZSt19__throw_regex_errorNSt15regex_constants10error_typeE', thrower('_ZTISt11regex_error'))

    # std::exception family constructors/destructors/what (objects are opaque blobs that carry a message pointer)
    def exc_ctor_str(it, a):
        # std::runtime_error(const std::string&) : remember message
        this, s = a[0], a[1]
        try:
            data = it.load(s, 8, K_PTR); n = it.load(s + 8, 8, K_INT)
            msg = it.read_bytes(data, n) if type(n) is int else b'?'
        except Exception:
            msg = b'?'
        p = it.alloc(len(msg) + 1, 'heap', 'excmsg')
        it.write_bytes(p, msg + b'\0')
        it.store(this + 8, 8, p)
        return None
    reg(['_ZNSt13runtime_errorC2ERKNSt7__cxx1112basic_stringIcSt11char_traitsIcESaIcEEE', '_ZNSt13runtime_errorC1ERKNSt7__cxx1112basic_stringIcSt11char_traitsIcESaIcEEE',
         '_ZNSt11logic_errorC2ERKNSt7__cxx1112basic_stringIcSt11char_traitsIcESaIcEEE', '_ZNSt11logic_errorC1ERKNSt7__cxx1112basic_stringIcSt11char_traitsIcESaIcEEE',
         '_ZNSt16invalid_argumentC1ERKNSt7__cxx1112basic_stringIcSt11char_traitsIcESaIcEEE', '_ZNSt12out_of_rangeC1ERKNSt7__cxx1112basic_stringIcSt11char_traitsIcESaIcEEE'], exc_ctor_str)
    def exc_ctor_cstr(it, a):
        this, s = a[0], a[1]
        msg = it.read_cstring(s)
        p = it.alloc(len(msg) + 1, 'heap', 'excmsg')
        it.write_bytes(p, msg + b'\0')
        it.store(this + 8, 8, p)
        return None
    reg(['_ZNSt13runtime_errorC2EPKc', '_ZNSt13runtime_errorC1EPKc', '_ZNSt11logic_errorC2EPKc', '_ZNSt11logic_errorC1EPKc',
         '_ZNSt16invalid_argumentC1EPKc', '_ZNSt12out_of_rangeC1EPKc', '_ZNSt12length_errorC1EPKc'], exc_ctor_cstr)
    def exc_dtor(it, a):
        try:
            p = it.load(a[0] + 8, 8, K_PTR)
            if type(p) is int and p and it.regions[p >> SHIFT].name == 'excmsg' and it.regions[p >> SHIFT].live:
                it.free_region(p)
                it.store(a[0] + 8, 8, 0)
        except MemoryError_:
            pass
        return None
    reg(['_ZNSt13runtime_errorD2Ev', '_ZNSt13runtime_errorD1Ev', '_ZNSt11logic_errorD2Ev', '_ZNSt11logic_errorD1Ev', '_ZNSt9exceptionD2Ev', '_ZNSt9exceptionD1Ev',
         '_ZNSt16invalid_argumentD1Ev', '_ZNSt12out_of_rangeD1Ev', '_ZNSt12length_errorD1Ev', '_ZNSt9bad_allocD1Ev', '_ZNSt8bad_castD1Ev'], exc_dtor)
    def exc_what(it, a):
        p = it.load(a[0] + 8, 8, K_PTR)
        if type(p) is int and p: return p
        return it.cstring_const(b'std::exception')
    reg(['_ZNKSt13runtime_error4whatEv', '_ZNKSt11logic_error4whatEv', '_ZNKSt9exception4whatEv', '_ZNKSt9bad_alloc4whatEv'], exc_what)

    # std::exception_ptr ----------------------------------------------------------
    def current_exception(it, a):
        # sret: a[0] = exception_ptr* to construct
        u = it.exc_stack[-1] if it.exc_stack else None
        if u is None:
            it.store(a[0], 8, 0)
        else:
            u.refs = getattr(u, 'refs', 0) + 1
            it.store(a[0], 8, u.exc_ptr)
        return None
    reg('_ZSt17current_exceptionv', current_exception)
    def eptr_copy(it, a):
        p = it.load(a[1], 8, K_PTR)
        it.store(a[0], 8, p)
        if p:
            u = it.find_exception(p)
            if u is not None: u.refs = getattr(u, 'refs', 0) + 1
        return None
    reg(['_ZNSt15__exception_ptr13exception_ptrC1ERKS0_', '_ZNSt15__exception_ptr13exception_ptrC2ERKS0_'], eptr_copy)
    def eptr_addref(it, a):
        p = it.load(a[0], 8, K_PTR)
        if p:
            u = it.find_exception(p)
            if u is not None: u.refs = getattr(u, 'refs', 0) + 1
        return None
    reg('_ZNSt15__exception_ptr13exception_ptr9_M_addrefEv', eptr_addref)
    def eptr_release(it, a):
        p = it.load(a[0], 8, K_PTR)
        if p:
            u = it.find_exception(p)
            if u is not None:
                u.refs = getattr(u, 'refs', 0) - 1
                if u.refs <= 0 and u not in it.exc_stack and not getattr(u, 'in_flight', False):
                    it.destroy_exception(u)
        return None
    reg(['_ZNSt15__exception_ptr13exception_ptr10_M_releaseEv', '_ZNSt15__exception_ptr13exception_ptrD1Ev', '_ZNSt15__exception_ptr13exception_ptrD2Ev'], eptr_release)
    def eptr_swap(it, a):
        x = it.load(a[0], 8, K_PTR); y = it.load(a[1], 8, K_PTR)
        it.store(a[0], 8, y); it.store(a[1], 8, x)
        return None
    reg('_ZNSt15__exception_ptr13exception_ptr4swapERS0_', eptr_swap)
    reg('_ZNSt9exceptionD0Ev', lambda it, a: it.free_region(a[0], 'delete (std::exception)'))
    def init_primary_exception(it, a):
        # (object, type_info, destructor): std::make_exception_ptr builds an exception object that is never thrown first
        u = Unwind(a[0], a[1], a[2])
        u.refs = 0
        it.live_exceptions[a[0]] = u
        return a[0]
    reg('__cxa_init_primary_exception', init_primary_exception)
    def eptr_from_raw(it, a):
        it.store(a[0], 8, a[1])
        if a[1]:
            u = it.find_exception(a[1])
            if u is not None: u.refs = getattr(u, 'refs', 0) + 1
        return None
    reg(['_ZNSt15__exception_ptr13exception_ptrC1EPv', '_ZNSt15__exception_ptr13exception_ptrC2EPv'], eptr_from_raw)
    def rethrow_exception(it, a):
        # argument passed indirectly (pointer to exception_ptr)
        p = it.load(a[0], 8, K_PTR)
        u = it.find_exception(p)
        if u is None:
            raise MemoryError_('terminate', 'rethrow_exception(null)', it.where())
        it.uncaught += 1
        it.events.append(('rethrow_exception', it.typeinfo_name(u.tinfo), it.where()))
        u.in_flight = True      # the exception object stays alive while it propagates, whatever happens to the exception_ptr copies
        raise u
    reg('_ZSt17rethrow_exceptionNSt15__exception_ptr13exception_ptrE', rethrow_exception)

    # ---- libstdc++ containers: list hooks -----------------------------------------
    def list_hook(it, a):
        # void _List_node_base::_M_hook(_List_node_base* position): insert this before position
        this, pos = a
        prev = it.load(pos + 8, 8, K_PTR)
        it.store(this, 8, pos)          # next
        it.store(this + 8, 8, prev)     # prev
        it.store(prev, 8, this)
        it.store(pos + 8, 8, this)
        return None
    reg('_ZNSt8__detail15_List_node_base7_M_hookEPS0_', list_hook)
    def list_unhook(it, a):
        this = a[0]
        nxt = it.load(this, 8, K_PTR); prev = it.load(this + 8, 8, K_PTR)
        it.store(prev, 8, nxt)
        it.store(nxt + 8, 8, prev)
        return None
    reg('_ZNSt8__detail15_List_node_base9_M_unhookEv', list_unhook)
    def list_transfer(it, a):
        this, first, last = a
        if this != last:
            ld = lambda p, o: it.load(p + o, 8, K_PTR)
            st = lambda p, o, v: it.store(p + o, 8, v)
            # remove [first,last) from its old position
            st(ld(last, 8), 0, this)
            st(ld(first, 8), 0, last)
            st(ld(this, 8), 0, first)
            tmp = ld(this, 8)
            st(this, 8, ld(last, 8))
            st(last, 8, ld(first, 8))
            st(first, 8, tmp)
        return None
    reg('_ZNSt8__detail15_List_node_base11_M_transferEPS0_S1_', list_transfer)
    def list_swap(it, a):
        raise Unsupported('_List_node_base::swap')
    reg('_ZNSt8__detail15_List_node_base4swapERS0_S1_', list_swap)

    # hash helpers
    def hash_bytes(it, a):
        data = it.read_bytes(a[0], a[1])
        # any deterministic function is a valid model of the (unspecified) hash
        h = a[2] & ((1 << 64) - 1)
        for b in data:
            h = ((h ^ b) * 0x100000001b3) & ((1 << 64) - 1)
        return h
    reg('_ZSt11_Hash_bytesPKvmm', hash_bytes)
    def next_bkt(it, a):
        # _Prime_rehash_policy::_M_next_bkt(size_t) const
        this, n = a
        primes = [2, 3, 5, 7, 11, 13, 17, 19, 23, 29, 31, 37, 41, 43, 47, 53, 59, 61, 67, 71, 73, 79, 83, 89, 97, 103, 109, 113, 127, 137, 139, 149, 157, 167, 179, 193, 199, 211, 227, 241, 257, 277, 293, 313, 337, 359, 383, 409, 439, 467, 503, 541, 577, 619, 661, 709, 761, 823, 887, 953, 1031, 1109, 1193, 1289, 1381, 1493, 1613, 1741, 1879, 2029, 2179, 2357, 2549, 2753, 2971, 3209, 3469, 3739, 4027, 4349, 4703, 5087, 5503, 5953, 6427, 6949, 7517, 8123, 8783, 9497, 10273]
        p = next((x for x in primes if x >= n), None)
        if p is None: raise Unsupported('hash table too large')
        mlf = it.load(this, 4, 2)  # float max_load_factor
        it.store(this + 8, 8, int(math.ceil(p * mlf)))
        return p
    reg('_ZNKSt8__detail20_Prime_rehash_policy11_M_next_bktEm', next_bkt)
    def need_rehash(it, a):
        # sret? returns pair<bool,size_t> in registers {i8/i1, i64}
        this, n_bkt, n_elt, n_ins = a[-4:]
        next_resize = it.load(this + 8, 8, K_INT)
        mlf = it.load(this, 4, 2)
        if n_elt + n_ins > next_resize:
            min_bkts = max(n_elt + n_ins, 11 if next_resize == 0 else 0) / mlf
            if min_bkts >= n_bkt:
                growth = 2
                nb = next_bkt(it, [this, max(int(math.floor(min_bkts)) + 1, n_bkt * growth)])
                return [1, nb]
            it.store(this + 8, 8, int(math.floor(n_bkt * mlf)))
            return [0, 0]
        return [0, 0]
    reg('_ZNKSt8__detail20_Prime_rehash_policy14_M_need_rehashEmmm', need_rehash)

    # ---- OpenMP runtime (sequential semantics) --------------------------------------
    def kmpc_fork_call(it, a):
        loc, argc, micro = a[0], a[1], a[2]
        rest = a[3:3 + argc]
        gtid = it.alloc(4, 'stack', 'gtid'); it.store(gtid, 4, 0)
        btid = it.alloc(4, 'stack', 'btid'); it.store(btid, 4, 0)
        it.omp_depth = getattr(it, 'omp_depth', 0) + 1
        try:
            if getattr(it, 'omp_hook', None) is not None:
                it.omp_hook(it, micro, [gtid, btid] + list(rest))
            else:
                it.call_addr(micro, [gtid, btid] + list(rest))
        finally:
            it.omp_depth -= 1
            it.regions[gtid >> SHIFT].live = False
            it.regions[btid >> SHIFT].live = False
        return None
    reg('__kmpc_fork_call', kmpc_fork_call)
    def static_init(it, a):
        # (loc, gtid, schedtype, plastiter, plower, pupper, pstride, incr, chunk): single thread keeps the whole range
        hook = getattr(it, 'omp_static_init_hook', None)
        if hook is not None:
            return hook(it, a)
        it.store(a[3], 4, 1)
        return None
    reg(['__kmpc_for_static_init_4', '__kmpc_for_static_init_4u', '__kmpc_for_static_init_8', '__kmpc_for_static_init_8u'], static_init)
    reg(['__kmpc_for_static_fini', '__kmpc_barrier', '__kmpc_push_num_threads', '__kmpc_flush', '__kmpc_end_single', '__kmpc_end_master'], nop)
    reg(['__kmpc_single', '__kmpc_master'], lambda it, a: 1)
    reg('__kmpc_global_thread_num', lambda it, a: 0)
    def crit(it, a):
        it.in_critical = getattr(it, 'in_critical', 0) + 1
    def end_crit(it, a):
        it.in_critical -= 1
    reg('__kmpc_critical', crit); reg('__kmpc_end_critical', end_crit)
    def dispatch_init(it, a):
        # dynamic schedule: (loc, gtid, sched, lb, ub, st, chunk)
        it.omp_dispatch = [a[3], a[4], a[5], False]
    reg(['__kmpc_dispatch_init_4', '__kmpc_dispatch_init_4u', '__kmpc_dispatch_init_8', '__kmpc_dispatch_init_8u'], dispatch_init)
    def dispatch_next(bytes_):
        def h(it, a):
            # (loc, gtid, p_last, p_lb, p_ub, p_st)
            d = it.omp_dispatch
            if d[3]: return 0
            d[3] = True
            it.store(a[2], 4, 1); it.store(a[3], bytes_, d[0]); it.store(a[4], bytes_, d[1]); it.store(a[5], bytes_, d[2])
            return 1
        return h
    reg(['__kmpc_dispatch_next_4', '__kmpc_dispatch_next_4u'], dispatch_next(4))
    reg(['__kmpc_dispatch_next_8', '__kmpc_dispatch_next_8u'], dispatch_next(8))
    reg(['omp_init_lock', 'omp_destroy_lock'], nop)
    def set_lock(it, a):
        it.locks_held = getattr(it, 'locks_held', [])
        it.locks_held.append(a[0])
    def unset_lock(it, a):
        if a[0] in getattr(it, 'locks_held', []): it.locks_held.remove(a[0])
    reg('omp_set_lock', set_lock); reg('omp_unset_lock', unset_lock)
    reg(['omp_get_thread_num'], lambda it, a: 0)
    reg(['omp_get_num_threads', 'omp_get_max_threads', 'omp_get_num_procs'], lambda it, a: 1)
    reg(['omp_set_num_threads', 'omp_set_dynamic'], nop)
    reg('omp_in_parallel', lambda it, a: 1 if getattr(it, 'omp_depth', 0) else 0)

    # ---- I/O: empty bodies --------------------------------------------------------------
    ret_first = lambda it, a: a[0]
    reg(['_ZSt16__ostream_insertIcSt11char_traitsIcEERSt13basic_ostreamIT_T0_ES6_PKS3_l', '_ZNSo9_M_insertIdEERSoT_', '_ZNSo9_M_insertImEERSoT_',
         '_ZNSo9_M_insertIlEERSoT_', '_ZNSo9_M_insertIbEERSoT_', '_ZNSolsEi', '_ZNSo3putEc', '_ZNSo5flushEv', '_ZNSo9_M_insertIPKvEERSoT_',
         '_ZNSolsEj', '_ZNSolsEs', '_ZNSolsEt', '_ZNSolsEd', '_ZNSolsEf', '_ZNSo9_M_insertIeEERSoT_', '_ZNSo9_M_insertIxEERSoT_', '_ZNSo9_M_insertIyEERSoT_',
         '_ZStlsISt11char_traitsIcEERSt13basic_ostreamIcT_ES5_PKc', '_ZNSo5writeEPKcl', '_ZSt4endlIcSt11char_traitsIcEERSt13basic_ostreamIT_T0_ES6_'], ret_first)
    reg(['_ZNSt8ios_base4InitC1Ev', '_ZNSt8ios_base4InitD1Ev', '_ZNKSt5ctypeIcE13_M_widen_initEv', '_ZNSt9basic_iosIcSt11char_traitsIcEE5clearESt12_Ios_Iostate'], nop)
    reg(['printf', 'puts', 'putchar', 'fflush', 'fputs', 'fprintf', 'fputc', 'fwrite'], lambda it, a: 0)

    # time --------------------------------------------------------------------------------------
    reg(['_ZNSt6chrono3_V212system_clock3nowEv', '_ZNSt6chrono3_V212steady_clock3nowEv'], lambda it, a: getattr(it, 'clock_value', 1_700_000_000_000_000_000))
    reg(['time'], lambda it, a: 1_700_000_000)
    reg(['clock'], lambda it, a: 0)

def attach_helpers(cls):
    def throw_std(self, tiname, msg=None):
        ti = self.addr_of_global(tiname) if tiname in self.m.globals_src else self.std_typeinfo(tiname)
        p = self.alloc(16, 'heap', 'exception(std)')
        self.store(p, 8, 0)
        self.store(p + 8, 8, 0)
        self.uncaught += 1
        self.events.append(('throw', tiname + ((': ' + msg) if msg else ''), self.where()))
        u = Unwind(p, ti, 0)
        self.live_exceptions[p] = u
        raise u
    cls.throw_std = throw_std

    def std_typeinfo(self, name):
        a = self.global_addr.get(name)
        if a is None:
            a = self.alloc(4096, 'extern', name)
            self.global_addr[name] = a
        return a
    cls.std_typeinfo = std_typeinfo

    def find_exception(self, ptr):
        for u in reversed(self.exc_stack):
            if u is not None and u.exc_ptr == ptr: return u
        u = self.live_exceptions.get(ptr) if hasattr(self, 'live_exceptions') else None
        return u
    cls.find_exception = find_exception

    def destroy_exception(self, u):
        if getattr(u, 'destroyed', False): return
        u.destroyed = True
        if u.dtor:
            self.call_addr(u.dtor, [u.exc_ptr])
        r = self.regions[u.exc_ptr >> SHIFT]
        if r.live:
            self.free_region(u.exc_ptr)
        if hasattr(self, 'live_exceptions'):
            self.live_exceptions.pop(u.exc_ptr, None)
    cls.destroy_exception = destroy_exception

    def cstring_const(self, b):
        cache = self.__dict__.setdefault('_cstr_cache', {})
        a = cache.get(b)
        if a is None:
            a = self.alloc(len(b) + 1, 'global', 'cstr')
            self.write_bytes(a, b + b'\0')
            cache[b] = a
        return a
    cls.cstring_const = cstring_const

    def sym_fabs(self, x):
        if self.pathctl is not None:
            r = self.pathctl.sign_of(x, self)
            if r > 0: return x
            if r < 0: return S.neg(x)
        return S.fabs(x)
    cls.sym_fabs = sym_fabs


# ---------------------------------------------------------------------------------------------------------------
# libstdc++ std::string (SSO layout {char* p; size_t len; union{char buf[16]; size_t cap;}}) out-of-line members
# ---------------------------------------------------------------------------------------------------------------
def install_strings(it):
    E = it.externals
    S_ = '_ZNSt7__cxx1112basic_stringIcSt11char_traitsIcESaIcEE'
    SC = '_ZNKSt7__cxx1112basic_stringIcSt11char_traitsIcESaIcEE'
    def reg(name, f):
        def wrapped(interp, args, _f=f, _n=name):
            interp.used_models.add(_n)
            return _f(interp, args)
        E[name] = wrapped
    def s_get(it, this):
        p = it.load(this, 8, K_PTR); n = it.load(this + 8, 8, K_INT)
        if type(n) is not int: n = it.concretize_int(n)
        return p, n
    def s_cap(it, this):
        p = it.load(this, 8, K_PTR)
        return 15 if p == this + 16 else it.load(this + 16, 8, K_INT)
    def s_bytes(it, this):
        p, n = s_get(it, this)
        return [it.load(p + k, 1, K_INT) for k in range(n)]
    def s_set(it, this, data):
        """data: list of byte values (ints or symbolic)"""
        n = len(data)
        p = it.load(this, 8, K_PTR)
        cap = s_cap(it, this)
        if n > cap:
            newcap = max(n, 2 * cap)
            q = it.alloc(newcap + 1, 'heap', 'string(%d)' % (newcap + 1))
            if p != this + 16:
                it.free_region(p, 'string buffer')
            it.store(this, 8, q); it.store(this + 16, 8, newcap)
            p = q
        for k, b in enumerate(data):
            it.store(p + k, 1, b)
        it.store(p + n, 1, 0)
        it.store(this + 8, 8, n)
    it.str_get = lambda this: bytes(b if type(b) is int else 63 for b in s_bytes(it, this))
    it.str_set = lambda this, b: s_set(it, this, list(b))
    def str_init(this, b):
        it.store(this, 8, this + 16); it.store(this + 8, 8, 0); it.store(this + 16, 1, 0)
        s_set(it, this, list(b))
    it.str_init = str_init

    def m_create(it, a):
        this, pcap, old = a
        cap = it.load(pcap, 8, K_INT)
        if type(cap) is not int: cap = it.concretize_int(cap)
        if cap > (1 << 62): it.throw_std('_ZTISt12length_error', 'basic_string::_M_create')
        if cap > old and cap < 2 * old:
            cap = 2 * old
            it.store(pcap, 8, cap)
        return it.alloc(cap + 1, 'heap', 'string(%d)' % (cap + 1))
    reg(S_ + '9_M_createERmm', m_create)
    def m_append(it, a):
        this, s, n = a
        if type(n) is not int: n = it.concretize_int(n)
        extra = [it.load(s + k, 1, K_INT) for k in range(n)]
        s_set(it, this, s_bytes(it, this) + extra)
        return this
    reg(S_ + '9_M_appendEPKcm', m_append)
    reg(S_ + '6appendEPKcm', m_append)
    reg(S_ + '6appendEPKc', lambda it, a: m_append(it, [a[0], a[1], len(it.read_cstring(a[1]))]))
    def m_assign(it, a):
        this, other = a
        if this != other: s_set(it, this, s_bytes(it, other))
        return None
    reg(S_ + '9_M_assignERKS4_', m_assign)
    def m_replace(it, a):
        this, pos, len1, s, len2 = a
        cur = s_bytes(it, this)
        new = [it.load(s + k, 1, K_INT) for k in range(len2)]
        s_set(it, this, cur[:pos] + new + cur[pos + len1:])
        return this
    reg(S_ + '10_M_replaceEmmPKcm', m_replace)
    def m_replace_aux(it, a):
        this, pos, n1, n2, c = a
        cur = s_bytes(it, this)
        s_set(it, this, cur[:pos] + [c & 0xFF] * n2 + cur[pos + n1:])
        return this
    reg(S_ + '14_M_replace_auxEmmmc', m_replace_aux)
    def m_mutate(it, a):
        this, pos, len1, s, len2 = a
        cur = s_bytes(it, this)
        new = [it.load(s + k, 1, K_INT) for k in range(len2)] if s else [0] * len2
        s_set(it, this, cur[:pos] + new + cur[pos + len1:])
        return None
    reg(S_ + '9_M_mutateEmmPKcm', m_mutate)
    def m_erase(it, a):
        this, pos, n = a
        cur = s_bytes(it, this)
        s_set(it, this, cur[:pos] + cur[pos + n:])
        return None
    reg(S_ + '8_M_eraseEmm', m_erase)
    def reserve(it, a):
        this, n = a[0], (a[1] if len(a) > 1 else 0)
        cur = s_bytes(it, this)
        if n > s_cap(it, this):
            q = it.alloc(n + 1, 'heap', 'string(%d)' % (n + 1))
            p = it.load(this, 8, K_PTR)
            if p != this + 16: it.free_region(p, 'string buffer')
            it.store(this, 8, q); it.store(this + 16, 8, n)
            s_set(it, this, cur)
        return None
    reg(S_ + '7reserveEm', reserve)
    reg(S_ + '7reserveEv', lambda it, a: None)
    def m_construct_fill(it, a):
        this, n, c = a
        n = it._known(n)
        if type(n) is not int:
            w = it.pathctl.witness_value(n) if (getattr(it, 'format_witness', False) and it.pathctl is not None and type(n) is Node) else None
            n = w if w is not None else it.concretize_int(n)
        it.store(this, 8, this + 16); it.store(this + 8, 8, 0)
        s_set(it, this, [c & 0xFF] * n)
        return None
    reg(S_ + '12_M_constructEmc', m_construct_fill)
    def resize(it, a):
        this, n, c = a[0], a[1], (a[2] if len(a) > 2 else 0)
        cur = s_bytes(it, this)
        s_set(it, this, (cur + [c & 0xFF] * n)[:n])
        return None
    reg(S_ + '6resizeEmc', resize)
    def m_dispose(it, a):
        this = a[0]
        p = it.load(this, 8, K_PTR)
        if p != this + 16: it.free_region(p, 'string buffer')
        return None
    reg(S_ + '10_M_disposeEv', m_dispose)
    reg(S_ + 'D1Ev', m_dispose); reg(S_ + 'D2Ev', m_dispose)
    def copy_ctor(it, a):
        this, other = a
        it.store(this, 8, this + 16); it.store(this + 8, 8, 0)
        s_set(it, this, s_bytes(it, other))
        return None
    reg(S_ + 'C1ERKS4_', copy_ctor); reg(S_ + 'C2ERKS4_', copy_ctor)
    def ctor_cstr(it, a):
        this, s = a[0], a[1]
        it.store(this, 8, this + 16); it.store(this + 8, 8, 0)
        s_set(it, this, list(it.read_cstring(s)))
        return None
    reg(S_ + 'C1EPKcRKS3_', ctor_cstr); reg(S_ + 'C2EPKcRKS3_', ctor_cstr)
    def compare_cstr(it, a):
        x = bytes(b if type(b) is int else 63 for b in s_bytes(it, a[0])); y = it.read_cstring(a[1])
        return 0 if x == y else ((1 if x > y else -1) & 0xFFFFFFFF)
    reg(SC + '7compareEPKc', compare_cstr)
    def compare_str(it, a):
        x = bytes(b if type(b) is int else 63 for b in s_bytes(it, a[0])); y = bytes(b if type(b) is int else 63 for b in s_bytes(it, a[1]))
        return 0 if x == y else ((1 if x > y else -1) & 0xFFFFFFFF)
    reg(SC + '7compareERKS4_', compare_str)
    def find_cstr(it, a):
        this, s, pos, n = a
        x = bytes(b if type(b) is int else 63 for b in s_bytes(it, this)); y = it.read_bytes(s, n)
        r = x.find(y, pos)
        return r if r >= 0 else (1 << 64) - 1
    reg(SC + '4findEPKcmm', find_cstr)
    def find_chr(it, a):
        this, c, pos = a
        x = bytes(b if type(b) is int else 63 for b in s_bytes(it, this))
        r = x.find(bytes([c & 0xFF]), pos)
        return r if r >= 0 else (1 << 64) - 1
    reg(SC + '4findEcm', find_chr)
    def substr(it, a):
        sret, this, pos, n = a
        cur = s_bytes(it, this)
        if pos > len(cur): it.throw_std('_ZTISt12out_of_range', 'basic_string::substr')
        it.store(sret, 8, sret + 16); it.store(sret + 8, 8, 0)
        s_set(it, sret, cur[pos:pos + n] if n < (1 << 63) else cur[pos:])
        return None
    reg(SC + '6substrEmm', substr)
    def swap(it, a):
        x = s_bytes(it, a[0]); y = s_bytes(it, a[1])
        s_set(it, a[0], y); s_set(it, a[1], x)
        return None
    reg(S_ + '4swapERS4_', swap)
    # vsnprintf-based std::to_string(double) etc.
    def xx_to_string(it, a):
        # __gnu_cxx::__to_xstring<std::string,char>(vsnprintf, n, fmt, ...): sret, fn, n, fmt, varargs
        sret, fn, n, fmt = a[0], a[1], a[2], a[3]
        f = it.read_cstring(fmt).decode()
        vals = a[4:]
        try:
            txt = f % tuple(v if type(v) in (int, float) else 0 for v in vals)
        except Exception:
            txt = '?'
        it.str_init(sret, txt.encode())
        return None
    reg('_ZN9__gnu_cxx12__to_xstringINSt7__cxx1112basic_stringIcSt11char_traitsIcESaIcEEEcEET_PFiPT0_mPKS8_P13__va_list_tagEmSB_z', xx_to_string)
