"""Build step of every check: lower /repo's *current working tree* plus the harness
translation units to LLVM IR (clang-14), link one module per configuration, and build the
native replay binary (g++, baseline flags) from the same sources.

Artifacts go to /verif/_work/cache/<hash of sources+flags>/ ; the hash covers every file
under /repo/{src,include,lib/tinyxml2,lib/delaunator} and the harness sources, so any edit
to the repository produces a new encoding.  Nothing is read from /repo/_build.
"""
import fcntl
import hashlib
import os
import shutil
import subprocess
import sys
import time
from concurrent.futures import ThreadPoolExecutor

REPO = os.environ.get('VERIF_REPO', '/repo')
VERIF = os.path.dirname(os.path.dirname(os.path.abspath(__file__)))
WORK = os.environ.get('VERIF_WORK', os.path.join(VERIF, '_work'))
CACHE = os.path.join(WORK, 'cache')
LLVM_LINK = '/usr/lib/llvm-14/bin/llvm-link'
CLANG = 'clang++-14'
GXX = 'g++'

CLANG_FLAGS = ['-std=c++17', '-O1', '-DNDEBUG', '-DSIMUCELL3D_VERIF', '-fopenmp', '-fsized-deallocation', '-fno-access-control',
               '-ffp-contract=off', '-fno-vectorize', '-fno-slp-vectorize', '-fno-unroll-loops', '-fno-math-errno', '-w',
               '-DPROJECT_SOURCE_DIR="%s"' % REPO]
GXX_FLAGS = ['-std=c++17', '-O2', '-DNDEBUG', '-fopenmp', '-fno-access-control', '-ffp-contract=off', '-w',
             '-DPROJECT_SOURCE_DIR="%s"' % REPO]

def include_flags():
    inc = []
    for root, dirs, files in os.walk(os.path.join(REPO, 'include')):
        inc.append('-I' + root)
    inc.append('-I' + os.path.join(REPO, 'lib', 'tinyxml2'))
    inc.append('-I' + os.path.join(REPO, 'lib', 'delaunator', 'include'))
    inc.append('-I' + os.path.join(VERIF, 'harness'))
    return inc

def repo_sources():
    out = []
    for root, dirs, files in os.walk(os.path.join(REPO, 'src')):
        if 'python_bindings' in root:
            continue
        for f in sorted(files):
            if f.endswith('.cpp'):
                out.append(os.path.join(root, f))
    return sorted(out)

def tree_hash(extra_files=(), extra=''):
    h = hashlib.sha256()
    roots = [os.path.join(REPO, 'src'), os.path.join(REPO, 'include'), os.path.join(REPO, 'lib', 'tinyxml2'), os.path.join(REPO, 'lib', 'delaunator', 'include')]
    files = []
    for r in roots:
        for root, dirs, fs in os.walk(r):
            for f in fs:
                files.append(os.path.join(root, f))
    files += list(extra_files)
    for f in sorted(files):
        h.update(f.encode())
        try:
            with open(f, 'rb') as fh:
                h.update(fh.read())
        except OSError:
            h.update(b'<unreadable>')
    h.update(extra.encode())
    return h.hexdigest()[:20]

def run(cmd, **kw):
    p = subprocess.run(cmd, stdout=subprocess.PIPE, stderr=subprocess.STDOUT, text=True, **kw)
    if p.returncode != 0:
        raise BuildError('command failed: %s\n%s' % (' '.join(cmd), p.stdout[-4000:]))
    return p.stdout

class BuildError(Exception):
    pass

class Lock:
    def __init__(self, path):
        self.path = path
    def __enter__(self):
        os.makedirs(os.path.dirname(self.path), exist_ok=True)
        self.f = open(self.path, 'w')
        fcntl.flock(self.f, fcntl.LOCK_EX)
    def __exit__(self, *a):
        fcntl.flock(self.f, fcntl.LOCK_UN)
        self.f.close()

def config_defs(contact=None, dynamic=None, polar=None):
    d = []
    if contact is not None: d.append('-DSIMUCELL3D_VERIF_CONTACT_MODEL_INDEX=%d' % contact)
    if dynamic is not None: d.append('-DSIMUCELL3D_VERIF_DYNAMIC_MODEL_INDEX=%d' % dynamic)
    if polar is not None: d.append('-DSIMUCELL3D_VERIF_POLARIZATION_MODE_INDEX=%d' % polar)
    return d

def harness_files(names):
    return [os.path.join(VERIF, 'harness', n) for n in names]

def prune_cache(keep=12):
    try:
        ds = [os.path.join(CACHE, d) for d in os.listdir(CACHE) if not d.endswith('.lock')]
        ds.sort(key=lambda p: os.path.getmtime(p))
        for d in ds[:-keep]:
            shutil.rmtree(d, ignore_errors=True)
            try: os.remove(d + '.lock')
            except OSError: pass
    except OSError:
        pass

def build_ir(harness, contact=None, dynamic=None, polar=None, sources=None, extra_flags=()):
    """returns path of the linked .ll module for the given harness file names (relative to /verif/harness)"""
    hfiles = harness_files(harness) + [os.path.join(VERIF, 'harness', 'common.hpp'), os.path.join(VERIF, 'harness', 'shims.cpp')]
    defs = config_defs(contact, dynamic, polar) + list(extra_flags)
    key = tree_hash(hfiles, 'ir' + ' '.join(CLANG_FLAGS + defs) + repr(sources))
    d = os.path.join(CACHE, 'ir_' + key)
    out = os.path.join(d, 'module.ll')
    with Lock(d + '.lock'):
        if os.path.exists(out):
            os.utime(d)
            return out
        tmp = d + '.tmp%d' % os.getpid()
        shutil.rmtree(tmp, ignore_errors=True)
        os.makedirs(tmp)
        srcs = (repo_sources() if sources is None else [os.path.join(REPO, s) for s in sources]) + harness_files(harness) + [os.path.join(VERIF, 'harness', 'shims.cpp')]
        inc = include_flags()
        def one(src):
            o = os.path.join(tmp, src.replace('/', '_').replace('.cpp', '.ll'))
            run([CLANG] + CLANG_FLAGS + defs + inc + ['-S', '-emit-llvm', src, '-o', o])
            return o
        with ThreadPoolExecutor(16) as ex:
            objs = list(ex.map(one, srcs))
        run([LLVM_LINK, '-S', '-o', os.path.join(tmp, 'module.ll')] + objs)
        for o in objs:
            os.remove(o)
        os.rename(tmp, d)
        prune_cache()
        return out

def build_native(harness, contact=None, dynamic=None, polar=None, extra_flags=(), opt=None):
    """returns path of the native replay binary (g++ -O2, baseline flags) for the harness files"""
    hfiles = harness_files(harness) + [os.path.join(VERIF, 'harness', 'common.hpp'), os.path.join(VERIF, 'harness', 'native_main.cpp')]
    defs = config_defs(contact, dynamic, polar) + list(extra_flags)
    # the guard is needed natively only for the configuration overrides
    gdefs = (['-DSIMUCELL3D_VERIF'] if config_defs(contact, dynamic, polar) else []) + defs + ['-DIRSYM_NATIVE']
    if opt: gdefs = gdefs + [opt, '-g']
    key = tree_hash(hfiles, 'native' + ' '.join(GXX_FLAGS + gdefs))
    d = os.path.join(CACHE, 'nat_' + key)
    out = os.path.join(d, 'replay')
    with Lock(d + '.lock'):
        if os.path.exists(out):
            os.utime(d)
            return out
        tmp = d + '.tmp%d' % os.getpid()
        shutil.rmtree(tmp, ignore_errors=True)
        os.makedirs(tmp)
        # library of repo objects, shared between harnesses with the same configuration
        lib = build_native_lib(contact, dynamic, polar, opt)
        inc = include_flags()
        srcs = harness_files(harness) + [os.path.join(VERIF, 'harness', 'native_main.cpp')]
        def one(src):
            o = os.path.join(tmp, os.path.basename(src).replace('.cpp', '.o'))
            run([GXX] + GXX_FLAGS + gdefs + inc + ['-c', src, '-o', o])
            return o
        with ThreadPoolExecutor(16) as ex:
            objs = list(ex.map(one, srcs))
        run([GXX, '-fopenmp'] + ([opt] if opt and opt.startswith('-fsanitize') else []) + ['-o', os.path.join(tmp, 'replay')] + objs + [lib, '-lstdc++fs'])
        for o in objs: os.remove(o)
        os.rename(tmp, d)
        prune_cache()
        return out

def build_native_lib(contact=None, dynamic=None, polar=None, opt=None):
    defs = config_defs(contact, dynamic, polar)
    gdefs = (['-DSIMUCELL3D_VERIF'] if defs else []) + defs + ([opt, '-g'] if opt else [])
    key = tree_hash([], 'nativelib' + ' '.join(GXX_FLAGS + gdefs))
    d = os.path.join(CACHE, 'lib_' + key)
    out = os.path.join(d, 'librepo.a')
    with Lock(d + '.lock'):
        if os.path.exists(out):
            os.utime(d)
            return out
        tmp = d + '.tmp%d' % os.getpid()
        shutil.rmtree(tmp, ignore_errors=True)
        os.makedirs(tmp)
        inc = include_flags()
        srcs = repo_sources() + [os.path.join(REPO, 'lib', 'tinyxml2', 'tinyxml2.cpp')]
        def one(src):
            o = os.path.join(tmp, src.replace('/', '_').replace('.cpp', '.o'))
            run([GXX] + GXX_FLAGS + gdefs + inc + ['-c', src, '-o', o])
            return o
        with ThreadPoolExecutor(16) as ex:
            objs = list(ex.map(one, srcs))
        run(['ar', 'rcs', os.path.join(tmp, 'librepo.a')] + objs)
        for o in objs: os.remove(o)
        os.rename(tmp, d)
        return out

if __name__ == '__main__':
    t = time.time()
    print(build_ir(sys.argv[1:]))
    print(build_native(sys.argv[1:]))
    print('%.1fs' % (time.time() - t))
