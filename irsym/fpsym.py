"""Bit-precise symbolic doubles for irsym (mode 'fp'): nodes of sort 'F' whose operations are IEEE-754
binary64 operations in exactly the order the compiler emitted them.  No algebraic simplification is
applied (only folding of fully concrete operands with Python floats = IEEE doubles).  Obligations over
these nodes are printed as straight-line C and decided by cbmc (irsym/cemit.py)."""
import math
import struct

from . import sym as S

Node = S.Node
mk = S.mk

def fconst(f):
    return mk('f_const', (struct.pack('<d', f),), 'F')

def fval(n):
    return struct.unpack('<d', n.args[0])[0] if n.op == 'f_const' else None

def fvar(name):
    return mk('f_var', (name,), 'F')

def F(x):
    if type(x) is Node: return x
    return fconst(float(x))

def _bin(op):
    def f(a, b):
        return mk(op, (F(a), F(b)), 'F')
    return f
fadd = _bin('f_add'); fsub = _bin('f_sub'); fmul = _bin('f_mul'); fdiv = _bin('f_div')

def fneg(a): return mk('f_neg', (F(a),), 'F')
def fsqrt(a): return mk('f_sqrt', (F(a),), 'F')
def ffloor(a): return mk('f_floor', (F(a),), 'F')
def fceil(a): return mk('f_ceil', (F(a),), 'F')
def ffabs(a): return mk('f_abs', (F(a),), 'F')

def fcmp(pred, a, b):
    """pred: LLVM fcmp predicate (oeq, olt, ... une)"""
    return mk('f_cmp', (pred, F(a), F(b)), 'B')

def fite(c, a, b):
    return mk('f_ite', (c, F(a), F(b)), 'F')

def f2u(a, bits, signed=False):
    n = mk('f_toint', (F(a), bits, signed), 'I', bits)
    n.lo = 0; n.hi = (1 << bits) - 1
    return n

def u2f(a, signed=False):
    return mk('f_fromint', (a, signed), 'F')
