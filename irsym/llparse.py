"""Lazy parser for LLVM-14 textual IR (typed pointers).

The module text is split into top-level entities by a fast line scan; type
definitions are parsed eagerly, globals and function bodies on first use.
Only what clang-14 -O1 emits for this code base is supported; anything else
raises ParseError (fail closed).
"""
import re
import struct

class ParseError(Exception):
    pass

# ----------------------------------------------------------------------------
# types
# ----------------------------------------------------------------------------
class Type:
    __slots__ = ('kind', 'bits', 'elem', 'count', 'fields', 'packed', 'name', '_size', '_align', '_offsets', 'ret', 'params', 'vararg')
    def __init__(self, kind, **kw):
        self.kind = kind
        self.bits = kw.get('bits', 0)
        self.elem = kw.get('elem')
        self.count = kw.get('count', 0)
        self.fields = kw.get('fields')
        self.packed = kw.get('packed', False)
        self.name = kw.get('name')
        self.ret = kw.get('ret')
        self.params = kw.get('params')
        self.vararg = kw.get('vararg', False)
        self._size = None
        self._align = None
        self._offsets = None

    def __repr__(self):
        k = self.kind
        if k == 'int': return 'i%d' % self.bits
        if k == 'ptr': return '%r*' % (self.elem,)
        if k == 'array': return '[%d x %r]' % (self.count, self.elem)
        if k == 'struct': return '%%%s' % self.name if self.name else '{%s}' % ', '.join(map(repr, self.fields or []))
        return k

    def size(self):
        s = self._size
        if s is None:
            s = self._compute_size()
            self._size = s
        return s

    def align(self):
        a = self._align
        if a is None:
            a = self._compute_align()
            self._align = a
        return a

    def _compute_align(self):
        k = self.kind
        if k == 'int':
            b = self.bits
            if b <= 8: return 1
            if b <= 16: return 2
            if b <= 32: return 4
            if b <= 64: return 8
            return 16
        if k == 'double' or k == 'ptr': return 8
        if k == 'float': return 4
        if k == 'x86_fp80': return 16
        if k == 'array' or k == 'vector': return self.elem.align()
        if k == 'struct':
            if self.packed or not self.fields: return 1
            if self.fields is None: raise ParseError('opaque struct has no layout: %s' % self.name)
            return max(f.align() for f in self.fields)
        if k == 'func' or k == 'void' or k == 'label' or k == 'metadata': return 1
        raise ParseError('align of ' + k)

    def _compute_size(self):
        k = self.kind
        if k == 'int': return (self.bits + 7) // 8 if self.bits not in (1,) else 1
        if k == 'double' or k == 'ptr': return 8
        if k == 'float': return 4
        if k == 'x86_fp80': return 16
        if k == 'array' or k == 'vector': return self.count * self.elem.size()
        if k == 'struct':
            if self.fields is None: raise ParseError('opaque struct has no layout: %s' % self.name)
            off = 0
            offs = []
            for f in self.fields:
                if not self.packed:
                    a = f.align()
                    off = (off + a - 1) // a * a
                offs.append(off)
                off += f.size()
            if not self.packed and self.fields:
                a = self.align()
                off = (off + a - 1) // a * a
            self._offsets = offs
            return off
        if k == 'void' or k == 'func': return 0
        raise ParseError('size of ' + k)

    def offsets(self):
        if self._offsets is None:
            self.size()
        return self._offsets

VOID = Type('void')
DOUBLE = Type('double')
FLOAT = Type('float')
LABEL = Type('label')
METADATA = Type('metadata')
FP80 = Type('x86_fp80')
_INTS = {}
def IntT(b):
    t = _INTS.get(b)
    if t is None:
        t = _INTS[b] = Type('int', bits=b)
    return t
I1, I8, I32, I64 = IntT(1), IntT(8), IntT(32), IntT(64)
def PtrT(e):
    return Type('ptr', elem=e)

# ----------------------------------------------------------------------------
# tokenizer
# ----------------------------------------------------------------------------
_TOK = re.compile(r'''
    \s+ |
    ;[^\n]* |
    (?P<str>c?"(?:[^"\\]|\\.)*") |
    (?P<local>%(?:"(?:[^"\\]|\\.)*"|[-a-zA-Z$._0-9]+)) |
    (?P<glob>@(?:"(?:[^"\\]|\\.)*"|[-a-zA-Z$._0-9]+)) |
    (?P<meta>!(?:[-a-zA-Z$._0-9]+|"(?:[^"\\]|\\.)*")?) |
    (?P<attr>\#\d+) |
    (?P<comdat>\$(?:"(?:[^"\\]|\\.)*"|[-a-zA-Z$._0-9]+)) |
    (?P<num>-?(?:0x[KLMHR]?[0-9A-Fa-f]+|\d+\.\d*(?:[eE][-+]?\d+)?|\d+)) |
    (?P<word>[a-zA-Z_][a-zA-Z0-9_.]*) |
    (?P<dots>\.\.\.) |
    (?P<punct><\{|\}>|[=,(){}\[\]<>*:|])
''', re.X)

def tokenize(s):
    out = []
    pos = 0
    n = len(s)
    m = _TOK.match
    while pos < n:
        mo = m(s, pos)
        if mo is None:
            raise ParseError('cannot tokenize at: %r' % s[pos:pos + 60])
        k = mo.lastgroup
        if k is not None:
            out.append((k, mo.group(k)))
        pos = mo.end()
    return out

def unquote(name):
    # %"foo bar" -> foo bar ; handles \xx escapes
    if len(name) > 1 and name[1] == '"':
        body = name[2:-1]
        body = re.sub(r'\\([0-9A-Fa-f]{2})', lambda m: chr(int(m.group(1), 16)), body)
        return body
    return name[1:]

def cstring_bytes(tok):
    # c"...\00"
    body = tok[2:-1]
    out = bytearray()
    i = 0
    n = len(body)
    while i < n:
        ch = body[i]
        if ch == '\\':
            if body[i + 1] == '\\':
                out.append(92); i += 2
            else:
                out.append(int(body[i + 1:i + 3], 16)); i += 3
        else:
            out.append(ord(ch)); i += 1
    return bytes(out)

# ----------------------------------------------------------------------------
# constants (module-level values)
# ----------------------------------------------------------------------------
class Const:
    """Parsed constant; kinds: int, fp, null, undef, zero, global, struct, array, cstr, expr"""
    __slots__ = ('kind', 'type', 'val', 'args')
    def __init__(self, kind, type, val=None, args=None):
        self.kind = kind
        self.type = type
        self.val = val
        self.args = args
    def __repr__(self):
        return 'Const(%s,%r,%r)' % (self.kind, self.type, self.val)

class Local:
    __slots__ = ('name',)
    def __init__(self, name):
        self.name = name
    def __repr__(self):
        return '%' + self.name

def parse_fp_literal(tok, ty):
    if tok.startswith('0x') or tok.startswith('-0x'):
        body = tok[2:]
        if body[0] in 'KLMHR':
            if body[0] == 'K':
                # x86_fp80: 20 hex digits: sign/exp (4) + mantissa(16)
                v = int(body[1:], 16)
                se = v >> 64
                mant = v & ((1 << 64) - 1)
                sign = -1.0 if se & 0x8000 else 1.0
                e = se & 0x7FFF
                if e == 0 and mant == 0:
                    return 0.0 * sign
                return sign * (mant / float(1 << 63)) * (2.0 ** (e - 16383))
            raise ParseError('fp literal ' + tok)
        bits = int(body, 16)
        return struct.unpack('<d', struct.pack('<Q', bits))[0]
    return float(tok)

class Parser:
    """token-stream parser bound to a Module (for named types)."""
    def __init__(self, module, toks):
        self.m = module
        self.t = toks
        self.i = 0

    def peek(self):
        return self.t[self.i] if self.i < len(self.t) else (None, None)

    def next(self):
        tk = self.t[self.i]
        self.i += 1
        return tk

    def accept(self, val):
        if self.i < len(self.t) and self.t[self.i][1] == val:
            self.i += 1
            return True
        return False

    def expect(self, val):
        tk = self.next()
        if tk[1] != val:
            raise ParseError('expected %r got %r (ctx %r)' % (val, tk, self.t[max(0, self.i - 8):self.i + 4]))

    def at_type(self):
        k, v = self.peek()
        if k == 'local': return True
        if k == 'word':
            return v in ('void', 'double', 'float', 'half', 'x86_fp80', 'label', 'metadata', 'ptr', 'opaque', 'token') or (v[0] == 'i' and v[1:].isdigit())
        if k == 'punct': return v in ('{', '[', '<', '<{')
        return False

    def parse_type(self):
        k, v = self.next()
        if k == 'word':
            if v == 'void': t = VOID
            elif v == 'double': t = DOUBLE
            elif v == 'float': t = FLOAT
            elif v == 'x86_fp80': t = FP80
            elif v == 'label': t = LABEL
            elif v == 'metadata': t = METADATA
            elif v == 'opaque': t = Type('struct', fields=None)
            elif v[0] == 'i' and v[1:].isdigit(): t = IntT(int(v[1:]))
            elif v == 'half': t = Type('half')
            else: raise ParseError('type word ' + v)
        elif k == 'local':
            t = self.m.named_type(unquote(v))
        elif v == '{':
            fields = []
            if not self.accept('}'):
                while True:
                    fields.append(self.parse_type())
                    if self.accept('}'): break
                    self.expect(',')
            t = Type('struct', fields=fields)
        elif v == '<{':
            fields = []
            if not self.accept('}>'):
                while True:
                    fields.append(self.parse_type())
                    if self.accept('}>'): break
                    self.expect(',')
            t = Type('struct', fields=fields, packed=True)
        elif v == '[':
            n = int(self.next()[1])
            self.expect('x')
            e = self.parse_type()
            self.expect(']')
            t = Type('array', elem=e, count=n)
        elif v == '<':
            n = int(self.next()[1])
            self.expect('x')
            e = self.parse_type()
            self.expect('>')
            t = Type('vector', elem=e, count=n)
        else:
            raise ParseError('type at %r %r' % (k, v))
        # suffixes
        while True:
            k, v = self.peek()
            if v == '*':
                self.i += 1
                t = PtrT(t)
            elif v == '(' :
                # function type
                self.i += 1
                params = []
                vararg = False
                if not self.accept(')'):
                    while True:
                        if self.accept('...'):
                            vararg = True
                        else:
                            params.append(self.parse_type())
                        if self.accept(')'): break
                        self.expect(',')
                t = Type('func', ret=t, params=params, vararg=vararg)
            elif k == 'word' and v == 'addrspace':
                self.i += 1
                self.expect('('); self.next(); self.expect(')')
            else:
                break
        return t

    # ---- values ----------------------------------------------------------
    CAST_OPS = ('bitcast', 'ptrtoint', 'inttoptr', 'trunc', 'zext', 'sext', 'addrspacecast', 'fptrunc', 'fpext', 'sitofp', 'uitofp', 'fptosi', 'fptoui')
    BIN_OPS = ('add', 'sub', 'mul', 'and', 'or', 'xor', 'shl', 'lshr', 'ashr', 'udiv', 'sdiv', 'urem', 'srem')

    def parse_value(self, ty):
        """parse a value of (already parsed) type ty; returns Const or Local"""
        k, v = self.next()
        if k == 'local':
            return Local(unquote(v))
        if k == 'glob':
            return Const('global', ty, unquote(v))
        if k == 'num':
            if ty.kind == 'int':
                return Const('int', ty, int(v, 0) & ((1 << ty.bits) - 1))
            if ty.kind in ('double', 'float', 'x86_fp80'):
                return Const('fp', ty, parse_fp_literal(v, ty))
            raise ParseError('number for type %r' % ty)
        if k == 'word':
            if v == 'true': return Const('int', ty, 1)
            if v == 'false': return Const('int', ty, 0)
            if v == 'null': return Const('null', ty, 0)
            if v == 'undef' or v == 'poison': return Const('undef', ty)
            if v == 'zeroinitializer': return Const('zero', ty)
            if v == 'getelementptr':
                self.accept('inbounds')
                self.expect('(')
                sty = self.parse_type()
                self.expect(',')
                bty = self.parse_type()
                base = self.parse_value(bty)
                idx = []
                while self.accept(','):
                    self.accept('inrange')
                    ity = self.parse_type()
                    idx.append(self.parse_value(ity))
                self.expect(')')
                return Const('expr', ty, 'gep', [sty, base] + idx)
            if v in self.CAST_OPS:
                self.expect('(')
                fty = self.parse_type()
                a = self.parse_value(fty)
                self.expect('to')
                tty = self.parse_type()
                self.expect(')')
                return Const('expr', tty, v, [a])
            if v in self.BIN_OPS:
                while self.peek()[1] in ('nuw', 'nsw', 'exact'): self.i += 1
                self.expect('(')
                t1 = self.parse_type(); a = self.parse_value(t1)
                self.expect(',')
                t2 = self.parse_type(); b = self.parse_value(t2)
                self.expect(')')
                return Const('expr', t1, v, [a, b])
            if v == 'icmp':
                pred = self.next()[1]
                self.expect('(')
                t1 = self.parse_type(); a = self.parse_value(t1)
                self.expect(',')
                t2 = self.parse_type(); b = self.parse_value(t2)
                self.expect(')')
                return Const('expr', I1, 'icmp', [pred, a, b])
            if v == 'select':
                self.expect('(')
                t0 = self.parse_type(); c = self.parse_value(t0); self.expect(',')
                t1 = self.parse_type(); a = self.parse_value(t1); self.expect(',')
                t2 = self.parse_type(); b = self.parse_value(t2); self.expect(')')
                return Const('expr', t1, 'select', [c, a, b])
            if v == 'dso_local_equivalent':
                k2, v2 = self.next()
                return Const('global', ty, unquote(v2))
            raise ParseError('value word %r' % v)
        if k == 'str':
            return Const('cstr', ty, cstring_bytes(v))
        if v == '{' or v == '<{':
            close = '}' if v == '{' else '}>'
            elems = []
            if not self.accept(close):
                while True:
                    ety = self.parse_type()
                    elems.append(self.parse_value(ety))
                    if self.accept(close): break
                    self.expect(',')
            return Const('struct', ty, None, elems)
        if v == '[':
            elems = []
            if not self.accept(']'):
                while True:
                    ety = self.parse_type()
                    elems.append(self.parse_value(ety))
                    if self.accept(']'): break
                    self.expect(',')
            return Const('array', ty, None, elems)
        if v == '<':
            elems = []
            while True:
                ety = self.parse_type()
                elems.append(self.parse_value(ety))
                if self.accept('>'): break
                self.expect(',')
            return Const('array', ty, None, elems)
        raise ParseError('value at %r %r' % (k, v))

    def parse_typed_value(self):
        ty = self.parse_type()
        return ty, self.parse_value(ty)

# ----------------------------------------------------------------------------
# instructions
# ----------------------------------------------------------------------------
class Instr:
    __slots__ = ('op', 'dest', 'type', 'args', 'extra')
    def __init__(self, op, dest, type, args, extra=None):
        self.op = op
        self.dest = dest
        self.type = type
        self.args = args
        self.extra = extra
    def __repr__(self):
        return 'Instr(%s %s %r %r %r)' % (self.dest, self.op, self.type, self.args, self.extra)

class Function:
    def __init__(self, name, ret, params, vararg, text):
        self.name = name
        self.ret = ret
        self.params = params      # list of (type, name, attrs set)
        self.vararg = vararg
        self.text = text          # list of body lines or None for declarations
        self.blocks = None        # label -> list[Instr]
        self.block_order = None
        self.compiled = None
        self.personality = None

PARAM_ATTRS = set('''noundef nonnull noalias nocapture readonly writeonly readnone signext zeroext inreg returned nofree immarg nest swiftself swifterror'''.split())
PARAM_ATTRS_ARG = set('''align dereferenceable dereferenceable_or_null'''.split())
PARAM_ATTRS_TY = set('''byval sret byref inalloca preallocated elementtype'''.split())
FAST_MATH = set('fast nnan ninf nsz arcp contract afn reassoc'.split())
CALL_PREFIX = set('tail musttail notail fastcc ccc coldcc'.split())

class Module:
    def __init__(self, path):
        self.path = path
        self.types = {}
        self.type_src = {}
        self.globals_src = {}   # name -> line
        self.aliases = {}       # name -> target name
        self.funcs = {}         # name -> Function
        self.global_ctors_src = None
        self.ctor_of_global = {}   # data global name -> dynamic initialiser function (comdat-associated global ctors)
        self._split(open(path).read())
        src = self.globals_src.get('llvm.global_ctors')
        if src:
            for mm in re.finditer(r'void \(\)\* (@(?:"(?:[^"\\]|\\.)*"|[-a-zA-Z$._0-9]+)), i8\* bitcast \([^@]*(@(?:"(?:[^"\\]|\\.)*"|[-a-zA-Z$._0-9]+)) to i8\*\)', src):
                self.ctor_of_global[unquote(mm.group(2))] = unquote(mm.group(1))

    # -- splitting -----------------------------------------------------------
    def _split(self, text):
        lines = text.split('\n')
        i = 0
        n = len(lines)
        while i < n:
            l = lines[i]
            if not l or l[0] == ';' or l[0] == '!' or l[0] == '$':
                i += 1; continue
            c = l[0]
            if c == '%':
                m = re.match(r'(%(?:"(?:[^"\\]|\\.)*"|[-a-zA-Z$._0-9]+)) = type (.*)$', l)
                if not m: raise ParseError('type def: ' + l[:80])
                self.type_src[unquote(m.group(1))] = m.group(2)
            elif c == '@':
                m = re.match(r'(@(?:"(?:[^"\\]|\\.)*"|[-a-zA-Z$._0-9]+)) = (.*)$', l)
                if not m: raise ParseError('global def: ' + l[:80])
                name = unquote(m.group(1))
                rest = m.group(2)
                if re.search(r'(^| )(alias|ifunc) ', rest) and not re.search(r'(^| )(global|constant) ', rest.split(' alias ')[0] + ' '):
                    tgt = re.search(r'(@(?:"(?:[^"\\]|\\.)*"|[-a-zA-Z$._0-9]+))\s*$', rest)
                    if not tgt:
                        # alias to an expression (e.g. bitcast) – find first @name
                        tgt = re.search(r'(@(?:"(?:[^"\\]|\\.)*"|[-a-zA-Z$._0-9]+))', rest.split(' alias ', 1)[1])
                    self.aliases[name] = unquote(tgt.group(1))
                else:
                    self.globals_src[name] = rest
            elif l.startswith('define '):
                j = i
                while lines[j] != '}':
                    j += 1
                self._add_func(l, lines[i + 1:j])
                i = j
            elif l.startswith('declare '):
                self._add_func(l, None)
            i += 1

    _HDR = re.compile(r'(@(?:"(?:[^"\\]|\\.)*"|[-a-zA-Z$._0-9]+))\(')

    def _add_func(self, header, body):
        m = self._HDR.search(header)
        if not m: raise ParseError('func header: ' + header[:100])
        name = unquote(m.group(1))
        f = Function(name, None, None, False, body)
        f.header = header
        f.hdr_name_span = (m.start(1), m.end())
        if name in self.funcs and self.funcs[name].text is not None and body is None:
            return
        self.funcs[name] = f

    # -- named types -----------------------------------------------------------
    def named_type(self, name):
        t = self.types.get(name)
        if t is not None:
            return t
        src = self.type_src.get(name)
        t = Type('struct', name=name, fields=None)
        self.types[name] = t
        if src is None or src.strip() == 'opaque':
            return t
        p = Parser(self, tokenize(src))
        body = p.parse_type()
        t.fields = body.fields
        t.packed = body.packed
        return t

    # -- function headers ------------------------------------------------------
    def parse_header(self, f):
        if f.params is not None:
            return
        h = f.header
        s, e = f.hdr_name_span
        pre = tokenize(h[:s])
        # return type = last type in the prefix: parse from the right by trying positions
        # Prefix looks like: define [linkage] [attrs...] <retattrs> <type>
        # find the first token index from which a type parses to the end.
        ret = None
        for start in range(1, len(pre)):
            p = Parser(self, pre[start:])
            try:
                if not p.at_type():
                    continue
                t = p.parse_type()
                if p.i == len(p.t):
                    ret = t
                    break
            except ParseError:
                continue
        if ret is None:
            raise ParseError('return type: ' + h[:120])
        f.ret = ret
        # params: find matching paren
        depth = 0
        j = e - 1
        k = j
        inq = False
        while True:
            ch = h[k]
            if ch == '"': inq = not inq
            elif not inq:
                if ch == '(': depth += 1
                elif ch == ')':
                    depth -= 1
                    if depth == 0: break
            k += 1
        ptoks = tokenize(h[j + 1:k])
        p = Parser(self, ptoks)
        params = []
        vararg = False
        idx = 0
        while p.i < len(p.t):
            if p.accept('...'):
                vararg = True
            else:
                ty = p.parse_type()
                attrs = self._skip_param_attrs(p)
                kk, vv = p.peek()
                if kk == 'local':
                    p.i += 1
                    nm = unquote(vv)
                else:
                    nm = str(idx)
                params.append((ty, nm, attrs))
            idx += 1
            if not p.accept(','):
                break
        f.params = params
        f.vararg = vararg

    def _skip_param_attrs(self, p):
        attrs = {}
        while True:
            k, v = p.peek()
            if k != 'word':
                break
            if v in PARAM_ATTRS:
                p.i += 1; attrs[v] = True
            elif v in PARAM_ATTRS_ARG:
                p.i += 1
                if p.accept('('):
                    attrs[v] = int(p.next()[1]); p.expect(')')
                else:
                    attrs[v] = int(p.next()[1])
            elif v in PARAM_ATTRS_TY:
                p.i += 1
                if p.accept('('):
                    attrs[v] = p.parse_type(); p.expect(')')
                else:
                    attrs[v] = True
            else:
                break
        return attrs

    # -- function bodies ---------------------------------------------------------
    def parse_body(self, f):
        if f.blocks is not None:
            return
        self.parse_header(f)
        blocks = {}
        order = []
        # implicit first label: number of params (unnamed counter) – find from first line
        # clang names the entry block implicitly as the next unnamed value id
        nparams_unnamed = sum(1 for (_, nm, _) in f.params if nm.isdigit())
        cur = str(nparams_unnamed)
        first = True
        cur_list = []
        blocks[cur] = cur_list
        order.append(cur)
        joined = []
        for line in f.text:
            if not line:
                continue
            if joined and (line.startswith('    ') or line.startswith('  ]')):
                joined[-1] += ' ' + line.strip()
            else:
                joined.append(line)
        for line in joined:
            if line[0] != ' ':
                m = re.match(r'("(?:[^"\\]|\\.)*"|[-a-zA-Z$._0-9]+):', line)
                if not m: raise ParseError('label line: ' + line[:80])
                lab = m.group(1)
                if lab[0] == '"': lab = unquote('%' + lab)
                if first and not cur_list:
                    del blocks[cur]; order.pop()
                cur = lab
                cur_list = []
                blocks[cur] = cur_list
                order.append(cur)
                continue
            first = False
            ins = self.parse_instr(line)
            if ins is not None:
                cur_list.append(ins)
        f.blocks = blocks
        f.block_order = order

    def parse_instr(self, line):
        toks = tokenize(line)
        # strip trailing metadata attachments: ", !tbaa !5" etc.
        depth = 0
        for j, (k, v) in enumerate(toks):
            if k == 'punct':
                if v in '([{': depth += 1
                elif v in ')]}': depth -= 1
            elif k == 'meta' and depth == 0:
                # cut at the comma before
                cut = j
                if cut > 0 and toks[cut - 1][1] == ',':
                    cut -= 1
                toks = toks[:cut]
                break
        p = Parser(self, toks)
        dest = None
        if len(toks) > 1 and toks[0][0] == 'local' and toks[1][1] == '=':
            dest = unquote(toks[0][1])
            p.i = 2
        k, op = p.next()
        if op in CALL_PREFIX:
            k, op = p.next()
        return getattr(self, 'p_' + op, self.p_unknown)(p, op, dest)

    def p_unknown(self, p, op, dest):
        raise ParseError('unsupported instruction %s: %r' % (op, p.t[:12]))

    def _binop(self, p, op, dest):
        while p.peek()[1] in ('nuw', 'nsw', 'exact') or p.peek()[1] in FAST_MATH:
            p.i += 1
        ty = p.parse_type()
        a = p.parse_value(ty)
        p.expect(',')
        b = p.parse_value(ty)
        return Instr(op, dest, ty, [a, b])
    p_add = p_sub = p_mul = p_udiv = p_sdiv = p_urem = p_srem = _binop
    p_and = p_or = p_xor = p_shl = p_lshr = p_ashr = _binop
    p_fadd = p_fsub = p_fmul = p_fdiv = p_frem = _binop

    def p_fneg(self, p, op, dest):
        while p.peek()[1] in FAST_MATH: p.i += 1
        ty = p.parse_type()
        return Instr(op, dest, ty, [p.parse_value(ty)])

    def p_freeze(self, p, op, dest):
        ty = p.parse_type()
        return Instr(op, dest, ty, [p.parse_value(ty)])

    def p_icmp(self, p, op, dest):
        pred = p.next()[1]
        ty = p.parse_type()
        a = p.parse_value(ty); p.expect(',')
        b = p.parse_value(ty)
        return Instr(op, dest, ty, [a, b], pred)

    def p_fcmp(self, p, op, dest):
        while p.peek()[1] in FAST_MATH: p.i += 1
        pred = p.next()[1]
        ty = p.parse_type()
        a = p.parse_value(ty); p.expect(',')
        b = p.parse_value(ty)
        return Instr(op, dest, ty, [a, b], pred)

    def _cast(self, p, op, dest):
        fty = p.parse_type()
        a = p.parse_value(fty)
        p.expect('to')
        tty = p.parse_type()
        return Instr(op, dest, tty, [a], fty)
    p_bitcast = p_ptrtoint = p_inttoptr = p_trunc = p_zext = p_sext = _cast
    p_fptrunc = p_fpext = p_sitofp = p_uitofp = p_fptosi = p_fptoui = p_addrspacecast = _cast

    def p_alloca(self, p, op, dest):
        p.accept('inalloca')
        ty = p.parse_type()
        n = None
        align = 0
        while p.accept(','):
            if p.accept('align'):
                align = int(p.next()[1])
            else:
                nty = p.parse_type()
                n = p.parse_value(nty)
        return Instr(op, dest, ty, [n], align)

    def p_load(self, p, op, dest):
        p.accept('atomic'); p.accept('volatile')
        ty = p.parse_type()
        p.expect(',')
        pty = p.parse_type()
        a = p.parse_value(pty)
        return Instr(op, dest, ty, [a])

    def p_store(self, p, op, dest):
        p.accept('atomic'); p.accept('volatile')
        ty = p.parse_type()
        v = p.parse_value(ty)
        p.expect(',')
        pty = p.parse_type()
        a = p.parse_value(pty)
        return Instr(op, None, ty, [v, a])

    def p_getelementptr(self, p, op, dest):
        p.accept('inbounds')
        sty = p.parse_type()
        p.expect(',')
        bty = p.parse_type()
        base = p.parse_value(bty)
        idx = []
        while p.accept(','):
            ity = p.parse_type()
            idx.append((ity, p.parse_value(ity)))
        return Instr(op, dest, sty, [base], idx)

    def p_phi(self, p, op, dest):
        while p.peek()[1] in FAST_MATH: p.i += 1
        ty = p.parse_type()
        inc = []
        while True:
            p.expect('[')
            v = p.parse_value(ty)
            p.expect(',')
            lab = unquote(p.next()[1])
            p.expect(']')
            inc.append((v, lab))
            if not p.accept(','): break
        return Instr(op, dest, ty, inc)

    def p_select(self, p, op, dest):
        while p.peek()[1] in FAST_MATH: p.i += 1
        cty = p.parse_type(); c = p.parse_value(cty); p.expect(',')
        ty = p.parse_type(); a = p.parse_value(ty); p.expect(',')
        ty2 = p.parse_type(); b = p.parse_value(ty2)
        return Instr(op, dest, ty, [c, a, b])

    def p_br(self, p, op, dest):
        if p.accept('label'):
            return Instr('br', None, None, [], [unquote(p.next()[1])])
        ty = p.parse_type()
        c = p.parse_value(ty)
        p.expect(','); p.expect('label'); t = unquote(p.next()[1])
        p.expect(','); p.expect('label'); e = unquote(p.next()[1])
        return Instr('condbr', None, None, [c], [t, e])

    def p_switch(self, p, op, dest):
        ty = p.parse_type()
        v = p.parse_value(ty)
        p.expect(','); p.expect('label'); default = unquote(p.next()[1])
        p.expect('[')
        cases = []
        while not p.accept(']'):
            cty = p.parse_type()
            cv = p.parse_value(cty)
            p.expect(','); p.expect('label')
            cases.append((cv.val, unquote(p.next()[1])))
        return Instr('switch', None, ty, [v], (default, cases))

    def p_ret(self, p, op, dest):
        ty = p.parse_type()
        if ty.kind == 'void':
            return Instr('ret', None, ty, [])
        return Instr('ret', None, ty, [p.parse_value(ty)])

    def p_unreachable(self, p, op, dest):
        return Instr('unreachable', None, None, [])

    def p_resume(self, p, op, dest):
        ty = p.parse_type()
        return Instr('resume', None, ty, [p.parse_value(ty)])

    def p_fence(self, p, op, dest):
        return None

    def p_extractvalue(self, p, op, dest):
        ty = p.parse_type()
        a = p.parse_value(ty)
        idx = []
        while p.accept(','):
            idx.append(int(p.next()[1]))
        return Instr(op, dest, ty, [a], idx)

    def p_insertvalue(self, p, op, dest):
        ty = p.parse_type()
        a = p.parse_value(ty); p.expect(',')
        ety = p.parse_type()
        e = p.parse_value(ety)
        idx = []
        while p.accept(','):
            idx.append(int(p.next()[1]))
        return Instr(op, dest, ty, [a, e], idx)

    def p_landingpad(self, p, op, dest):
        ty = p.parse_type()
        cleanup = False
        clauses = []
        while p.i < len(p.t):
            k, v = p.next()
            if v == 'cleanup':
                cleanup = True
            elif v == 'catch':
                cty = p.parse_type()
                clauses.append(('catch', p.parse_value(cty)))
            elif v == 'filter':
                cty = p.parse_type()
                clauses.append(('filter', p.parse_value(cty)))
            else:
                raise ParseError('landingpad clause ' + v)
        return Instr(op, dest, ty, [], (cleanup, clauses))

    def p_atomicrmw(self, p, op, dest):
        p.accept('volatile')
        rmw = p.next()[1]
        pty = p.parse_type(); a = p.parse_value(pty); p.expect(',')
        ty = p.parse_type(); v = p.parse_value(ty)
        return Instr(op, dest, ty, [a, v], rmw)

    def p_cmpxchg(self, p, op, dest):
        p.accept('weak'); p.accept('volatile')
        pty = p.parse_type(); a = p.parse_value(pty); p.expect(',')
        ty = p.parse_type(); c = p.parse_value(ty); p.expect(',')
        ty2 = p.parse_type(); n = p.parse_value(ty2)
        return Instr(op, dest, ty, [a, c, n])

    def _call(self, p, op, dest):
        # [fast-math] [cconv] [ret attrs] <ty> <callee>(args) [fn attrs] [to label %x unwind label %y]
        while True:
            k, v = p.peek()
            if k == 'word' and (v in FAST_MATH or v in CALL_PREFIX or v in PARAM_ATTRS):
                p.i += 1
            elif k == 'word' and v in PARAM_ATTRS_ARG:
                p.i += 1
                if p.accept('('):
                    p.next(); p.expect(')')
                else:
                    p.next()
            elif k == 'word' and v == 'addrspace':
                p.i += 1; p.expect('('); p.next(); p.expect(')')
            else:
                break
        ty = p.parse_type()
        retty = ty
        if ty.kind == 'ptr' and ty.elem.kind == 'func':
            retty = ty.elem.ret
        elif ty.kind == 'func':
            retty = ty.ret
        k, v = p.next()
        if k == 'glob':
            callee = Const('global', None, unquote(v))
        elif k == 'local':
            callee = Local(unquote(v))
        elif k == 'word' and v in ('bitcast',):
            p.i -= 1
            callee = p.parse_value(PtrT(I8))
        elif k == 'word' and v == 'asm':
            raise ParseError('inline asm')
        else:
            raise ParseError('callee %r %r' % (k, v))
        p.expect('(')
        args = []
        if not p.accept(')'):
            while True:
                aty = p.parse_type()
                attrs = self._skip_param_attrs(p)
                if aty.kind == 'metadata':
                    # metadata operand: skip tokens to , or )
                    depth = 0
                    while True:
                        kk, vv = p.peek()
                        if kk is None: raise ParseError('unterminated metadata operand')
                        if depth == 0 and vv in (',', ')'): break
                        if vv in ('(', '{', '['): depth += 1
                        if vv in (')', '}', ']'): depth -= 1
                        p.i += 1
                    args.append((aty, None, attrs))
                else:
                    args.append((aty, p.parse_value(aty), attrs))
                if p.accept(')'): break
                p.expect(',')
        labels = None
        while p.i < len(p.t):
            k, v = p.next()
            if v == 'to':
                p.expect('label'); normal = unquote(p.next()[1])
                p.expect('unwind'); p.expect('label'); unwind = unquote(p.next()[1])
                labels = (normal, unwind)
            elif v == '[':
                # operand bundles – skip
                depth = 1
                while depth:
                    kk, vv = p.next()
                    if vv == '[': depth += 1
                    elif vv == ']': depth -= 1
        return Instr(op, dest, retty, [callee] + args, labels)
    p_call = p_invoke = _call

    # -- globals -----------------------------------------------------------------
    GLOBAL_WORDS = set('''private internal available_externally linkonce weak common appending extern_weak linkonce_odr weak_odr external
        default hidden protected dllimport dllexport dso_local dso_preemptable thread_local unnamed_addr local_unnamed_addr externally_initialized'''.split())

    def parse_global(self, name):
        """returns (type, is_constant, init Const or None)"""
        src = self.globals_src[name]
        toks = tokenize(src)
        p = Parser(self, toks)
        while True:
            k, v = p.peek()
            if k == 'word' and v in self.GLOBAL_WORDS:
                p.i += 1
                if v == 'thread_local' and p.accept('('):
                    p.next(); p.expect(')')
            elif k == 'word' and v == 'addrspace':
                p.i += 1; p.expect('('); p.next(); p.expect(')')
            else:
                break
        k, v = p.next()
        if v not in ('global', 'constant'):
            raise ParseError('global kind %r in %s' % (v, src[:80]))
        is_const = v == 'constant'
        ty = p.parse_type()
        init = None
        k, v = p.peek()
        if k is not None and v != ',':
            init = p.parse_value(ty)
        return ty, is_const, init
