"""High-level driver used by the checks: load a linked module, run a harness entry point with
concrete or symbolic inputs, run the same harness natively (g++ build) for replay/validation.
"""
import math
import os
import struct
import subprocess
import time
from fractions import Fraction

from . import llparse, sym as S
from .interp import Interp, UNDEF, Unwind, MemoryError_, Unsupported, PathEnd, ProgramExit, K_INT, K_DOUBLE, K_PTR, SHIFT, Node
from .solver import PathController, Z3Ctx

_modules = {}

def load_module(path):
    m = _modules.get(path)
    if m is None:
        m = llparse.Module(path)
        _modules[path] = m
    return m

class RunResult:
    def __init__(self):
        self.status = None      # 'ok' | 'exception' | 'memory' | 'unsupported' | 'pathend'
        self.dout = []
        self.iout = []
        self.exception = None   # typeinfo name
        self.error = None
        self.events = []
        self.steps = 0
        self.interp = None
        self.ret_status = 0

class Session:
    def __init__(self, module_path, mode='real', overrides=None, setup=None):
        self.module = load_module(module_path)
        self.mode = mode
        self.overrides = overrides or {}
        self.setup = setup
        self.functions_called = set()
        self.total_steps = 0
        self.used_models = set()

    def new_interp(self, pathctl=None):
        it = Interp(self.module, self.mode)
        it.overrides.update(self.overrides)
        it.pathctl = pathctl
        fc = self.functions_called
        it.trace_calls = lambda name, args: fc.add(name)
        if self.setup is not None:
            self.setup(it)
        return it

    def run(self, entry, din=(), iin=(), pathctl=None, nout=1 << 16, keep=False, max_steps=None):
        """execute harness `entry`; din/iin entries may be python numbers or sym Nodes"""
        it = self.new_interp(pathctl)
        if max_steps: it.max_steps = max_steps
        res = RunResult()
        nd = len(din); ni = len(iin)
        pd = it.alloc(8 * max(nd, 1), 'heap', 'din')
        pi = it.alloc(8 * max(ni, 1), 'heap', 'iin')
        po = it.alloc(8 * nout, 'heap', 'dout')
        pio = it.alloc(8 * nout, 'heap', 'iout')
        for k, v in enumerate(din):
            if type(v) is int: v = float(v)
            it.store(pd + 8 * k, 8, v)
        for k, v in enumerate(iin):
            if type(v) is int: v &= (1 << 64) - 1
            it.store(pi + 8 * k, 8, v)
        io = it.alloc(56, 'heap', 'vio')
        it.store(io, 8, pd); it.store(io + 8, 8, pi); it.store(io + 16, 8, po); it.store(io + 24, 8, pio)
        it.store(io + 32, 8, 0); it.store(io + 40, 8, 0); it.store(io + 48, 8, 0)
        try:
            it.call_function(entry, [io])
            res.status = 'ok'
        except Unwind as u:
            res.status = 'exception'
            res.exception = it.typeinfo_name(u.tinfo)
            res.exception_chain = [it.typeinfo_name(t) for t in it.typeinfo_bases(u.tinfo)]
        except MemoryError_ as e:
            res.status = 'memory'
            res.error = (e.kind, e.msg, e.where)
        except Unsupported as e:
            res.status = 'unsupported'
            res.error = str(e)
        except PathEnd as e:
            res.status = 'pathend'
            res.error = e.reason
        except ProgramExit as e:
            res.status = 'exit'
            res.error = e.code
        try:
            n_d = it.load(io + 32, 8, K_INT); n_i = it.load(io + 40, 8, K_INT)
            res.ret_status = it.load(io + 48, 8, K_INT)
            if type(res.ret_status) is int and res.ret_status >> 63: res.ret_status -= 1 << 64
            res.dout = [it.load(po + 8 * k, 8, K_DOUBLE) for k in range(n_d)]
            res.iout = [it.load(pio + 8 * k, 8, K_INT) for k in range(n_i)]
            if pathctl is not None and getattr(pathctl, 'known', None):
                kn = pathctl.known
                res.iout = [kn.get(v.id, v) if type(v) is Node else v for v in res.iout]
                # a width change of a concretised value is that value
                res.iout = [kn.get(v.args[0].id, v) if (type(v) is Node and v.op == 'irew' and type(v.args[0]) is Node) else v for v in res.iout]
            res.iout = [v.args[0] if (type(v) is Node and v.op == 'iconst') else v for v in res.iout]
            res.iout = [(v - (1 << 64) if type(v) is int and v >> 63 else v) for v in res.iout]
        except Exception as e:   # outputs unreadable after a failure: keep what we have
            if res.status == 'ok':
                res.status = 'unsupported'; res.error = 'reading outputs: %r' % (e,)
        res.events = it.events
        res.steps = it.steps
        res.mem_reports = it.mem_reports
        self.total_steps += it.steps
        self.used_models |= it.used_models
        if keep:
            res.interp = it
        return res

    def explore(self, entry, din=(), iin=(), assumptions=(), max_paths=400, branch_timeout_ms=10000, zctx=None, ite_ints=False, on_path=None, max_steps=None, generic_position=False, branch_filter=None, sampler=None, eager_ints=False, symbolic_alloc=False):
        """symbolic exploration of all feasible paths; returns (controller, [(trace, pc, RunResult)])"""
        ctl = PathController(zctx, branch_timeout_ms, max_paths)
        ctl.ite_ints = ite_ints
        ctl.generic_position = generic_position
        ctl.branch_filter = branch_filter
        ctl.pool.custom = sampler
        ctl.eager_ints = eager_ints
        ctl.symbolic_alloc = symbolic_alloc
        ctl.assumptions = list(assumptions)
        def run_path(c):
            r = self.run(entry, din, iin, pathctl=c, max_steps=max_steps)
            if on_path is not None:
                on_path(c, r)
            return r
        results = ctl.explore(run_path)
        return ctl, results

class Native:
    """persistent native replay process"""
    def __init__(self, binary):
        self.binary = binary
        self.timeout_s = 60
        self.p = subprocess.Popen([binary], stdin=subprocess.PIPE, stdout=subprocess.PIPE, stderr=subprocess.DEVNULL, text=True, bufsize=1)

    def call(self, entry, din=(), iin=()):
        line = entry + ' %d %d' % (len(din), len(iin))
        for d in din:
            line += ' ' + float(d).hex()
        for i in iin:
            line += ' %d' % i
        try:
            self.p.stdin.write(line + '\n')
            self.p.stdin.flush()
            import select
            rd, _, _ = select.select([self.p.stdout], [], [], self.timeout_s)
            if not rd:
                # hung native run: kill and report
                self.p.kill(); self.p.wait()
                self.p = subprocess.Popen([self.binary], stdin=subprocess.PIPE, stdout=subprocess.PIPE, stderr=subprocess.DEVNULL, text=True, bufsize=1)
                return {'status': 'timeout', 'd': [], 'i': []}
            out = self.p.stdout.readline()
        except BrokenPipeError:
            out = ''
        if not out:
            # process died (crash): restart for later calls
            rc = self.p.wait()
            self.p = subprocess.Popen([self.binary], stdin=subprocess.PIPE, stdout=subprocess.PIPE, stderr=subprocess.DEVNULL, text=True, bufsize=1)
            return {'status': 'crash', 'rc': rc, 'd': [], 'i': []}
        t = out.split()
        st, nd, ni = int(t[0]), int(t[1]), int(t[2])
        d = [float.fromhex(x) if x not in ('nan', '-nan', 'inf', '-inf') else float(x) for x in t[3:3 + nd]]
        i = [int(x) for x in t[3 + nd:3 + nd + ni]]
        return {'status': st, 'd': d, 'i': i}

    def close(self):
        try:
            self.p.stdin.close()
            self.p.wait(timeout=5)
        except Exception:
            self.p.kill()

def same_double(a, b):
    if a != a and b != b: return True
    return struct.pack('<d', a) == struct.pack('<d', b)
