"""Symbolic values for irsym: hash-consed expression DAG over reals / ints / bools.

Sorts: 'R' (real = exact-real reading of a double), 'I' (mathematical integer
carrying a machine width), 'B' (bool).  Conversion to z3 is memoised; sqrt and
uninterpreted libm functions become fresh symbols with defining side
constraints collected in Ctx.defs.
"""
from fractions import Fraction
import math
import struct

class Node:
    __slots__ = ('op', 'args', 'sort', 'id', 'width', 'lo', 'hi', '__weakref__')
    def __repr__(self):
        return show(self, 4)

_table = {}
_counter = [0]

def mk(op, args, sort, width=0):
    key = (op, args, sort, width)
    n = _table.get(key)
    if n is None:
        n = Node()
        n.op = op; n.args = args; n.sort = sort; n.width = width
        _counter[0] += 1
        n.id = _counter[0]
        n.lo = None; n.hi = None
        _table[key] = n
    return n

def reset():
    _table.clear()

def is_sym(x):
    return type(x) is Node

# ---------------------------------------------------------------------------
# reals
# ---------------------------------------------------------------------------
_rat_cache = {}
def rationalize(f):
    """exact-real reading of a double literal: the simplest rational that rounds to it
    (denominator <= 4096), else the exact binary value."""
    r = _rat_cache.get(f)
    if r is None:
        if f != f or f in (math.inf, -math.inf):
            raise ValueError('non-finite double in exact-real arithmetic')
        ex = Fraction(f)
        r = ex
        if ex.denominator > 4096:
            c = ex.limit_denominator(4096)
            if float(c) == f:
                r = c
        _rat_cache[f] = r
    return r

def const(q):
    if type(q) is float:
        q = rationalize(q)
    elif type(q) is int:
        q = Fraction(q)
    return mk('const', (q,), 'R')

def var(name):
    return mk('var', (name,), 'R')

def R(x):
    if type(x) is Node:
        return x
    return const(x)

ZERO = const(0)
ONE = const(1)

def cval(n):
    return n.args[0] if n.op == 'const' else None

def add(a, b):
    a = R(a); b = R(b)
    ca = cval(a); cb = cval(b)
    if ca is not None and cb is not None: return const(ca + cb)
    if ca == 0: return b
    if cb == 0: return a
    return mk('add', (a, b), 'R')

def sub(a, b):
    a = R(a); b = R(b)
    ca = cval(a); cb = cval(b)
    if ca is not None and cb is not None: return const(ca - cb)
    if cb == 0: return a
    if ca == 0: return neg(b)
    if a is b: return ZERO
    return mk('sub', (a, b), 'R')

def mul(a, b):
    a = R(a); b = R(b)
    ca = cval(a); cb = cval(b)
    if ca is not None and cb is not None: return const(ca * cb)
    if ca == 0 or cb == 0: return ZERO
    if ca == 1: return b
    if cb == 1: return a
    return mk('mul', (a, b), 'R')

def div(a, b):
    a = R(a); b = R(b)
    ca = cval(a); cb = cval(b)
    if cb is not None:
        if cb == 0:
            raise ZeroDivisionError('exact-real division by literal zero')
        if ca is not None: return const(ca / cb)
        if cb == 1: return a
        return mul(a, const(1 / cb))
    if ca == 0: return ZERO
    return mk('div', (a, b), 'R')

def neg(a):
    a = R(a)
    ca = cval(a)
    if ca is not None: return const(-ca)
    if a.op == 'neg': return a.args[0]
    return mk('neg', (a,), 'R')

def sqrt(a):
    a = R(a)
    ca = cval(a)
    if ca is not None:
        if ca < 0: raise ValueError('sqrt of negative constant')
        n, d = ca.numerator, ca.denominator
        rn, rd = math.isqrt(n), math.isqrt(d)
        if rn * rn == n and rd * rd == d:
            return const(Fraction(rn, rd))
    return mk('sqrt', (a,), 'R')

def uf(name, *args):
    return mk('uf', (name,) + tuple(R(a) for a in args), 'R')

def fabs(a):
    a = R(a)
    ca = cval(a)
    if ca is not None: return const(abs(ca))
    return mk('abs', (a,), 'R')

def floor(a):
    a = R(a)
    ca = cval(a)
    if ca is not None: return const(Fraction(math.floor(ca)))
    return mk('floor', (a,), 'R')

def ceil(a):
    a = R(a)
    ca = cval(a)
    if ca is not None: return const(Fraction(math.ceil(ca)))
    return mk('ceil', (a,), 'R')

def ite(c, a, b):
    if c is TRUE: return a
    if c is FALSE: return b
    if a is b: return a
    sort = a.sort if type(a) is Node else (b.sort if type(b) is Node else None)
    if sort == 'I' or (sort is None and type(a) is int):
        w = a.width if type(a) is Node else b.width
        a = I(a, w); b = I(b, w)
        n = mk('ite', (c, a, b), 'I', w)
        if getattr(n, 'lo', None) is None and getattr(a, 'lo', None) is not None and getattr(b, 'lo', None) is not None:
            n.lo = min(a.lo, b.lo)
            n.hi = max(a.hi, b.hi) if (a.hi is not None and b.hi is not None) else None
        return n
    if sort == 'B':
        return bor(band(c, a), band(bnot(c), b))
    return mk('ite', (c, R(a), R(b)), 'R')

# ---------------------------------------------------------------------------
# bools
# ---------------------------------------------------------------------------
TRUE = mk('true', (), 'B')
FALSE = mk('false', (), 'B')

def B(x):
    if type(x) is Node: return x
    return TRUE if x else FALSE

def boolvar(name):
    return mk('bvar', (name,), 'B')

_NEGCMP = {'lt': 'ge', 'ge': 'lt', 'gt': 'le', 'le': 'gt', 'eq': 'ne', 'ne': 'eq'}
_CMPF = {'lt': lambda a, b: a < b, 'le': lambda a, b: a <= b, 'gt': lambda a, b: a > b,
         'ge': lambda a, b: a >= b, 'eq': lambda a, b: a == b, 'ne': lambda a, b: a != b}

def cmp(op, a, b):
    """comparison of two reals or two ints"""
    if type(a) is Node and a.sort == 'I' or type(b) is Node and b.sort == 'I':
        w = a.width if type(a) is Node else b.width
        a = I(a, w); b = I(b, w)
        if a.op == 'iconst' and b.op == 'iconst':
            return B(_CMPF[op](a.args[0], b.args[0]))
    else:
        a = R(a); b = R(b)
        ca = cval(a); cb = cval(b)
        if ca is not None and cb is not None:
            return B(_CMPF[op](ca, cb))
    if a is b:
        return B(op in ('le', 'ge', 'eq'))
    # sqrt(x) compared with 0: sqrt is defined for x >= 0 and sqrt(x) = 0 <=> x = 0 (sound rewrite, avoids a sqrt atom)
    if a.sort == 'R':
        if a.op == 'sqrt' and b.op == 'const' and b.args[0] == 0:
            x = a.args[0]
            if op in ('eq', 'le'): return cmp('eq', x, ZERO)
            if op in ('ne', 'gt'): return cmp('ne', x, ZERO) if op == 'ne' else cmp('gt', x, ZERO)
            if op == 'ge': return TRUE
            if op == 'lt': return FALSE
        if b.op == 'sqrt' and a.op == 'const' and a.args[0] == 0:
            return cmp({'lt': 'gt', 'gt': 'lt', 'le': 'ge', 'ge': 'le', 'eq': 'eq', 'ne': 'ne'}[op], b, a)
    return mk(op, (a, b), 'B')

def bnot(a):
    if a is TRUE: return FALSE
    if a is FALSE: return TRUE
    if a.op == 'not': return a.args[0]
    if a.op in _NEGCMP: return mk(_NEGCMP[a.op], a.args, 'B')
    return mk('not', (a,), 'B')

def band(a, b):
    a = B(a); b = B(b)
    if a is FALSE or b is FALSE: return FALSE
    if a is TRUE: return b
    if b is TRUE: return a
    if a is b: return a
    return mk('and', (a, b), 'B')

def bor(a, b):
    a = B(a); b = B(b)
    if a is TRUE or b is TRUE: return TRUE
    if a is FALSE: return b
    if b is FALSE: return a
    if a is b: return a
    return mk('or', (a, b), 'B')

def bxor(a, b):
    a = B(a); b = B(b)
    if a is FALSE: return b
    if b is FALSE: return a
    if a is TRUE: return bnot(b)
    if b is TRUE: return bnot(a)
    return mk('xor', (a, b), 'B')

# ---------------------------------------------------------------------------
# ints (mathematical integers with a machine width and an interval)
# ---------------------------------------------------------------------------
def iconst(v, w):
    n = mk('iconst', (v,), 'I', w)
    n.lo = n.hi = v
    return n

def ivar(name, w, lo=0, hi=None):
    n = mk('ivar', (name,), 'I', w)
    if hi is None: hi = (1 << w) - 1
    n.lo = lo; n.hi = hi
    return n

def I(x, w):
    if type(x) is Node:
        return x
    return iconst(x, w)

def _iv(n):
    return n.lo, n.hi

def _wrap(n, w):
    """result node n (unbounded integer) reduced modulo 2^w if its interval can leave [0,2^w)"""
    lo, hi = n.lo, n.hi
    M = 1 << w
    if lo is not None and hi is not None and 0 <= lo and hi < M:
        return n
    if n.op == 'irew':
        sp = _split_pack(n.args[0], w)
        if sp is not None:
            r = mk('irew', (sp[0],), 'I', w); r.lo = sp[0].lo; r.hi = sp[0].hi
            return r
    r = mk('imod', (n, iconst(M, w + 1)), 'I', w)
    r.lo = 0; r.hi = M - 1
    return r

def iadd(a, b, w):
    a = I(a, w); b = I(b, w)
    if a.op == 'iconst' and b.op == 'iconst': return iconst((a.args[0] + b.args[0]) & ((1 << w) - 1), w)
    if a.op == 'iconst' and a.args[0] == 0: return b
    if b.op == 'iconst' and b.args[0] == 0: return a
    # adding a "negative" constant (two's complement) = subtraction
    if b.op == 'iconst' and b.args[0] >= (1 << (w - 1)):
        return isub(a, iconst((1 << w) - b.args[0], w), w)
    n = mk('iadd', (a, b), 'I', w)
    n.lo = a.lo + b.lo; n.hi = a.hi + b.hi
    return _wrap(n, w)

def isub(a, b, w):
    a = I(a, w); b = I(b, w)
    if a.op == 'iconst' and b.op == 'iconst': return iconst((a.args[0] - b.args[0]) & ((1 << w) - 1), w)
    if b.op == 'iconst' and b.args[0] == 0: return a
    if a is b: return iconst(0, w)
    n = mk('isub', (a, b), 'I', w)
    n.lo = a.lo - b.hi; n.hi = a.hi - b.lo
    return _wrap(n, w)

def imul(a, b, w):
    a = I(a, w); b = I(b, w)
    if a.op == 'iconst' and b.op == 'iconst': return iconst((a.args[0] * b.args[0]) & ((1 << w) - 1), w)
    if a.op == 'iconst' and a.args[0] == 1: return b
    if b.op == 'iconst' and b.args[0] == 1: return a
    if (a.op == 'iconst' and a.args[0] == 0) or (b.op == 'iconst' and b.args[0] == 0): return iconst(0, w)
    n = mk('imul', (a, b), 'I', w)
    c = [a.lo * b.lo, a.lo * b.hi, a.hi * b.lo, a.hi * b.hi]
    n.lo = min(c); n.hi = max(c)
    return _wrap(n, w)

def _split_pack(a, k):
    """a = p + y*c with 0 <= p < 2^k and 2^k | c  ->  (p, y, c) (little-endian packing of fields), else None"""
    if a.op != 'iadd': return None
    for p, q in ((a.args[0], a.args[1]), (a.args[1], a.args[0])):
        if q.op == 'imul':
            for y, c in ((q.args[0], q.args[1]), (q.args[1], q.args[0])):
                if c.op == 'iconst' and c.args[0] % (1 << k) == 0 and p.lo is not None and p.hi is not None and 0 <= p.lo and p.hi < (1 << k):
                    return p, y, c.args[0]
        if q.op == 'iconst' and q.args[0] % (1 << k) == 0 and p.lo is not None and p.hi is not None and 0 <= p.lo and p.hi < (1 << k):
            return p, iconst(q.args[0] >> k, a.width), 1 << k
    return None

def iudiv(a, b, w):
    a = I(a, w); b = I(b, w)
    if a.op == 'iconst' and b.op == 'iconst': return iconst(a.args[0] // b.args[0], w)
    if b.op == 'iconst' and b.args[0] > 1 and b.args[0] & (b.args[0] - 1) == 0:
        k = b.args[0].bit_length() - 1
        if a.hi is not None and a.hi < (1 << k) and a.lo is not None and a.lo >= 0: return iconst(0, w)
        sp = _split_pack(a, k)
        if sp is not None:
            p, y, c = sp
            return imul(y, iconst(c >> k, w), w)
    n = mk('idiv', (a, b), 'I', w)
    n.lo = 0; n.hi = a.hi
    return n

def iurem(a, b, w):
    a = I(a, w); b = I(b, w)
    if a.op == 'iconst' and b.op == 'iconst': return iconst(a.args[0] % b.args[0], w)
    if b.op == 'iconst' and b.args[0] > 1 and b.args[0] & (b.args[0] - 1) == 0:
        k = b.args[0].bit_length() - 1
        if a.hi is not None and a.hi < (1 << k) and a.lo is not None and a.lo >= 0: return a
        sp = _split_pack(a, k)
        if sp is not None: return sp[0]
    n = mk('imodop', (a, b), 'I', w)
    n.lo = 0; n.hi = min(a.hi, b.hi)
    return n

def izext(a, wfrom, wto):
    if a.op == 'iconst': return iconst(a.args[0], wto)
    n = mk('irew', (a,), 'I', wto)   # same value, new width
    n.lo = a.lo; n.hi = a.hi
    return n

def itrunc(a, wto):
    if a.op == 'iconst': return iconst(a.args[0] & ((1 << wto) - 1), wto)
    n = mk('irew', (a,), 'I', wto)
    n.lo = a.lo; n.hi = a.hi
    return _wrap(n, wto)

def i2r(a):
    """unsigned int -> real"""
    if a.op == 'iconst': return const(a.args[0])
    return mk('i2r', (a,), 'R')

def r2i(a, w):
    """real -> int by truncation toward zero (fptoui / fptosi on non-negative values = floor)"""
    a = R(a)
    ca = cval(a)
    if ca is not None:
        return iconst(int(ca) & ((1 << w) - 1), w)
    n = mk('r2i', (a,), 'I', w)
    n.lo = 0; n.hi = (1 << w) - 1
    return n

# ---------------------------------------------------------------------------
# printing
# ---------------------------------------------------------------------------
_INFIX = {'add': '+', 'sub': '-', 'mul': '*', 'div': '/', 'lt': '<', 'le': '<=', 'gt': '>', 'ge': '>=', 'eq': '==', 'ne': '!=',
          'and': '&&', 'or': '||', 'iadd': '+', 'isub': '-', 'imul': '*', 'idiv': '/', 'imod': '%', 'imodop': '%', 'xor': '^'}

def show(n, depth=6):
    if type(n) is not Node: return repr(n)
    op = n.op
    if op in ('const', 'iconst'): return str(n.args[0])
    if op in ('var', 'ivar', 'bvar'): return n.args[0]
    if op == 'true': return 'true'
    if op == 'false': return 'false'
    if depth == 0: return '#%d' % n.id
    if op in _INFIX: return '(%s %s %s)' % (show(n.args[0], depth - 1), _INFIX[op], show(n.args[1], depth - 1))
    if op == 'uf': return '%s(%s)' % (n.args[0], ', '.join(show(a, depth - 1) for a in n.args[1:]))
    return '%s(%s)' % (op, ', '.join(show(a, depth - 1) for a in n.args))

def free_vars(n, acc=None, seen=None):
    if acc is None: acc = set(); seen = set()
    stack = [n]
    while stack:
        x = stack.pop()
        if type(x) is not Node or x.id in seen: continue
        seen.add(x.id)
        if x.op in ('var', 'ivar', 'bvar'):
            acc.add(x.args[0])
        else:
            stack.extend(a for a in x.args if type(a) is Node)
    return acc

# ---------------------------------------------------------------------------
# evaluation with concrete values (for replay / model checking of counterexamples)
# ---------------------------------------------------------------------------
def evaluate(n, env, ufs=None, cache=None):
    """env: name -> Fraction/int/bool ; returns Fraction / int / bool (floats for sqrt/uf)"""
    if cache is None: cache = {}
    def ev(x):
        if type(x) is not Node: return x
        r = cache.get(x.id)
        if r is not None or x.id in cache: return r
        op = x.op; a = x.args
        if op in ('const', 'iconst'): r = a[0]
        elif op in ('var', 'ivar', 'bvar'): r = env[a[0]]
        elif op == 'true': r = True
        elif op == 'false': r = False
        elif op in ('add', 'iadd'): r = ev(a[0]) + ev(a[1])
        elif op in ('sub', 'isub'): r = ev(a[0]) - ev(a[1])
        elif op in ('mul', 'imul'): r = ev(a[0]) * ev(a[1])
        elif op == 'div': r = ev(a[0]) / ev(a[1])
        elif op == 'idiv': r = ev(a[0]) // ev(a[1])
        elif op in ('imod', 'imodop'): r = ev(a[0]) % ev(a[1])
        elif op == 'neg': r = -ev(a[0])
        elif op == 'sqrt': r = math.sqrt(ev(a[0]))
        elif op == 'abs': r = abs(ev(a[0]))
        elif op == 'floor': r = math.floor(ev(a[0]))
        elif op == 'ceil': r = math.ceil(ev(a[0]))
        elif op == 'ite': r = ev(a[1]) if ev(a[0]) else ev(a[2])
        elif op == 'irew': r = ev(a[0])
        elif op == 'i2r': r = ev(a[0])
        elif op == 'r2i': r = int(ev(a[0]))
        elif op == 'uf':
            f = (ufs or {}).get(a[0]) or getattr(math, a[0])
            r = f(*[float(ev(y)) for y in a[1:]])
        elif op in _CMPF: r = _CMPF[op](ev(a[0]), ev(a[1]))
        elif op == 'not': r = not ev(a[0])
        elif op == 'and': r = ev(a[0]) and ev(a[1])
        elif op == 'or': r = ev(a[0]) or ev(a[1])
        elif op == 'xor': r = bool(ev(a[0])) != bool(ev(a[1]))
        else: raise ValueError('evaluate: ' + op)
        cache[x.id] = r
        return r
    import sys
    old = sys.getrecursionlimit()
    if old < 100000: sys.setrecursionlimit(100000)
    return ev(n)

# ---------------------------------------------------------------------------
# substitution
# ---------------------------------------------------------------------------
_REBUILD = {'add': add, 'sub': sub, 'mul': mul, 'div': div, 'neg': neg, 'sqrt': sqrt, 'abs': fabs, 'floor': floor, 'ceil': ceil,
            'not': bnot, 'and': band, 'or': bor, 'xor': bxor}

def subst(n, mapping, cache=None):
    """replace variables (by name) with nodes/constants"""
    if cache is None: cache = {}
    if type(n) is not Node: return n
    order = []
    stack = [n]
    seen = set()
    while stack:
        x = stack.pop()
        if type(x) is not Node or x.id in seen: continue
        seen.add(x.id)
        order.append(x)
        stack.extend(a for a in x.args if type(a) is Node)
    order.sort(key=lambda x: x.id)   # children always have smaller ids than parents
    for x in order:
        if x.id in cache: continue
        op = x.op
        if op in ('var', 'ivar', 'bvar'):
            r = mapping.get(x.args[0], x)
            if type(r) is not Node:
                r = const(r) if op == 'var' else (iconst(r, x.width) if op == 'ivar' else B(r))
        elif op in ('const', 'iconst', 'true', 'false'):
            r = x
        else:
            args = tuple(cache[a.id] if type(a) is Node else a for a in x.args)
            if args == x.args:
                r = x
            elif op in _REBUILD:
                r = _REBUILD[op](*args)
            elif op in _CMPF:
                r = cmp(op, args[0], args[1])
            elif op == 'ite':
                r = ite(args[0], args[1], args[2])
            elif op == 'uf':
                r = uf(args[0], *args[1:])
            else:
                r = mk(op, args, x.sort, x.width)
                r.lo = x.lo; r.hi = x.hi
        cache[x.id] = r
    return cache[n.id]

def conj(nodes):
    r = TRUE
    for n in nodes:
        r = band(r, n)
    return r

def vdot(u, v):
    return add(add(mul(u[0], v[0]), mul(u[1], v[1])), mul(u[2], v[2]))
def vsub(u, v):
    return [sub(u[i], v[i]) for i in range(3)]
def vadd(u, v):
    return [add(u[i], v[i]) for i in range(3)]
def vscale(u, k):
    return [mul(u[i], k) for i in range(3)]
def vcross(u, v):
    return [sub(mul(u[1], v[2]), mul(u[2], v[1])), sub(mul(u[2], v[0]), mul(u[0], v[2])), sub(mul(u[0], v[1]), mul(u[1], v[0]))]
