"""Environment stubs for whole-solver harnesses: filesystem, output writers (empty bodies), division stand-in."""
from .interp import K_INT, K_PTR

def fs_stubs():
    ov = {}
    true_ = lambda it, a: 1
    for n in ['_ZNSt10filesystem10remove_allERKNS_7__cxx114pathE', '_ZNSt10filesystem18create_directoriesERKNS_7__cxx114pathE', '_ZNSt10filesystem16create_directoryERKNS_7__cxx114pathE']:
        ov[n] = true_
    def absolute(it, a):
        # sret path, arg path: copy the string member (path = {string _M_pathname; _List _M_cmpts})
        it.str_init(a[0], it.str_get(a[1]))
        it.store(a[0] + 32, 8, 0)
        return None
    ov['_ZNSt10filesystem8absoluteERKNS_7__cxx114pathE'] = absolute
    nop = lambda it, a: None
    ov['_ZNSt10filesystem7__cxx114path14_M_split_cmptsEv'] = nop
    ov['_ZNSt10filesystem7__cxx114path5_ListC1Ev'] = lambda it, a: it.store(a[0], 8, 0)
    ov['_ZNSt10filesystem7__cxx114path5_ListD1Ev'] = nop
    ov['_ZNSt10filesystem7__cxx114path5_ListD2Ev'] = nop
    ov['_ZNKSt10filesystem7__cxx114path5_List13_Impl_deleterclEPNS2_5_ImplE'] = nop
    ov['_ZNSt10filesystem7__cxx114pathD2Ev'] = lambda it, a: it.externals['_ZNSt7__cxx1112basic_stringIcSt11char_traitsIcESaIcEE10_M_disposeEv'](it, [a[0]])
    return ov

def writer_stubs(events=None):
    ov = {}
    def mesh_write(it, a):
        if events is not None: events.append(('mesh_write', it.str_get(a[0]).decode('latin1')))
        return None
    ov['_ZN11mesh_writer5writeERKNSt7__cxx1112basic_stringIcSt11char_traitsIcESaIcEEES7_RSt6vectorISt10shared_ptrI4cellESaISB_EE'] = mesh_write
    def stats_write(it, a):
        if events is not None: events.append(('stats_write', a[1] if len(a) > 1 else None))
        return None
    ov['_ZN24string_statistics_writer10write_dataEjdRKSt6vectorISt10shared_ptrI4cellESaIS3_EE'] = stats_write
    ov['_ZN26csv_file_statistics_writer10write_dataEjdRKSt6vectorISt10shared_ptrI4cellESaIS3_EE'] = stats_write
    nop = lambda it, a: None
    # the in-memory statistics writer is an output sink: its construction keeps only the vtable, its destruction releases the object
    def ssw_ctor(it, a):
        it.store(a[0], 8, it.addr_of_global('_ZTV24string_statistics_writer') + 16)
        return None
    ov['_ZN24string_statistics_writerC2Ev'] = ssw_ctor
    ov['_ZN24string_statistics_writerC1Ev'] = ssw_ctor
    ov['_ZN24string_statistics_writerD2Ev'] = nop
    ov['_ZN24string_statistics_writerD1Ev'] = nop
    ov['_ZN24string_statistics_writerD0Ev'] = lambda it, a: it.free_region(a[0], 'delete (string_statistics_writer)')
    for n in ['_ZNSt7__cxx1118basic_stringstreamIcSt11char_traitsIcESaIcEEC1Ev', '_ZNSt7__cxx1118basic_stringstreamIcSt11char_traitsIcESaIcEED1Ev',
              '_ZNSt7__cxx1119basic_ostringstreamIcSt11char_traitsIcESaIcEEC1Ev', '_ZNSt7__cxx1119basic_ostringstreamIcSt11char_traitsIcESaIcEED1Ev']:
        ov[n] = nop
    return ov

def divide_stub():
    real = '_ZN12cell_divider11divide_cellESt10shared_ptrI4cellEdRK18local_mesh_refiner'
    def h(it, a):
        return it.call_function('_Z13h_divide_stubSt10shared_ptrI4cellEdRK18local_mesh_refiner', a)
    return {real: h}


def opaque_to_string(it_module_functions=None):
    """std::to_string of a *symbolic* integer yields the text "#" (formatting of diagnostics is not the subject of the checks that
    use this; concrete arguments run the real libstdc++ code).  Returns an overrides dict for api.Session."""
    out = {}
    def make(name):
        def f(it, a):
            v = it._known(a[1])
            if type(v) is int or v is None:
                return it.invoke_target(('ir', it.m.funcs[name], name), a)
            it.str_init(a[0], b'#')
            return None
        return f
    for suffix in ('i', 'j', 'l', 'm', 'x', 'y'):
        n = '_ZNSt7__cxx119to_stringE' + suffix
        out[n] = make(n)
    return out
