"""irsym interpreter: executes LLVM-14 IR with concrete heap shape and concrete or
symbolic scalars.

Pointers and integers are python ints (address = region_id << 32 | offset), doubles
are python floats (IEEE) or sym.Node of sort 'R' (exact-real reading); symbolic
integers are sym.Node of sort 'I', symbolic booleans sort 'B'.
"""
import math
import struct
import sys
from fractions import Fraction

from . import llparse as L
from . import sym as S
from . import fpsym as FS

Node = S.Node
sys.setrecursionlimit(200000)

class Unsupported(Exception):
    pass

class MemoryError_(Exception):
    """out-of-bounds, use-after-free, uninitialised decision, bad delete ..."""
    def __init__(self, kind, msg, where=None):
        Exception.__init__(self, '%s: %s' % (kind, msg))
        self.kind = kind
        self.msg = msg
        self.where = where

class Unwind(Exception):
    """a C++ exception in flight"""
    def __init__(self, exc_ptr, tinfo, dtor):
        Exception.__init__(self)
        self.exc_ptr = exc_ptr
        self.tinfo = tinfo
        self.dtor = dtor

class ReturnFrom(Exception):
    """raised by a stub to make the named IR function return immediately (used to cut an output-formatting tail whose
    effects are not the subject, e.g. building a file name from a symbolic number)"""
    def __init__(self, name, value=None):
        Exception.__init__(self); self.name = name; self.value = value

class ProgramExit(Exception):
    def __init__(self, code):
        self.code = code

class PathEnd(Exception):
    """raised to abandon the current path (infeasible assumption, budget ...)"""
    def __init__(self, reason):
        self.reason = reason

class UndefT:
    __slots__ = ()
    def __repr__(self): return 'UNDEF'
UNDEF = UndefT()

class PInt:
    """integer whose bits are only partly defined (e.g. an 8-byte load of a bool followed by padding): val holds the defined
    bits, mask the positions that are defined. Moves, masks, shifts and truncations keep track; using undefined bits in a decision is reported."""
    __slots__ = ('val', 'mask', 'bits')
    def __init__(self, val, mask, bits):
        self.val = val & mask; self.mask = mask; self.bits = bits
    def __repr__(self): return 'PInt(%x/%x)' % (self.val, self.mask)

def pint_norm(p):
    full = (1 << p.bits) - 1
    if p.mask & full == full: return p.val & full
    if p.mask & full == 0: return UNDEF
    return p

class Region:
    __slots__ = ('id', 'size', 'cells', 'live', 'kind', 'name', 'const', 'note', 'sym_size', 'sym_min')
    def __init__(self, id, size, kind, name):
        self.id = id; self.size = size; self.cells = {}; self.live = True
        self.kind = kind; self.name = name; self.const = False; self.note = None
        self.sym_size = None; self.sym_min = 0      # allocation whose byte count is symbolic: size is the backing store only

SHIFT = 32
OFFMASK = (1 << SHIFT) - 1
M64 = (1 << 64) - 1

def f2i(f):
    return struct.unpack('<Q', struct.pack('<d', f))[0]
def i2f(i):
    return struct.unpack('<d', struct.pack('<Q', i & M64))[0]
def f32_2i(f):
    return struct.unpack('<I', struct.pack('<f', f))[0]
def i2f32(i):
    return struct.unpack('<f', struct.pack('<I', i & 0xFFFFFFFF))[0]
def round_f32(f):
    try:
        return struct.unpack('<f', struct.pack('<f', f))[0]
    except OverflowError:
        return math.copysign(math.inf, f)

def sext(v, bits):
    return v - (1 << bits) if v >> (bits - 1) else v

# opcodes
(O_GEP, O_LOAD, O_STORE, O_MOVE, O_ICMP, O_BIN, O_BR, O_CONDBR, O_CALL, O_RET, O_FBIN, O_FCMP, O_SELECT,
 O_CAST, O_ALLOCA, O_SWITCH, O_EXTRACT, O_INSERT, O_LANDINGPAD, O_RESUME, O_UNREACHABLE, O_ATOMICRMW,
 O_CMPXCHG, O_FNEG, O_FREEZE) = range(25)

K_INT, K_DOUBLE, K_FLOAT, K_PTR, K_AGG = range(5)

ICMP_PREDS = {'eq': 0, 'ne': 1, 'ugt': 2, 'uge': 3, 'ult': 4, 'ule': 5, 'sgt': 6, 'sge': 7, 'slt': 8, 'sle': 9}
BIN_OPS = {'add': 0, 'sub': 1, 'mul': 2, 'udiv': 3, 'sdiv': 4, 'urem': 5, 'srem': 6, 'and': 7, 'or': 8, 'xor': 9, 'shl': 10, 'lshr': 11, 'ashr': 12}
FBIN_OPS = {'fadd': 0, 'fsub': 1, 'fmul': 2, 'fdiv': 3, 'frem': 4}

class Compiled:
    __slots__ = ('code', 'nregs', 'template', 'param_slots', 'name', 'func', 'entry_pc', 'block_pc')

class Frame:
    __slots__ = ('fn', 'regs', 'allocas', 'cur_exc')

class Interp:
    def __init__(self, module, mode='real'):
        self.m = module
        self.mode = mode            # 'real' : symbolic doubles are exact reals ; 'ieee': purely concrete
        self.regions = [None]       # index = region id
        self.global_addr = {}
        self.func_addr = {}
        self.addr_func = {}
        self.externals = {}
        self.overrides = {}
        self.compiled = {}
        self.steps = 0
        self.max_steps = 50_000_000
        self.depth = 0
        self.trace_calls = None     # optional callable(name, args)
        self.pathctl = None         # PathController (decisions on symbolic branches)
        self.events = []            # harness-visible event log
        self.mem_reports = []       # non-fatal memory monitor reports
        self.exc_stack = []         # caught exceptions (for rethrow)
        self.uncaught = 0
        self.call_stack = []
        self.strict_undef = True
        self.pending_ctors = []
        self.live_exceptions = {}
        self.rw = None; self.rw_atomic = None
        self.poly_mode = False; self.polytab = {}; self.polyvars = []; self.polycache = {}; self.poly_residue = 0
        from . import models
        models.install(self)
        models.install_strings(self)

    # ------------------------------------------------------------------ memory
    def alloc(self, size, kind, name=None):
        rid = len(self.regions)
        r = Region(rid, size, kind, name)
        self.regions.append(r)
        return rid << SHIFT

    def region_of(self, addr, size, what):
        if type(addr) is not int:
            if addr is UNDEF:
                raise MemoryError_('uninitialised-pointer', '%s through an uninitialised pointer' % what, self.where())
            addr = self.symbolic_address(addr, size, what)
        rid = addr >> SHIFT
        if rid <= 0 or rid >= len(self.regions):
            raise MemoryError_('invalid-pointer', '%s of %d bytes at address 0x%x (no such object)' % (what, size, addr), self.where())
        r = self.regions[rid]
        off = addr & OFFMASK
        if not r.live:
            raise MemoryError_('use-after-free', '%s of %d bytes at offset %d of dead %s region %s' % (what, size, off, r.kind, r.name), self.where())
        if r.sym_size is not None:
            if off + size > r.sym_min:
                if not self.decide(S.cmp('le', S.iconst(off + size, 64), r.sym_size)):
                    raise MemoryError_('out-of-bounds', '%s of %d bytes at offset %d of %s region %s whose size is symbolic (%s)' % (what, size, off, r.kind, r.name, S.show(r.sym_size, 3)), self.where())
                r.sym_min = off + size
            if off + size > r.size:
                raise Unsupported('access at offset %d of a symbolically sized allocation (backing store %d bytes)' % (off, r.size))
            return r, off
        if off + size > r.size:
            raise MemoryError_('out-of-bounds', '%s of %d bytes at offset %d of %s region %s of size %d' % (what, size, off, r.kind, r.name, r.size), self.where())
        return r, off

    def gep_symbolic(self, a, ins, regs):
        """address arithmetic with symbolic base or indices (two's complement, modulo 2^64)"""
        a = self._known(a)
        if type(a) is not int and not (type(a) is Node and a.sort == 'I'):
            a = self.concretize_int(a)
        a = S.iadd(S.I(a, 64), S.iconst(ins[3] & M64, 64), 64)
        for (s, stride, bits) in ins[4]:
            i = self._known(regs[s])
            if type(i) is Node and i.sort == 'I':
                if bits < 64: i = self.cast('sext', i, bits, 64)
                a = S.iadd(a, S.imul(i, S.iconst(stride & M64, 64), 64), 64)
                continue
            if type(i) is not int:
                i = self.concretize_int(i)
            if i >> (bits - 1): i -= 1 << bits
            a = S.iadd(a, S.iconst((i * stride) & M64, 64), 64)
        if a.op == 'iconst': return a.args[0]
        return a

    def symbolic_address(self, addr, size, what):
        """access through base + symbolic offset: the solver decides whether the offset can leave the object (that path is an
        out-of-bounds report carrying the path condition); inside the object the feasible addresses are enumerated"""
        k = self._known(addr)
        if type(k) is int: return k
        if type(addr) is Node and addr.sort == 'I' and self.pathctl is not None:
            def base_of(n):
                if n.op == 'iconst':
                    return n.args[0] if 0 < (n.args[0] >> SHIFT) < len(self.regions) else None
                if n.op == 'iadd':
                    for a in n.args:
                        b = base_of(a)
                        if b is not None: return b
                    return None
                if n.op in ('isub', 'irew', 'imod'): return base_of(n.args[0])
                return None
            base = base_of(addr)
            if base is not None:
                rid = base >> SHIFT; r = self.regions[rid]
                lo = rid << SHIFT; hi = lo + r.size - size
                if r.sym_size is not None:
                    inb = S.band(S.cmp('ge', addr, S.iconst(lo, 64)), S.cmp('le', S.iadd(addr, S.iconst(size, 64), 64), S.iadd(S.iconst(lo, 64), r.sym_size, 64)))
                else:
                    inb = S.band(S.cmp('ge', addr, S.iconst(lo, 64)), S.cmp('le', addr, S.iconst(hi, 64))) if hi >= lo else S.FALSE
                if not self.decide(inb):
                    raise MemoryError_('out-of-bounds', '%s of %d bytes at a symbolic offset that can lie outside %s region %s of size %d' % (what, size, r.kind, r.name, r.size), self.where())
        return self.concretize_int(addr)

    def where(self):
        return ' <- '.join(reversed(self.call_stack[-6:]))

    def load(self, addr, size, kind):
        r, off = self.region_of(addr, size, 'load')
        if self.rw is not None: self.rw(self, r, off, size, 0)
        if r.kind == 'func':
            raise MemoryError_('invalid-pointer', 'load from function address', self.where())
        c = r.cells.get(off)
        if c is not None and c[0] == size:
            v = c[1]
        else:
            v = self._load_slow(r, off, size)
        t = type(v)
        if kind == K_INT or kind == K_PTR:
            if t is int: return v
            if t is float: return f2i(v) if size == 8 else f32_2i(v)
            return v   # a symbolic real loaded as i64 is carried as an opaque bit pattern (only moves are allowed on it)
        if kind == K_DOUBLE:
            if t is float: return v
            if t is int: return i2f(v)
            return v
        if kind == K_FLOAT:
            if t is float: return v
            if t is int: return i2f32(v)
            return v
        return v

    def _cell_bytes(self, c):
        size, v = c
        t = type(v)
        if t is int: return v.to_bytes(size, 'little')
        if t is float:
            return struct.pack('<d', v) if size == 8 else struct.pack('<f', v)
        return None

    def _load_slow(self, r, off, size):
        # assemble from overlapping cells
        out = [None] * size
        cells = r.cells
        # a read that covers whole integer cells of which some are symbolic: little-endian packing
        pos = off; parts = []
        while pos < off + size:
            c = cells.get(pos)
            if c is None or pos + c[0] > off + size or not (type(c[1]) is int or (type(c[1]) is Node and c[1].sort == 'I')): break
            parts.append((pos - off, c[1])); pos += c[0]
        if pos == off + size and len(parts) > 1 and any(type(v) is Node for _, v in parts):
            w = 8 * size
            acc = S.iconst(0, w)
            for sh, v in parts:
                x = S.izext(v, v.width, w) if type(v) is Node else S.iconst(v, w)
                acc = S.iadd(acc, S.imul(x, S.iconst(1 << (8 * sh), w), w), w)
            return acc
        for o in range(off - 15, off + size):
            c = cells.get(o)
            if c is None: continue
            cs = c[0]
            if o + cs <= off: continue
            b = self._cell_bytes(c)
            if b is None:
                if c[1] is UNDEF:
                    continue
                # symbolic value partially read
                if o == off and cs == size: return c[1]
                v = c[1]
                if type(v) is Node and v.sort == 'I' and o <= off and off + size <= o + cs:
                    # a field of a packed symbolic word: (v >> shift) mod 2^(8*size)
                    shift = 8 * (off - o)
                    w = v.width
                    x = S.iudiv(v, S.iconst(1 << shift, w), w) if shift else v
                    return S.itrunc(x, 8 * size)
                raise Unsupported('partial read of a symbolic cell (cell at %d size %d holding %s, read %d bytes at %d) at %s' % (o, cs, S.show(c[1], 3) if type(c[1]) is Node else repr(c[1]), size, off, self.where()))
            for j in range(cs):
                p = o + j - off
                if 0 <= p < size:
                    out[p] = b[j]
        if all(x is None for x in out):
            return UNDEF
        if any(x is None for x in out):
            # partially initialised (e.g. bool + padding): keep the defined bytes
            val = 0; mask = 0
            for k, x in enumerate(out):
                if x is not None:
                    val |= x << (8 * k); mask |= 0xFF << (8 * k)
            return PInt(val, mask, 8 * size)
        return int.from_bytes(bytes(out), 'little')

    def store(self, addr, size, v):
        r, off = self.region_of(addr, size, 'store')
        if self.rw is not None: self.rw(self, r, off, size, 1)
        if r.const:
            raise MemoryError_('write-to-constant', 'store to constant %s' % r.name, self.where())
        if type(v) is PInt:
            self._clear_range(r, off, size)
            for k in range(size):
                if (v.mask >> (8 * k)) & 0xFF == 0xFF:
                    r.cells[off + k] = (1, (v.val >> (8 * k)) & 0xFF)
            return
        cells = r.cells
        c = cells.get(off)
        if c is not None and c[0] == size:
            cells[off] = (size, v)
            return
        self._clear_range(r, off, size)
        cells[off] = (size, v)

    def _clear_range(self, r, off, size):
        cells = r.cells
        if not cells: return
        for o in range(off - 15, off + size):
            c = cells.get(o)
            if c is None: continue
            cs = c[0]
            if o + cs <= off: continue
            if o >= off and o + cs <= off + size:
                del cells[o]
                continue
            # partial overlap: split into bytes
            b = self._cell_bytes(c)
            del cells[o]
            if b is None:
                continue  # symbolic / undef remainder becomes undef
            for j in range(cs):
                p = o + j
                if p < off or p >= off + size:
                    cells[p] = (1, b[j])

    def memcpy(self, dst, src, n):
        if n == 0: return
        rs, so = self.region_of(src, n, 'memcpy-read')
        rd, do = self.region_of(dst, n, 'memcpy-write')
        if self.rw is not None:
            self.rw(self, rs, so, n, 0); self.rw(self, rd, do, n, 1)
        if rd.const:
            raise MemoryError_('write-to-constant', 'memcpy to constant %s' % rd.name, self.where())
        # collect source cells fully inside [so, so+n)
        items = []
        scells = rs.cells
        if len(scells) < n:
            for o, c in scells.items():
                if o + c[0] > so and o < so + n:
                    items.append((o, c))
        else:
            for o in range(so - 15, so + n):
                c = scells.get(o)
                if c is not None and o + c[0] > so:
                    items.append((o, c))
        self._clear_range(rd, do, n)
        dcells = rd.cells
        for o, c in items:
            cs = c[0]
            if o >= so and o + cs <= so + n:
                dcells[do + (o - so)] = c
            else:
                b = self._cell_bytes(c)
                if b is None: continue
                for j in range(cs):
                    p = o + j
                    if so <= p < so + n:
                        dcells[do + (p - so)] = (1, b[j])

    def memset(self, dst, val, n):
        if n == 0: return
        r, off = self.region_of(dst, n, 'memset')
        if self.rw is not None: self.rw(self, r, off, n, 1)
        self._clear_range(r, off, n)
        cells = r.cells
        val &= 0xFF
        i = 0
        if off % 8 == 0:
            w = int.from_bytes(bytes([val]) * 8, 'little')
            while i + 8 <= n:
                cells[off + i] = (8, w)
                i += 8
        while i < n:
            cells[off + i] = (1, val)
            i += 1

    def read_cstring(self, addr, maxlen=1 << 20):
        out = bytearray()
        while len(out) < maxlen:
            b = self.load(addr + len(out), 1, K_INT)
            if type(b) is not int:
                raise Unsupported('non-concrete byte in C string')
            if b == 0: break
            out.append(b)
        return bytes(out)

    def read_bytes(self, addr, n):
        return bytes(self.load(addr + i, 1, K_INT) for i in range(n))

    def write_bytes(self, addr, data):
        for i, b in enumerate(data):
            self.store(addr + i, 1, b)

    def free_region(self, addr, what='free', size=None):
        if addr == 0: return
        rid = addr >> SHIFT
        off = addr & OFFMASK
        if rid <= 0 or rid >= len(self.regions):
            raise MemoryError_('invalid-free', '%s of invalid pointer 0x%x' % (what, addr), self.where())
        r = self.regions[rid]
        if not r.live:
            raise MemoryError_('double-free', '%s of already released %s region %s' % (what, r.kind, r.name), self.where())
        if off != 0 or r.kind not in ('heap',):
            raise MemoryError_('invalid-free', '%s of pointer into %s region %s at offset %d' % (what, r.kind, r.name, off), self.where())
        if size is not None and size != r.size:
            raise MemoryError_('sized-delete-mismatch', 'sized delete of %d bytes for an allocation of %d bytes (%s)' % (size, r.size, r.name), self.where())
        if self.rw is not None: self.rw(self, r, 0, r.size, 1)
        r.live = False
        r.cells = None

    # --------------------------------------------------------------- globals
    def addr_of_global(self, name):
        a = self.global_addr.get(name)
        if a is not None:
            return a
        m = self.m
        seen = 0
        while name in m.aliases and seen < 10:
            name2 = m.aliases[name]
            a = self.global_addr.get(name2)
            if a is not None:
                self.global_addr[name] = a
                return a
            if name2 in m.funcs or name2 in m.globals_src:
                tgt = self.addr_of_global(name2)
                self.global_addr[name] = tgt
                return tgt
            name = name2; seen += 1
        if name in m.funcs:
            a = self.alloc(1, 'func', name)
            self.func_addr[name] = a
            self.addr_func[a] = name
            self.global_addr[name] = a
            return a
        if name in m.globals_src:
            ty, is_const, init = m.parse_global(name)
            try:
                size = ty.size()
            except L.ParseError:
                size = 64
            a = self.alloc(max(size, 1), 'global', name)
            self.global_addr[name] = a
            if init is not None:
                self.store_const(a, init)
                self.regions[a >> SHIFT].const = is_const
                ctor = m.ctor_of_global.get(name)
                if ctor is not None and not name.endswith('_data_mapper_lst'):
                    # dynamic initialiser of an inline static data member (e.g. q_min_ = 36/sqrt(3)): run it now
                    self.pending_ctors.append(ctor)
            else:
                self.regions[a >> SHIFT].kind = 'extern'
                self.regions[a >> SHIFT].size = max(size, 4096)
                if name == '__libc_single_threaded':
                    self.store(a, 1, 1)
                if name == '_ZTVSt9exception':
                    # vtable of std::exception (objects of exactly that type appear when an exception is copied by its static type):
                    # {offset-to-top, typeinfo, ~exception() complete, ~exception() deleting, what()}
                    for k, fn in enumerate(('_ZNSt9exceptionD1Ev', '_ZNSt9exceptionD0Ev', '_ZNKSt9exception4whatEv')):
                        fa = self.func_addr.get(fn)
                        if fa is None:
                            fa = self.alloc(1, 'func', fn); self.func_addr[fn] = fa; self.addr_func[fa] = fn
                        self.store(a + 16 + 8 * k, 8, fa)
                    self.store(a, 8, 0)
            return a
        raise Unsupported('unknown global @' + name)

    def store_const(self, addr, c):
        k = c.kind
        ty = c.type
        if k == 'zero':
            n = ty.size()
            if n: self.memset(addr, 0, n)
        elif k == 'undef':
            pass
        elif k == 'cstr':
            self.write_bytes(addr, c.val)
        elif k == 'struct':
            offs = ty.offsets()
            for o, e in zip(offs, c.args):
                self.store_const(addr + o, e)
        elif k == 'array':
            es = ty.elem.size()
            for i, e in enumerate(c.args):
                self.store_const(addr + i * es, e)
        else:
            v = self.const_value(c)
            self.store(addr, ty.size(), v)

    def const_value(self, c):
        k = c.kind
        if k == 'int': return c.val
        if k == 'fp':
            return c.val
        if k == 'null': return 0
        if k == 'global': return self.addr_of_global(c.val)
        if k == 'undef':
            ty = c.type
            if ty.kind in ('struct', 'array'):
                return self.zero_agg(ty, UNDEF)
            return UNDEF
        if k == 'zero':
            ty = c.type
            if ty.kind in ('struct', 'array'): return self.zero_agg(ty, None)
            if ty.kind in ('double', 'float'): return 0.0
            return 0
        if k == 'struct' or k == 'array':
            return [self.const_value(e) for e in c.args]
        if k == 'expr':
            op = c.val
            if op == 'gep':
                sty = c.args[0]
                base = self.const_value(c.args[1])
                idx = [self.const_value(x) for x in c.args[2:]]
                off, _ = self.gep_offset(sty, idx, [x.type.bits for x in c.args[2:]])
                return base + off
            if op in ('bitcast', 'inttoptr', 'addrspacecast'):
                return self.const_value(c.args[0])
            if op == 'ptrtoint':
                return self.const_value(c.args[0]) & ((1 << c.type.bits) - 1)
            if op in ('trunc', 'zext'):
                return self.const_value(c.args[0]) & ((1 << c.type.bits) - 1)
            if op == 'sext':
                fb = c.args[0].type.bits
                return sext(self.const_value(c.args[0]), fb) & ((1 << c.type.bits) - 1)
            if op in ('add', 'sub', 'mul'):
                a = self.const_value(c.args[0]); b = self.const_value(c.args[1])
                bits = c.type.bits
                r = a + b if op == 'add' else (a - b if op == 'sub' else a * b)
                return r & ((1 << bits) - 1)
            if op == 'icmp':
                a = self.const_value(c.args[1]); b = self.const_value(c.args[2])
                return int(self.icmp_concrete(ICMP_PREDS[c.args[0]], a, b, 64))
            if op == 'select':
                return self.const_value(c.args[1]) if self.const_value(c.args[0]) else self.const_value(c.args[2])
            raise Unsupported('constant expression ' + op)
        raise Unsupported('constant kind ' + k)

    def zero_agg(self, ty, fill):
        if ty.kind == 'struct':
            return [self.zero_agg(f, fill) for f in ty.fields]
        if ty.kind == 'array':
            return [self.zero_agg(ty.elem, fill) for _ in range(ty.count)]
        if fill is UNDEF: return UNDEF
        if ty.kind in ('double', 'float'): return 0.0
        return 0

    def gep_offset(self, sty, idx, bits):
        """constant part of a GEP over concrete indices"""
        off = sext(idx[0], bits[0]) * sty.size()
        ty = sty
        for i, b in zip(idx[1:], bits[1:]):
            if ty.kind == 'struct':
                off += ty.offsets()[i]
                ty = ty.fields[i]
            else:
                off += sext(i, b) * ty.elem.size()
                ty = ty.elem
        return off, ty

    # --------------------------------------------------------------- compile
    def kind_of(self, ty):
        k = ty.kind
        if k == 'int': return K_INT
        if k == 'ptr': return K_PTR
        if k == 'double': return K_DOUBLE
        if k == 'float': return K_FLOAT
        if k in ('struct', 'array', 'vector'): return K_AGG
        raise Unsupported('value kind of type %r' % ty)

    def compile(self, f):
        m = self.m
        m.parse_body(f)
        slots = {}
        template = []
        def slot_of_local(name):
            s = slots.get(name)
            if s is None:
                s = len(template)
                slots[name] = s
                template.append(None)
            return s
        const_slots = {}
        def operand(v):
            if type(v) is L.Local:
                return slot_of_local(v.name)
            # constant
            val = self.const_value(v)
            if type(val) is list:
                s = len(template); template.append(val); return s
            key = (type(val), val)
            if val is UNDEF: key = 'undef'
            s = const_slots.get(key)
            if s is None:
                s = len(template)
                const_slots[key] = s
                template.append(val)
            return s
        param_slots = [slot_of_local(nm) for (_, nm, _) in f.params]
        code = []
        block_pc = {}
        fix = []   # (code index, kind) to patch labels
        # pre-collect phis per block
        phis = {}
        for lab in f.block_order:
            ph = []
            for ins in f.blocks[lab]:
                if ins.op == 'phi': ph.append(ins)
                else: break
            phis[lab] = ph
        def edge_moves(frm, to):
            mv = []
            for ph in phis[to]:
                src = None
                for (v, lab) in ph.args:
                    if lab == frm:
                        src = v; break
                if src is None:
                    raise L.ParseError('phi without incoming for %s in %s' % (frm, f.name))
                mv.append((slot_of_local(ph.dest), operand(src)))
            return tuple(mv)
        for lab in f.block_order:
            block_pc[lab] = len(code)
            for ins in f.blocks[lab]:
                op = ins.op
                if op == 'phi':
                    continue
                d = slot_of_local(ins.dest) if ins.dest is not None else -1
                if op == 'getelementptr':
                    base = operand(ins.args[0])
                    sty = ins.type
                    coff = 0
                    dyn = []
                    ty = None
                    first = True
                    for (ity, iv) in ins.extra:
                        if first:
                            stride = sty.size() if sty.kind != 'void' and not (sty.kind == 'struct' and sty.fields is None) else 1
                            ty = sty
                            first = False
                            if type(iv) is L.Const and iv.kind == 'int':
                                coff += sext(iv.val, ity.bits) * stride
                            else:
                                dyn.append((operand(iv), stride, ity.bits))
                            continue
                        if ty.kind == 'struct':
                            fi = iv.val
                            coff += ty.offsets()[fi]
                            ty = ty.fields[fi]
                        else:
                            stride = ty.elem.size()
                            ty = ty.elem
                            if type(iv) is L.Const and iv.kind == 'int':
                                coff += sext(iv.val, ity.bits) * stride
                            else:
                                dyn.append((operand(iv), stride, ity.bits))
                    code.append((O_GEP, d, base, coff, tuple(dyn)))
                elif op == 'load':
                    ty = ins.type
                    code.append((O_LOAD, d, operand(ins.args[0]), ty.size(), self.kind_of(ty), ty))
                elif op == 'store':
                    ty = ins.type
                    code.append((O_STORE, operand(ins.args[0]), operand(ins.args[1]), ty.size(), self.kind_of(ty), ty))
                elif op in ('bitcast', 'ptrtoint', 'inttoptr', 'addrspacecast'):
                    fty = ins.extra; tty = ins.type
                    fk = fty.kind; tk = tty.kind
                    if (fk in ('ptr', 'int')) and (tk in ('ptr', 'int')):
                        fb = 64 if fk == 'ptr' else fty.bits
                        tb = 64 if tk == 'ptr' else tty.bits
                        if tb >= fb:
                            code.append((O_MOVE, d, operand(ins.args[0])))
                        else:
                            code.append((O_CAST, d, 'trunc', operand(ins.args[0]), fb, tb))
                    else:
                        code.append((O_CAST, d, 'bitcast_' + fk + '_' + tk, operand(ins.args[0]), 0, 0))
                elif op in ('trunc', 'zext', 'sext', 'fptrunc', 'fpext', 'sitofp', 'uitofp', 'fptosi', 'fptoui'):
                    fty = ins.extra; tty = ins.type
                    fb = fty.bits if fty.kind == 'int' else (64 if fty.kind == 'double' else 32)
                    tb = tty.bits if tty.kind == 'int' else (64 if tty.kind == 'double' else 32)
                    code.append((O_CAST, d, op, operand(ins.args[0]), fb, tb))
                elif op == 'icmp':
                    bits = 64 if ins.type.kind == 'ptr' else ins.type.bits
                    code.append((O_ICMP, d, ICMP_PREDS[ins.extra], operand(ins.args[0]), operand(ins.args[1]), bits))
                elif op in BIN_OPS:
                    code.append((O_BIN, d, BIN_OPS[op], operand(ins.args[0]), operand(ins.args[1]), ins.type.bits))
                elif op in FBIN_OPS:
                    code.append((O_FBIN, d, FBIN_OPS[op], operand(ins.args[0]), operand(ins.args[1]), ins.type.kind == 'float'))
                elif op == 'fneg':
                    code.append((O_FNEG, d, operand(ins.args[0])))
                elif op == 'freeze':
                    code.append((O_FREEZE, d, operand(ins.args[0])))
                elif op == 'fcmp':
                    code.append((O_FCMP, d, ins.extra, operand(ins.args[0]), operand(ins.args[1])))
                elif op == 'select':
                    code.append((O_SELECT, d, operand(ins.args[0]), operand(ins.args[1]), operand(ins.args[2]), self.kind_of(ins.type)))
                elif op == 'alloca':
                    n = ins.args[0]
                    code.append((O_ALLOCA, d, ins.type.size(), operand(n) if n is not None else -1, ins.dest))
                elif op == 'br':
                    fix.append(len(code))
                    code.append([O_BR, ins.extra[0], edge_moves(lab, ins.extra[0])])
                elif op == 'condbr':
                    fix.append(len(code))
                    t, e = ins.extra
                    code.append([O_CONDBR, operand(ins.args[0]), t, edge_moves(lab, t), e, edge_moves(lab, e)])
                elif op == 'switch':
                    default, cases = ins.extra
                    fix.append(len(code))
                    tbl = {}
                    for cv, cl in cases:
                        if cv not in tbl:
                            tbl[cv] = [cl, edge_moves(lab, cl)]
                    code.append([O_SWITCH, operand(ins.args[0]), tbl, [default, edge_moves(lab, default)], ins.type.bits])
                elif op == 'ret':
                    code.append((O_RET, operand(ins.args[0]) if ins.args else -1))
                elif op in ('call', 'invoke'):
                    callee = ins.args[0]
                    target = None
                    if type(callee) is L.Const and callee.kind == 'global':
                        target = self.resolve_callee(callee.val)
                        cslot = -1
                    else:
                        cslot = operand(callee)
                    args = []
                    for (aty, av, attrs) in ins.args[1:]:
                        if av is None:
                            args.append(-1)
                        else:
                            args.append(operand(av))
                    rk = -1 if ins.type.kind == 'void' else self.kind_of(ins.type)
                    if ins.extra is not None:
                        fix.append(len(code))
                        n_, u_ = ins.extra
                        code.append([O_CALL, d, target, cslot, tuple(args), n_, edge_moves(lab, n_), u_, edge_moves(lab, u_), rk])
                    else:
                        code.append([O_CALL, d, target, cslot, tuple(args), None, None, None, None, rk])
                elif op == 'extractvalue':
                    code.append((O_EXTRACT, d, operand(ins.args[0]), tuple(ins.extra)))
                elif op == 'insertvalue':
                    code.append((O_INSERT, d, operand(ins.args[0]), operand(ins.args[1]), tuple(ins.extra)))
                elif op == 'landingpad':
                    cleanup, clauses = ins.extra
                    cl = []
                    for kind, cv in clauses:
                        if kind == 'catch':
                            cl.append(('catch', self.const_value(cv)))
                        else:
                            cl.append(('filter', cv))
                    code.append((O_LANDINGPAD, d, cleanup, tuple(cl)))
                elif op == 'resume':
                    code.append((O_RESUME, operand(ins.args[0])))
                elif op == 'unreachable':
                    code.append((O_UNREACHABLE,))
                elif op == 'atomicrmw':
                    ty = ins.type
                    code.append((O_ATOMICRMW, d, ins.extra, operand(ins.args[0]), operand(ins.args[1]), ty.size(), self.kind_of(ty)))
                elif op == 'cmpxchg':
                    ty = ins.type
                    code.append((O_CMPXCHG, d, operand(ins.args[0]), operand(ins.args[1]), operand(ins.args[2]), ty.size(), self.kind_of(ty)))
                else:
                    raise Unsupported('instruction ' + op)
        for i in fix:
            c = code[i]
            if c[0] == O_BR:
                c[1] = block_pc[c[1]]
            elif c[0] == O_CONDBR:
                c[2] = block_pc[c[2]]; c[4] = block_pc[c[4]]
            elif c[0] == O_SWITCH:
                for v in c[2].values(): v[0] = block_pc[v[0]]
                c[3][0] = block_pc[c[3][0]]
            elif c[0] == O_CALL:
                c[5] = block_pc[c[5]]; c[7] = block_pc[c[7]]
            code[i] = tuple(c) if c[0] != O_SWITCH else c
        code = [tuple(c) if type(c) is list and c[0] != O_SWITCH else c for c in code]
        cf = Compiled()
        cf.code = code; cf.nregs = len(template); cf.template = template
        cf.param_slots = param_slots; cf.name = f.name; cf.func = f
        self.compiled[f.name] = cf
        return cf

    def resolve_callee(self, name):
        """returns ('py', handler, name) | ('ir', Function) | ('missing', name)"""
        m = self.m
        seen = 0
        while name in m.aliases and name not in m.funcs and seen < 10:
            name = m.aliases[name]; seen += 1
        h = self.overrides.get(name)
        if h is not None:
            return ('py', h, name)
        f = m.funcs.get(name)
        if f is not None and f.text is not None:
            return ('ir', f, name)
        h = self.externals.get(name)
        if h is not None:
            return ('py', h, name)
        if name.startswith('llvm.'):
            base = name
            # strip type suffixes progressively: llvm.memcpy.p0i8.p0i8.i64 -> llvm.memcpy
            parts = name.split('.')
            for k in range(len(parts), 1, -1):
                h = self.externals.get('.'.join(parts[:k]))
                if h is not None:
                    return ('py', h, name)
        return ('missing', None, name)

    # --------------------------------------------------------------- execution
    def run_pending_ctors(self):
        while self.pending_ctors:
            c = self.pending_ctors.pop()
            self.invoke_target(self.resolve_callee(c), [])

    def call_function(self, name, args):
        t = self.resolve_callee(name)
        return self.invoke_target(t, args)

    def invoke_target(self, t, args):
        k = t[0]
        if k == 'ir':
            f = t[1]
            cf = self.compiled.get(f.name)
            if cf is None:
                cf = self.compile(f)
                if self.pending_ctors:
                    self.run_pending_ctors()
            return self.run(cf, args)
        if k == 'py':
            return t[1](self, args)
        raise Unsupported('call to external function without a model: ' + t[2])

    def call_addr(self, addr, args):
        if type(addr) is not int:
            if addr is UNDEF:
                raise MemoryError_('uninitialised-pointer', 'indirect call through uninitialised pointer', self.where())
            addr = self.concretize_int(addr)
        name = self.addr_func.get(addr)
        if name is None:
            raise MemoryError_('invalid-pointer', 'indirect call to non-function address 0x%x' % addr, self.where())
        return self.call_function(name, args)

    # decisions -----------------------------------------------------------------
    def decide(self, cond):
        """cond: Node of sort B -> python bool (may fork through the path controller)"""
        if cond is S.TRUE: return True
        if cond is S.FALSE: return False
        if self.pathctl is None:
            raise Unsupported('symbolic branch without a path controller: %r' % (cond,))
        return self.pathctl.decide(cond, self)

    def truth(self, v):
        """i1 value -> python bool"""
        if type(v) is int: return v & 1 == 1
        if type(v) is Node:
            if v.sort == 'B': return self.decide(v)
            if v.sort == 'I': return self.decide(S.cmp('ne', v, S.iconst(0, v.width)))
        if type(v) is PInt:
            v = pint_norm(PInt(v.val, v.mask, 1))
            if type(v) is int: return v & 1 == 1
            v = UNDEF
        if v is UNDEF:
            msg = 'branch on an uninitialised value'
            if self.strict_undef:
                raise MemoryError_('uninitialised-decision', msg, self.where())
            self.mem_reports.append(('uninitialised-decision', msg, self.where()))
            return False
        raise Unsupported('truth of %r' % (v,))

    def concretize_int(self, v):
        if type(v) is int: return v
        if v is UNDEF:
            raise MemoryError_('uninitialised-decision', 'uninitialised value used as index/pointer', self.where())
        if type(v) is Node:
            if v.sort == 'B':
                return 1 if self.decide(v) else 0
            if v.sort == 'I':
                if self.pathctl is None:
                    raise Unsupported('symbolic integer without a path controller')
                return self.pathctl.concretize(v, self)
        raise Unsupported('concretize %r' % (v,))

    # arithmetic helpers -------------------------------------------------------
    def icmp_concrete(self, pred, a, b, bits):
        if pred == 0: return a == b
        if pred == 1: return a != b
        if pred == 2: return a > b
        if pred == 3: return a >= b
        if pred == 4: return a < b
        if pred == 5: return a <= b
        a = sext(a, bits); b = sext(b, bits)
        if pred == 6: return a > b
        if pred == 7: return a >= b
        if pred == 8: return a < b
        return a <= b

    def _known(self, v):
        if type(v) is Node and self.pathctl is not None:
            k = self.pathctl.known.get(v.id)
            if k is not None: return k
        return v

    def icmp_slow(self, pred, a, b, bits):
        if type(a) is PInt: a = pint_norm(PInt(a.val, a.mask, bits))
        if type(b) is PInt: b = pint_norm(PInt(b.val, b.mask, bits))
        if type(a) is PInt or type(b) is PInt:
            return UNDEF
        if a is UNDEF or b is UNDEF:
            return UNDEF
        a = self._known(a); b = self._known(b)
        if self.pathctl is not None and getattr(self.pathctl, 'eager_ints', False):
            # enumerate symbolic integers as soon as a decision depends on them (keeps loop bounds concrete)
            if type(a) is Node and a.sort == 'I': a = self.concretize_int(a)
            if type(b) is Node and b.sort == 'I': b = self.concretize_int(b)
        if type(a) is int and type(b) is int:
            return 1 if self.icmp_concrete(pred, a, b, bits) else 0
        ta = type(a); tb = type(b)
        if (ta is Node and a.sort == 'B') or (tb is Node and b.sort == 'B'):
            # comparisons of i1 values
            a = S.B(a & 1 if ta is int else a); b = S.B(b & 1 if tb is int else b)
            if pred == 0: return S.bnot(S.bxor(a, b))
            if pred == 1: return S.bxor(a, b)
            raise Unsupported('ordered compare of symbolic booleans')
        if ta is float or tb is float or (ta is Node and a.sort == 'R') or (tb is Node and b.sort == 'R'):
            raise Unsupported('integer compare of a double at %s' % self.where())
        a = S.I(a, bits); b = S.I(b, bits)
        if pred <= 5:
            op = ('eq', 'ne', 'gt', 'ge', 'lt', 'le')[pred]
            return S.cmp(op, a, b)
        # signed compare: valid only if both provably below 2^(bits-1)
        half = 1 << (bits - 1)
        if a.hi is not None and a.hi < half and b.hi is not None and b.hi < half:
            op = ('gt', 'ge', 'lt', 'le')[pred - 6]
            return S.cmp(op, a, b)
        # general: reinterpret
        def sgn(x):
            # two's complement reading of the unsigned representative: x - 2^bits when the sign bit is set (math integers, no wrap)
            if x.op == 'iconst':
                v = x.args[0] - (1 << bits) if x.args[0] >= half else x.args[0]
                n = S.mk('iconst', (v,), 'I', bits + 1); n.lo = n.hi = v
                return n
            if x.hi is not None and x.hi < half: return x
            m = S.mk('isub', (x, S.iconst(1 << bits, bits + 1)), 'I', bits + 1)
            m.lo = (x.lo if x.lo is not None else 0) - (1 << bits); m.hi = (x.hi if x.hi is not None else (1 << bits) - 1) - (1 << bits)
            n = S.ite(S.cmp('ge', x, S.iconst(half, bits)), m, x)
            n.lo = -half; n.hi = half - 1
            return n
        op = ('gt', 'ge', 'lt', 'le')[pred - 6]
        return S.cmp(op, sgn(a), sgn(b))

    def bin_slow(self, op, a, b, bits):
        if type(a) is PInt or type(b) is PInt:
            return self.bin_pint(op, a, b, bits)
        if a is UNDEF or b is UNDEF:
            # x * 0, x & 0 are still undef-tainted in our monitor
            return UNDEF
        a = self._known(a); b = self._known(b)
        if type(a) is int and type(b) is int:
            return self.bin_concrete(op, a, b, bits)
        ta = type(a); tb = type(b)
        if bits == 1 or (ta is Node and a.sort == 'B') or (tb is Node and b.sort == 'B'):
            if bits != 1:
                # boolean zext'ed: concretize
                a = self.concretize_int(a); b = self.concretize_int(b)
                return self.bin_concrete(op, a, b, bits)
            a = S.B(a & 1 if ta is int else a); b = S.B(b & 1 if tb is int else b)
            if op == 7: return S.band(a, b)
            if op == 8: return S.bor(a, b)
            if op == 9 or op == 0 or op == 1: return S.bxor(a, b)
            raise Unsupported('boolean op %d' % op)
        a = S.I(a, bits); b = S.I(b, bits)
        if op == 0: return S.iadd(a, b, bits)
        if op == 1: return S.isub(a, b, bits)
        if op == 2: return S.imul(a, b, bits)
        if op == 3: return S.iudiv(a, b, bits)
        if op == 5: return S.iurem(a, b, bits)
        if op == 10 and b.op == 'iconst': return S.imul(a, S.iconst(1 << b.args[0], bits), bits)
        if op == 11 and b.op == 'iconst': return S.iudiv(a, S.iconst(1 << b.args[0], bits), bits)
        if op == 7 and b.op == 'iconst' and (b.args[0] + 1) & b.args[0] == 0:
            if a.hi is not None and a.hi <= b.args[0]: return a
            return S.iurem(a, S.iconst(b.args[0] + 1, bits), bits)
        if op == 7 and b.op == 'iconst' and b.args[0]:
            # mask of one contiguous run of bits [k, k+n): ((a / 2^k) mod 2^n) * 2^k
            m = b.args[0]; k = (m & -m).bit_length() - 1; run = m >> k
            if (run + 1) & run == 0:
                n = run.bit_length()
                q = S.iudiv(a, S.iconst(1 << k, bits), bits)
                if k + n < bits: q = S.iurem(q, S.iconst(1 << n, bits), bits)
                return S.imul(q, S.iconst(1 << k, bits), bits)
        if op == 4 and a.hi is not None and a.hi < (1 << (bits - 1)) and b.op == 'iconst' and b.args[0] < (1 << (bits - 1)):
            return S.iudiv(a, b, bits)
        if op == 6 and a.hi is not None and a.hi < (1 << (bits - 1)) and b.op == 'iconst' and 0 < b.args[0] < (1 << (bits - 1)):
            return S.iurem(a, b, bits)
        if op == 8 or op == 9:
            # or / xor of values with disjoint bit ranges (packing of two fields into one word) = addition
            def tz(n):
                if n.op == 'iconst': return (n.args[0] & -n.args[0]).bit_length() - 1 if n.args[0] else bits
                if n.op == 'imul':
                    return tz(n.args[0]) + tz(n.args[1])
                if n.op in ('imod', 'irew'): return tz(n.args[0])
                return 0
            for x, y in ((a, b), (b, a)):
                k = tz(y)
                if k and x.hi is not None and x.hi < (1 << k):
                    return S.iadd(x, y, bits)
        # fall back: concretize both
        a = self.concretize_int(a); b = self.concretize_int(b)
        return self.bin_concrete(op, a, b, bits)

    def bin_pint(self, op, a, b, bits):
        full = (1 << bits) - 1
        def parts(x):
            if type(x) is PInt: return x.val, x.mask
            if type(x) is int: return x, full
            return None
        pa, pb = parts(a), parts(b)
        if pa is None or pb is None: return UNDEF
        (va, ma), (vb, mb) = pa, pb
        if op == 7:     # and: a bit is defined if both are, or one side is a defined 0
            mask = (ma & mb) | (ma & ~va) | (mb & ~vb)
            return pint_norm(PInt(va & vb, mask & full, bits))
        if op == 8:     # or: defined if both are, or one side is a defined 1
            mask = (ma & mb) | (ma & va) | (mb & vb)
            return pint_norm(PInt((va | vb), mask & full, bits))
        if op == 9:
            return pint_norm(PInt(va ^ vb, ma & mb & full, bits))
        if op in (10, 11) and type(b) is int:
            if op == 10: return pint_norm(PInt((va << b) & full, ((ma << b) | ((1 << b) - 1)) & full, bits))
            return pint_norm(PInt(va >> b, (ma >> b) | (full & ~(full >> b)), bits))
        return UNDEF

    def bin_concrete(self, op, a, b, bits):
        mask = (1 << bits) - 1
        if op == 0: return (a + b) & mask
        if op == 1: return (a - b) & mask
        if op == 2: return (a * b) & mask
        if op == 3:
            if b == 0: raise MemoryError_('division-by-zero', 'udiv by zero', self.where())
            return a // b
        if op == 4:
            if b == 0: raise MemoryError_('division-by-zero', 'sdiv by zero', self.where())
            sa = sext(a, bits); sb = sext(b, bits)
            q = abs(sa) // abs(sb)
            if (sa < 0) != (sb < 0): q = -q
            return q & mask
        if op == 5:
            if b == 0: raise MemoryError_('division-by-zero', 'urem by zero', self.where())
            return a % b
        if op == 6:
            if b == 0: raise MemoryError_('division-by-zero', 'srem by zero', self.where())
            sa = sext(a, bits); sb = sext(b, bits)
            r = abs(sa) % abs(sb)
            if sa < 0: r = -r
            return r & mask
        if op == 7: return a & b
        if op == 8: return a | b
        if op == 9: return a ^ b
        if op == 10: return (a << b) & mask if b < bits else 0
        if op == 11: return a >> b if b < bits else 0
        if op == 12: return (sext(a, bits) >> min(b, bits - 1)) & mask
        raise Unsupported('binop %d' % op)

    def fbin(self, op, a, b, is_f32):
        ta = type(a); tb = type(b)
        if ta is float and tb is float:
            try:
                if op == 0: r = a + b
                elif op == 1: r = a - b
                elif op == 2: r = a * b
                elif op == 3:
                    if b == 0.0:
                        if a != a or a == 0.0: r = math.nan
                        else: r = math.copysign(math.inf, a) * math.copysign(1.0, b)
                    else: r = a / b
                else:
                    r = math.fmod(a, b) if b != 0.0 and not math.isinf(a) else math.nan
            except OverflowError:
                r = math.inf if (a > 0) == (b > 0) else -math.inf
            return round_f32(r) if is_f32 else r
        if a is UNDEF or b is UNDEF: return UNDEF
        return self.fbin_sym(op, a, b)

    # ---- polynomial normal form in the free real variables (used by translation-invariance runs: poly_mode) ----------------
    # every symbolic double that is a polynomial in the variables is kept as a canonical node built from its coefficient table
    # (exact rationals); a polynomial that turns out constant is returned as a plain double, so code that only depends on
    # coordinate differences runs concretely.
    def _poly_of(self, x):
        if type(x) is float:
            if x != x or x in (math.inf, -math.inf): return None
            return {(): Fraction(x)}
        if type(x) is Node:
            p = self.polytab.get(x.id)
            if p is not None: return p
            if x.op == 'var':
                nm = x.args[0]
                if nm not in self.polyvars: self.polyvars.append(nm)
                k = self.polyvars.index(nm)
                p = {((k, 1),): Fraction(1)}
                self.polytab[x.id] = p
                return p
            # a polynomial expression built outside the interpreter (e.g. an input given as constant + variable)
            if x.op == 'const':
                p = {(): Fraction(x.args[0])}
            elif x.op in ('add', 'sub') and x.sort == 'R':
                pa = self._poly_of(x.args[0]); pb = self._poly_of(x.args[1])
                if pa is None or pb is None: return None
                p = dict(pa)
                for m_, c_ in pb.items(): p[m_] = p.get(m_, 0) + (c_ if x.op == 'add' else -c_)
            elif x.op == 'mul' and x.sort == 'R':
                pa = self._poly_of(x.args[0]); pb = self._poly_of(x.args[1])
                if pa is None or pb is None: return None
                p = self._poly_mul(pa, pb)
            elif x.op == 'neg':
                pa = self._poly_of(x.args[0])
                if pa is None: return None
                p = {m_: -c_ for m_, c_ in pa.items()}
            else:
                return None
            self.polytab[x.id] = p
            return p
        return None

    def _poly_node(self, p):
        p = {m: c for m, c in p.items() if c != 0}
        if self.poly_residue and len(p) > 1:
            # coefficients of t-monomials at rounding level (t-free factors are evaluated in floating point, e.g. barycentric
            # weights that sum to 1 +- 1 ulp) are residue of that evaluation, not dependence on t
            p = {m: c for m, c in p.items() if m == () or abs(c) > self.poly_residue}
        if not p: return 0.0
        if len(p) == 1 and () in p:
            return float(p[()])
        key = tuple(sorted(p.items()))
        n = self.polycache.get(key)
        if n is None:
            acc = None
            for m, c in key:
                term = S.const(c)
                for (k, e) in m:
                    v = S.var(self.polyvars[k])
                    for _ in range(e): term = S.mul(term, v)
                acc = term if acc is None else S.add(acc, term)
            n = acc
            self.polycache[key] = n
            self.polytab[n.id] = p
        return n

    @staticmethod
    def _poly_mul(pa, pb):
        r = {}
        for ma, ca in pa.items():
            for mb, cb in pb.items():
                d = dict(ma)
                for k, e in mb: d[k] = d.get(k, 0) + e
                m = tuple(sorted(d.items()))
                r[m] = r.get(m, 0) + ca * cb
        return r

    def fbin_poly(self, op, a, b):
        pa = self._poly_of(a); pb = self._poly_of(b)
        if pa is None or pb is None: return None
        if op == 0 or op == 1:
            r = dict(pa)
            for m, c in pb.items(): r[m] = r.get(m, 0) + (c if op == 0 else -c)
            return self._poly_node(r)
        if op == 2:
            return self._poly_node(self._poly_mul(pa, pb))
        if op == 3 and len(pb) == 1 and () in pb and pb[()] != 0:
            inv = 1 / pb[()]
            return self._poly_node({m: c * inv for m, c in pa.items()})
        return None

    def fbin_sym(self, op, a, b):
        if self.poly_mode:
            r = self.fbin_poly(op, a, b)
            if r is not None: return r
        if self.mode == 'fp':
            if type(a) is int or type(b) is int:
                raise Unsupported('fp op on integer value')
            return (FS.fadd, FS.fsub, FS.fmul, FS.fdiv)[op](a, b) if op < 4 else self._unsupported('frem on symbolic')
        # infinities: keep concrete where the result is determined
        if type(a) is float and (a != a or a in (math.inf, -math.inf)) or type(b) is float and (b != b or b in (math.inf, -math.inf)):
            raise Unsupported('arithmetic between a symbolic real and a non-finite constant at %s' % self.where())
        if type(a) is int or type(b) is int:
            raise Unsupported('fp op on integer value')
        if op == 0: return S.add(a, b)
        if op == 1: return S.sub(a, b)
        if op == 2: return S.mul(a, b)
        if op == 3:
            if self.pathctl is not None and type(b) is Node:
                self.pathctl.note_division(b, self)
            return S.div(a, b)
        raise Unsupported('frem on symbolic')

    def fcmp(self, pred, a, b):
        ta = type(a); tb = type(b)
        if ta is float and tb is float:
            un = a != a or b != b
            if pred == 'oeq': return int(a == b)
            if pred == 'ogt': return int(a > b)
            if pred == 'oge': return int(a >= b)
            if pred == 'olt': return int(a < b)
            if pred == 'ole': return int(a <= b)
            if pred == 'one': return int(not un and a != b)
            if pred == 'ord': return int(not un)
            if pred == 'uno': return int(un)
            if pred == 'ueq': return int(un or a == b)
            if pred == 'ugt': return int(un or a > b)
            if pred == 'uge': return int(un or a >= b)
            if pred == 'ult': return int(un or a < b)
            if pred == 'ule': return int(un or a <= b)
            if pred == 'une': return int(un or a != b)
            if pred == 'true': return 1
            if pred == 'false': return 0
            raise Unsupported('fcmp ' + pred)
        if a is UNDEF or b is UNDEF: return UNDEF
        if self.mode == 'fp':
            return FS.fcmp(pred, a, b)
        if self.poly_mode:
            d = self.fbin_poly(1, a, b)
            if type(d) is float:
                return self.fcmp(pred, d, 0.0)
            if d is not None:
                a, b = d, 0.0
        # symbolic real vs possibly infinite constant
        for x, y, flip in ((a, b, False), (b, a, True)):
            if type(y) is float and (y in (math.inf, -math.inf)):
                pos = y > 0
                p = pred[1:]
                # x ? +inf
                if flip:
                    p = {'lt': 'gt', 'gt': 'lt', 'le': 'ge', 'ge': 'le', 'eq': 'eq', 'ne': 'ne'}.get(p, p)
                if p in ('lt', 'le'): return int(pos)
                if p in ('gt', 'ge'): return int(not pos)
                if p == 'eq': return 0
                if p == 'ne': return 1
                if pred == 'ord': return 1
                if pred == 'uno': return 0
        p = pred[1:] if pred not in ('ord', 'uno', 'true', 'false') else pred
        if p in ('eq', 'ne', 'lt', 'le', 'gt', 'ge'):
            return S.cmp(p, a, b)
        if pred == 'ord' or pred == 'true': return 1
        if pred == 'uno' or pred == 'false': return 0
        raise Unsupported('fcmp %s on symbolic' % pred)

    def _unsupported(self, msg):
        raise Unsupported(msg)

    def cast(self, op, v, fb, tb):
        t = type(v)
        if v is UNDEF: return UNDEF
        if t is PInt:
            if op == 'trunc': return pint_norm(PInt(v.val, v.mask, tb))
            if op == 'zext': return pint_norm(PInt(v.val, v.mask | (((1 << tb) - 1) & ~((1 << fb) - 1)), tb))
            return UNDEF
        if op == 'trunc':
            if t is int: return v & ((1 << tb) - 1)
            if t is Node:
                if v.sort == 'B': return v
                if tb == 1:
                    return S.cmp('ne', S.iurem(v, S.iconst(2, fb), fb), S.iconst(0, fb))
                return S.itrunc(v, tb)
        elif op == 'zext':
            if t is int: return v
            if t is Node:
                if v.sort == 'B':
                    return S.ite(v, S.iconst(1, tb), S.iconst(0, tb))
                return S.izext(v, fb, tb)
        elif op == 'sext':
            if t is int: return sext(v, fb) & ((1 << tb) - 1)
            if t is Node:
                if v.sort == 'I' and v.hi is not None and v.hi < (1 << (fb - 1)):
                    return S.izext(v, fb, tb)
                if v.sort == 'I' and self.mode != 'fp':
                    # unsigned representative of the sign extension: v + (2^tb - 2^fb) when the sign bit of v is set
                    half = 1 << (fb - 1); off = (1 << tb) - (1 << fb)
                    up = S.mk('iadd', (v, S.iconst(off, tb)), 'I', tb)
                    up.lo = half + off; up.hi = (1 << tb) - 1
                    n = S.ite(S.cmp('ge', v, S.iconst(half, fb)), up, S.izext(v, fb, tb))
                    n.lo = 0; n.hi = (1 << tb) - 1
                    return n
                v = self.concretize_int(v)
                return sext(v, fb) & ((1 << tb) - 1)
        elif op == 'sitofp':
            if t is int:
                r = float(sext(v, fb))
                return round_f32(r) if tb == 32 else r
            if t is Node and v.sort == 'I' and v.hi is not None and v.hi < (1 << (fb - 1)):
                return S.i2r(v)
        elif op == 'uitofp':
            if t is int:
                r = float(v)
                return round_f32(r) if tb == 32 else r
            if t is Node and self.mode == 'fp' and v.sort == 'I':
                return FS.u2f(v, False)
            if t is Node:
                if v.sort == 'B': return S.ite(v, S.ONE, S.ZERO)
                return S.i2r(v)
        elif op == 'fptoui' or op == 'fptosi':
            if t is float:
                if v != v or v in (math.inf, -math.inf):
                    return UNDEF   # poison
                iv = int(v)
                if op == 'fptoui' and (iv < 0 or iv >= (1 << tb)): return UNDEF
                return iv & ((1 << tb) - 1)
            if t is Node and self.mode == 'fp':
                return FS.f2u(v, tb, op == 'fptosi')
            if t is Node:
                if self.pathctl is not None:
                    self.pathctl.note_fptoint(v, op, tb, self)
                return S.r2i(v, tb)
        elif op == 'fpext':
            return v
        elif op == 'fptrunc':
            if t is float: return round_f32(v)
            return v
        elif op.startswith('bitcast_'):
            if op == 'bitcast_double_int':
                if t is float: return f2i(v)
                if t is Node and v.sort == 'R': return v
            elif op == 'bitcast_int_double':
                if t is int: return i2f(v)
                if t is Node and v.sort == 'R': return v
            elif op == 'bitcast_float_int':
                if t is float: return f32_2i(v)
            elif op == 'bitcast_int_float':
                if t is int: return i2f32(v)
            else:
                return v
        raise Unsupported('cast %s of %r' % (op, v))

    # main loop ----------------------------------------------------------------
    def run(self, cf, args):
        regs = list(cf.template)
        ps = cf.param_slots
        if len(args) < len(ps):
            raise Unsupported('call of %s with %d args, expects %d' % (cf.name, len(args), len(ps)))
        for i in range(len(ps)):
            regs[ps[i]] = args[i]
        varargs = args[len(ps):] if len(args) > len(ps) else None
        code = cf.code
        pc = 0
        allocas = []
        cur_exc = None
        load = self.load; store = self.store
        self.call_stack.append(cf.name)
        if self.trace_calls is not None:
            self.trace_calls(cf.name, args)
        steps = 0
        sym_ptr = self.pathctl is not None and getattr(self.pathctl, 'symbolic_alloc', False)
        try:
            while True:
                ins = code[pc]
                pc += 1
                steps += 1
                op = ins[0]
                if op == O_GEP:
                    a = regs[ins[2]]
                    if sym_ptr and (type(a) is Node or any(type(regs[s]) is Node for (s, _, _) in ins[4])):
                        regs[ins[1]] = self.gep_symbolic(a, ins, regs)
                        continue
                    if type(a) is not int:
                        a = self.concretize_int(a)
                    a += ins[3]
                    for (s, stride, bits) in ins[4]:
                        i = regs[s]
                        if type(i) is not int:
                            i = self.concretize_int(i)
                        if i >> (bits - 1): i -= 1 << bits
                        a += i * stride
                    regs[ins[1]] = a & M64
                elif op == O_LOAD:
                    if ins[4] == K_AGG:
                        regs[ins[1]] = self.load_agg(regs[ins[2]], ins[5])
                    else:
                        regs[ins[1]] = load(regs[ins[2]], ins[3], ins[4])
                elif op == O_MOVE:
                    regs[ins[1]] = regs[ins[2]]
                elif op == O_ICMP:
                    a = regs[ins[3]]; b = regs[ins[4]]
                    if type(a) is int and type(b) is int:
                        p = ins[2]
                        if p == 0: r = a == b
                        elif p == 1: r = a != b
                        elif p == 4: r = a < b
                        elif p == 2: r = a > b
                        else: r = self.icmp_concrete(p, a, b, ins[5])
                        regs[ins[1]] = 1 if r else 0
                    else:
                        regs[ins[1]] = self.icmp_slow(ins[2], a, b, ins[5])
                elif op == O_BR:
                    mv = ins[2]
                    if mv:
                        if len(mv) == 1:
                            regs[mv[0][0]] = regs[mv[0][1]]
                        else:
                            vals = [regs[s] for (_, s) in mv]
                            for (d, _), v in zip(mv, vals): regs[d] = v
                    pc = ins[1]
                elif op == O_CONDBR:
                    c = regs[ins[1]]
                    if type(c) is not int:
                        c = self.truth(c)
                    if c:
                        mv = ins[3]; pc = ins[2]
                    else:
                        mv = ins[5]; pc = ins[4]
                    if mv:
                        if len(mv) == 1:
                            regs[mv[0][0]] = regs[mv[0][1]]
                        else:
                            vals = [regs[s] for (_, s) in mv]
                            for (d, _), v in zip(mv, vals): regs[d] = v
                elif op == O_STORE:
                    if ins[4] == K_AGG:
                        self.store_agg(regs[ins[2]], ins[5], regs[ins[1]])
                    else:
                        store(regs[ins[2]], ins[3], regs[ins[1]])
                elif op == O_BIN:
                    a = regs[ins[3]]; b = regs[ins[4]]
                    if type(a) is int and type(b) is int:
                        o = ins[2]
                        if o == 0: regs[ins[1]] = (a + b) & ((1 << ins[5]) - 1)
                        elif o == 1: regs[ins[1]] = (a - b) & ((1 << ins[5]) - 1)
                        else: regs[ins[1]] = self.bin_concrete(o, a, b, ins[5])
                    else:
                        regs[ins[1]] = self.bin_slow(ins[2], a, b, ins[5])
                elif op == O_CALL:
                    t = ins[2]
                    av = [regs[s] if s >= 0 else None for s in ins[4]]
                    if ins[5] is None:
                        if t is None:
                            r = self.call_addr(regs[ins[3]], av)
                        else:
                            r = self.invoke_target(t, av)
                        if ins[1] >= 0: regs[ins[1]] = r
                    else:
                        try:
                            if t is None:
                                r = self.call_addr(regs[ins[3]], av)
                            else:
                                r = self.invoke_target(t, av)
                            if ins[1] >= 0: regs[ins[1]] = r
                            mv = ins[6]; pc = ins[5]
                        except Unwind as u:
                            lp = code[ins[7]]
                            if lp[0] == O_LANDINGPAD and not lp[2] and not self.lp_matches(u, lp[3]):
                                raise
                            cur_exc = u
                            mv = ins[8]; pc = ins[7]
                        if mv:
                            vals = [regs[s] for (_, s) in mv]
                            for (d, _), v in zip(mv, vals): regs[d] = v
                elif op == O_RET:
                    return regs[ins[1]] if ins[1] >= 0 else None
                elif op == O_FBIN:
                    regs[ins[1]] = self.fbin(ins[2], regs[ins[3]], regs[ins[4]], ins[5])
                elif op == O_FCMP:
                    regs[ins[1]] = self.fcmp(ins[2], regs[ins[3]], regs[ins[4]])
                elif op == O_SELECT:
                    c = regs[ins[2]]
                    if type(c) is int:
                        regs[ins[1]] = regs[ins[3]] if c & 1 else regs[ins[4]]
                    else:
                        regs[ins[1]] = self.select_slow(c, regs[ins[3]], regs[ins[4]], ins[5])
                elif op == O_CAST:
                    v = regs[ins[3]]
                    o = ins[2]
                    if type(v) is int and o == 'zext':
                        regs[ins[1]] = v
                    else:
                        regs[ins[1]] = self.cast(o, v, ins[4], ins[5])
                elif op == O_ALLOCA:
                    n = 1
                    if ins[3] >= 0:
                        n = regs[ins[3]]
                        if type(n) is not int: n = self.concretize_int(n)
                    a = self.alloc(ins[2] * n, 'stack', ins[4])
                    allocas.append(a)
                    regs[ins[1]] = a
                elif op == O_SWITCH:
                    v = regs[ins[1]]
                    if type(v) is not int:
                        v = self.concretize_int(v)
                    e = ins[2].get(v)
                    if e is None: e = ins[3]
                    pc = e[0]
                    mv = e[1]
                    if mv:
                        vals = [regs[s] for (_, s) in mv]
                        for (d, _), vv in zip(mv, vals): regs[d] = vv
                elif op == O_EXTRACT:
                    v = regs[ins[2]]
                    for i in ins[3]:
                        v = v[i] if v is not UNDEF else UNDEF
                    regs[ins[1]] = v
                elif op == O_INSERT:
                    regs[ins[1]] = self.insertvalue(regs[ins[2]], regs[ins[3]], ins[4])
                elif op == O_LANDINGPAD:
                    regs[ins[1]] = self.landingpad(cur_exc, ins[2], ins[3])
                elif op == O_RESUME:
                    if cur_exc is None:
                        raise Unsupported('resume without exception')
                    raise cur_exc
                elif op == O_FNEG:
                    v = regs[ins[2]]
                    if type(v) is float: regs[ins[1]] = -v
                    elif v is UNDEF: regs[ins[1]] = UNDEF
                    elif self.mode == 'fp': regs[ins[1]] = FS.fneg(v)
                    elif self.poly_mode and self.fbin_poly(1, 0.0, v) is not None: regs[ins[1]] = self.fbin_poly(1, 0.0, v)
                    else: regs[ins[1]] = S.neg(v)
                elif op == O_FREEZE:
                    regs[ins[1]] = regs[ins[2]]
                elif op == O_ATOMICRMW:
                    a = regs[ins[3]]; v = regs[ins[4]]
                    old = load(a, ins[5], ins[6])
                    rmw = ins[2]
                    if rmw == 'xchg': new = v
                    elif rmw == 'add': new = self.bin_concrete(0, old, v, ins[5] * 8) if type(old) is int and type(v) is int else self.bin_slow(0, old, v, ins[5] * 8)
                    elif rmw == 'sub': new = self.bin_concrete(1, old, v, ins[5] * 8) if type(old) is int and type(v) is int else self.bin_slow(1, old, v, ins[5] * 8)
                    elif rmw == 'fadd': new = self.fbin(0, old, v, False)
                    elif rmw == 'fsub': new = self.fbin(1, old, v, False)
                    elif rmw == 'and': new = old & v
                    elif rmw == 'or': new = old | v
                    elif rmw == 'xor': new = old ^ v
                    else: raise Unsupported('atomicrmw ' + rmw)
                    store(a, ins[5], new)
                    self.note_atomic(a, ins[5])
                    regs[ins[1]] = old
                elif op == O_CMPXCHG:
                    a = regs[ins[2]]; cmpv = regs[ins[3]]; new = regs[ins[4]]
                    old = load(a, ins[5], ins[6])
                    eq = self.values_equal(old, cmpv)
                    if eq:
                        store(a, ins[5], new)
                    self.note_atomic(a, ins[5])
                    regs[ins[1]] = [old, 1 if eq else 0]
                elif op == O_UNREACHABLE:
                    raise MemoryError_('unreachable-executed', 'reached an unreachable instruction (undefined behaviour) in %s' % cf.name, self.where())
                else:
                    raise Unsupported('opcode %d' % op)
                if steps >= 4096:
                    self.steps += steps
                    steps = 0
                    if self.steps > self.max_steps:
                        raise PathEnd('step budget exceeded')
        except ReturnFrom as rf:
            if rf.name == cf.name:
                return rf.value
            raise
        finally:
            self.steps += steps
            self.call_stack.pop()
            regions = self.regions
            for a in allocas:
                r = regions[a >> SHIFT]
                r.live = False
                r.cells = None

    def note_atomic(self, addr, size):
        if self.rw_atomic is not None: self.rw_atomic(self, addr, size)

    def values_equal(self, a, b):
        if type(a) is int and type(b) is int: return a == b
        if type(a) is float and type(b) is float: return f2i(a) == f2i(b)
        if type(a) is float and type(b) is int: return f2i(a) == b
        if type(a) is int and type(b) is float: return a == f2i(b)
        if a is b: return True
        if type(a) is Node or type(b) is Node:
            if (type(a) is Node and a.sort == 'R') or (type(b) is Node and b.sort == 'R'):
                # cmpxchg loop on a double accumulated atomically: single-threaded execution => equal
                return self.decide(S.cmp('eq', S.R(a) if type(a) is not int else S.R(i2f(a)), S.R(b) if type(b) is not int else S.R(i2f(b))))
            return self.truth(self.icmp_slow(0, a, b, 64))
        raise Unsupported('values_equal %r %r' % (a, b))

    def select_slow(self, c, a, b, kind):
        if c is UNDEF:
            msg = 'select on an uninitialised condition'
            if self.strict_undef:
                raise MemoryError_('uninitialised-decision', msg, self.where())
            return a
        if a is b: return a
        if type(a) is float and type(b) is float and f2i(a) == f2i(b): return a
        if type(a) is int and type(b) is int and a == b: return a
        if type(c) is Node and c.sort == 'I':
            c = S.cmp('ne', c, S.iconst(0, c.width))
        if (kind == K_DOUBLE or kind == K_FLOAT) and self.mode == 'fp':
            if a is UNDEF or b is UNDEF:
                return a if self.decide(c) else b
            return FS.fite(c, a, b)
        if kind == K_DOUBLE or kind == K_FLOAT:
            if a is UNDEF or b is UNDEF:
                return a if self.decide(c) else b
            for x in (a, b):
                if type(x) is float and (x != x or x in (math.inf, -math.inf)):
                    return a if self.decide(c) else b
            if self.pathctl is not None and getattr(self.pathctl, 'resolve_selects', False):
                r = self.pathctl.implied(c)
                if r is True: return a
                if r is False: return b
            return S.ite(c, S.R(a), S.R(b))
        if kind == K_INT:
            ta = type(a); tb = type(b)
            if (ta is Node and a.sort == 'B') or (tb is Node and b.sort == 'B'):
                return S.ite(c, S.B(a), S.B(b))
            if self.pathctl is not None and self.pathctl.ite_ints and a is not UNDEF and b is not UNDEF:
                w = a.width if ta is Node else (b.width if tb is Node else 64)
                n = S.ite(c, S.I(a, w), S.I(b, w))
                lo = min(S.I(a, w).lo, S.I(b, w).lo); hi = max(S.I(a, w).hi, S.I(b, w).hi)
                n.lo = lo; n.hi = hi
                return n
        return a if self.decide(c) else b

    def insertvalue(self, agg, v, idx):
        if agg is UNDEF:
            raise Unsupported('insertvalue into scalar undef')
        new = list(agg)
        if len(idx) == 1:
            new[idx[0]] = v
        else:
            new[idx[0]] = self.insertvalue(agg[idx[0]], v, idx[1:])
        return new

    def load_agg(self, addr, ty):
        if ty.kind == 'struct':
            return [self.load_agg(addr + o, f) if f.kind in ('struct', 'array') else self.load(addr + o, f.size(), self.kind_of(f)) for o, f in zip(ty.offsets(), ty.fields)]
        es = ty.elem.size()
        return [self.load_agg(addr + i * es, ty.elem) if ty.elem.kind in ('struct', 'array') else self.load(addr + i * es, es, self.kind_of(ty.elem)) for i in range(ty.count)]

    def store_agg(self, addr, ty, v):
        if ty.kind == 'struct':
            for o, f, x in zip(ty.offsets(), ty.fields, v):
                if f.kind in ('struct', 'array'): self.store_agg(addr + o, f, x)
                else: self.store(addr + o, f.size(), x)
        else:
            es = ty.elem.size()
            for i, x in enumerate(v):
                if ty.elem.kind in ('struct', 'array'): self.store_agg(addr + i * es, ty.elem, x)
                else: self.store(addr + i * es, es, x)

    # exceptions ---------------------------------------------------------------
    def typeinfo_name(self, ti):
        return self.regions[ti >> SHIFT].name if ti else None

    def typeinfo_bases(self, ti):
        """list of typeinfo addresses: ti and all its (single-inheritance) bases"""
        out = []
        from .models import EXTERNAL_TYPEINFO_BASES
        seen = 0
        while ti and seen < 16:
            out.append(ti)
            seen += 1
            r = self.regions[ti >> SHIFT]
            nm = r.name
            if nm in EXTERNAL_TYPEINFO_BASES:
                b = EXTERNAL_TYPEINFO_BASES[nm]
                if not b: ti = 0
                else:
                    try: ti = self.addr_of_global(b)
                    except Unsupported: ti = self.std_typeinfo(b)     # base class type info that the module never mentions
                continue
            if r.kind == 'extern':
                break
            c = r.cells.get(16)
            if c is None: break
            # __si_class_type_info: {vptr, name, base}
            if r.size == 24 and type(c[1]) is int:
                ti = c[1]
            else:
                # __vmi_class_type_info: {vptr, name, flags(i32), count(i32), {base, offset_flags}...}
                cnt = r.cells.get(20)
                b0 = r.cells.get(24)
                if cnt is not None and b0 is not None and type(b0[1]) is int:
                    ti = b0[1]
                else:
                    break
        return out

    def lp_matches(self, exc, clauses):
        chain = None
        for kind, ti in clauses:
            if kind == 'catch':
                if ti == 0: return True
                if chain is None: chain = self.typeinfo_bases(exc.tinfo)
                if ti in chain: return True
        return False

    def landingpad(self, exc, cleanup, clauses):
        if exc is None:
            raise Unsupported('landingpad without exception in flight')
        sel = 0
        chain = None
        for kind, ti in clauses:
            if kind == 'catch':
                if ti == 0:
                    sel = self.typeid_for(0); break
                if chain is None: chain = self.typeinfo_bases(exc.tinfo)
                if ti in chain:
                    sel = self.typeid_for(ti); break
            else:
                raise Unsupported('filter clause in landingpad')
        return [exc.exc_ptr, sel & 0xFFFFFFFF]

    def typeid_for(self, ti):
        if ti == 0: return 1
        return ((ti >> SHIFT) + 1) & 0x7FFFFFFF

from . import models as _models
_models.attach_helpers(Interp)
