"""Algebraic normalisation layer between the expression DAG and the solver (DESIGN 1.2 (i)/(ii)).

Every real-valued node is rewritten into a canonical Laurent polynomial over *atoms*:
input variables, sqrt atoms (keyed by their canonical radicand, with s*s -> radicand),
reciprocal atoms 1/p for non-monomial denominators p (keyed by canonical p, and p itself is then
represented by the atom so that (x/p)*p cancels), and opaque atoms for everything else
(uf applications, abs, floor, ite, ...).  All rewrites are sound identities of real arithmetic
under the side conditions already required by the code (denominators non-zero, radicands >= 0).

The solver still decides every obligation: comparisons are handed to z3 as `c * V_P  op  0`
with one real variable V_P per canonical polynomial P (stage N, relations between different
polynomials forgotten: unsat there is sound), and in full form (stage F) otherwise.
"""
from fractions import Fraction
import math

from . import sym as S

Node = S.Node
MAX_TERMS = 60000

class TooBig(Exception):
    pass

class PolyCtx:
    def __init__(self, positive_vars=()):
        self.atom_index = {}      # key -> idx
        self.atoms = []           # idx -> (kind, payload)
        self.cache = {}           # node id -> poly (dict) or None (opaque)
        self.sqrt_rad = {}        # atom idx -> radicand poly
        self.poly_atom = {}       # canonical poly key -> atom idx (denominator polynomials represented by an atom)
        self.atom_poly = {}       # atom idx -> poly it stands for (for 'den' atoms)
        self.positive = set(positive_vars)
        self.log = []

    # ---- atoms ---------------------------------------------------------------
    def atom(self, key, kind, payload=None):
        i = self.atom_index.get(key)
        if i is None:
            i = len(self.atoms)
            self.atom_index[key] = i
            self.atoms.append((kind, payload))
        return i

    def var_poly(self, name):
        return {((self.atom(('v', name), 'var', name), 1),): Fraction(1)}

    # ---- arithmetic on polys (dict: monomial tuple -> Fraction) --------------------
    @staticmethod
    def padd(a, b, sign=1):
        r = dict(a)
        for m, c in b.items():
            v = r.get(m, 0) + sign * c
            if v == 0:
                r.pop(m, None)
            else:
                r[m] = v
        return r

    def mmul(self, m1, m2):
        """product of two monomials -> (monomial, list of sqrt atoms whose exponent reached >= 2)"""
        if not m1: return m2
        if not m2: return m1
        d = dict(m1)
        for a, e in m2:
            v = d.get(a, 0) + e
            if v == 0: d.pop(a, None)
            else: d[a] = v
        return tuple(sorted(d.items()))

    def pmul(self, a, b):
        if len(a) * len(b) > 4 * MAX_TERMS:
            raise TooBig()
        r = {}
        for m1, c1 in a.items():
            for m2, c2 in b.items():
                m = self.mmul(m1, m2)
                v = r.get(m, 0) + c1 * c2
                if v == 0: r.pop(m, None)
                else: r[m] = v
        if len(r) > MAX_TERMS:
            raise TooBig()
        return self.reduce(r)

    def reduce(self, p):
        """apply s^2 -> radicand for sqrt atoms and D * D^-1 handled by exponents; den atoms with positive power expand? no."""
        again = True
        guard = 0
        while again:
            again = False
            guard += 1
            if guard > 50: break
            for m in list(p.keys()):
                for a, e in m:
                    if a in self.sqrt_rad and (e >= 2 or e <= -2):
                        # s^e = rad^(e//2) * s^(e%2)
                        c = p.pop(m)
                        k, rem = divmod(e, 2)
                        rest = tuple((x, y) for (x, y) in m if x != a)
                        if rem: rest = tuple(sorted(rest + ((a, rem),)))
                        rad = self.sqrt_rad[a]
                        base = {rest: c}
                        if k > 0:
                            for _ in range(k):
                                base = self.pmul_raw(base, rad)
                        else:
                            inv = self.pinv(rad)
                            for _ in range(-k):
                                base = self.pmul_raw(base, inv)
                        p = self.padd(p, base)
                        again = True
                        break
                if again: break
        return p

    def pmul_raw(self, a, b):
        r = {}
        for m1, c1 in a.items():
            for m2, c2 in b.items():
                m = self.mmul(m1, m2)
                v = r.get(m, 0) + c1 * c2
                if v == 0: r.pop(m, None)
                else: r[m] = v
        if len(r) > MAX_TERMS: raise TooBig()
        return r

    @staticmethod
    def key_of(p):
        return tuple(sorted(p.items()))

    def canon(self, p):
        """(c, key, q) with p = c*q and q having leading coefficient 1 (leading = smallest monomial in sort order)"""
        if not p: return Fraction(0), (), {}
        lead = min(p.keys())
        c = p[lead]
        q = {m: v / c for m, v in p.items()}
        return c, self.key_of(q), q

    def pinv(self, p):
        """1/p"""
        if not p: raise ZeroDivisionError('division by the zero polynomial')
        if len(p) == 1:
            (m, c), = p.items()
            return {tuple((a, -e) for (a, e) in m): 1 / c}
        c, key, q = self.canon(p)
        a = self.poly_atom.get(key)
        if a is None:
            a = self.atom(('den', key), 'den', q)
            self.poly_atom[key] = a
            self.atom_poly[a] = q
        return {((a, -1),): 1 / c}

    def fold_den(self, p):
        """if p equals c * (a registered denominator polynomial) represent it by the atom"""
        if len(p) < 2 or not self.poly_atom: return p
        c, key, q = self.canon(p)
        a = self.poly_atom.get(key)
        if a is not None:
            return {((a, 1),): c}
        return p

    def monomial_content(self, p):
        """largest monomial (non-negative exponents of var atoms) dividing every term"""
        it = iter(p.keys())
        first = dict(next(it))
        g = {a: e for a, e in first.items() if e > 0 and self.atoms[a][0] == 'var'}
        for m in it:
            d = dict(m)
            for a in list(g):
                e = d.get(a, 0)
                if e <= 0: del g[a]
                else: g[a] = min(g[a], e)
            if not g: break
        return g

    def psqrt(self, p):
        if not p: return {}
        if len(p) == 1:
            (m, c), = p.items()
            if not m and c >= 0:
                n, d = c.numerator, c.denominator
                rn, rd = math.isqrt(n), math.isqrt(d)
                if rn * rn == n and rd * rd == d:
                    return {(): Fraction(rn, rd)}
        # pull out even monomial content: sqrt(m^2 q) = |m| sqrt(q); only for exponents divisible by 4 or positive vars
        g = self.monomial_content(p)
        out_m = {}
        for a, e in g.items():
            name = self.atoms[a][1]
            if name in self.positive:
                k = e // 2
            else:
                k = (e // 4) * 2
            if k: out_m[a] = k
        if out_m:
            div = tuple(sorted((a, -2 * k) for a, k in out_m.items()))
            p = {self.mmul(m, div): c for m, c in p.items()}
        c, key, q = self.canon(p)
        # constant content: sqrt(c q) = sqrt(c) sqrt(q) only for perfect-square positive c ; else keep c inside
        coef = None
        if c > 0:
            n, d = c.numerator, c.denominator
            rn, rd = math.isqrt(n), math.isqrt(d)
            if rn * rn == n and rd * rd == d:
                coef = Fraction(rn, rd)
        if coef is None:
            q = p; key = self.key_of(p); coef = Fraction(1)
        a = self.atom(('sqrt', key), 'sqrt', q)
        self.sqrt_rad[a] = q
        mono = tuple(sorted(list(out_m.items()) + [(a, 1)]))
        return {mono: coef}

    # ---- DAG -> poly ------------------------------------------------------------------
    def opaque(self, n):
        return {((self.atom(('node', n.id), 'node', n), 1),): Fraction(1)}

    def of(self, n):
        if type(n) is not Node:
            return {(): Fraction(n)} if n != 0 else {}
        r = self.cache.get(n.id)
        if r is not None:
            return r
        order = []
        stack = [n]; seen = set()
        while stack:
            x = stack.pop()
            if type(x) is not Node or x.id in seen or x.id in self.cache: continue
            seen.add(x.id)
            order.append(x)
            if x.sort == 'R' and x.op in ('add', 'sub', 'mul', 'div', 'neg', 'sqrt'):
                stack.extend(a for a in x.args if type(a) is Node)
        order.sort(key=lambda x: x.id)
        for x in order:
            self.cache[x.id] = self._of1(x)
        return self.cache[n.id]

    def _of1(self, x):
        op = x.op; a = x.args
        try:
            if op == 'const':
                return {(): a[0]} if a[0] != 0 else {}
            if op == 'var':
                return self.var_poly(a[0])
            if op == 'add': return self.fold_den(self.padd(self.cache[a[0].id], self.cache[a[1].id]))
            if op == 'sub': return self.fold_den(self.padd(self.cache[a[0].id], self.cache[a[1].id], -1))
            if op == 'neg': return {m: -c for m, c in self.cache[a[0].id].items()}
            if op == 'mul': return self.fold_den(self.pmul(self.cache[a[0].id], self.cache[a[1].id]))
            if op == 'div':
                d = self.cache[a[1].id]
                if not d: return self.opaque(x)
                return self.fold_den(self.pmul(self.cache[a[0].id], self.pinv(d)))
            if op == 'sqrt':
                return self.psqrt(self.cache[a[0].id])
        except TooBig:
            return self.opaque(x)
        return self.opaque(x)

    # ---- poly -> sym Node (for the full-form stage and for printing) --------------------------
    def atom_node(self, i):
        kind, payload = self.atoms[i]
        if kind == 'var': return S.var(payload)
        if kind == 'node': return payload
        if kind == 'sqrt': return S.sqrt(self.to_node(payload))
        if kind == 'den': return self.to_node(payload)
        raise ValueError(kind)

    def to_node(self, p):
        tot = S.ZERO
        for m, c in sorted(p.items()):
            t = S.const(c)
            for a, e in m:
                an = self.atom_node(a)
                for _ in range(abs(e)):
                    t = S.mul(t, an) if e > 0 else S.div(t, an)
            tot = S.add(tot, t)
        return tot

    def show(self, p, limit=8):
        out = []
        for m, c in sorted(p.items())[:limit]:
            s = str(c)
            for a, e in m:
                kind, payload = self.atoms[a]
                nm = payload if kind == 'var' else '%s#%d' % (kind, a)
                s += '*%s' % nm + ('^%d' % e if e != 1 else '')
            out.append(s)
        return ' + '.join(out) + (' + ...(%d terms)' % len(p) if len(p) > limit else '')


def pdiff(P, p, varname):
    """partial derivative of a polynomial (var atoms only) w.r.t. the input variable `varname`"""
    a = P.atom_index.get(('v', varname))
    if a is None: return {}
    out = {}
    for m, c in p.items():
        d = dict(m)
        e = d.get(a, 0)
        if e == 0: continue
        for x in d:
            if P.atoms[x][0] != 'var':
                raise ValueError('pdiff over a non-polynomial term')
        if e == 1: del d[a]
        else: d[a] = e - 1
        mm = tuple(sorted(d.items()))
        out[mm] = out.get(mm, 0) + c * e
    return {m: c for m, c in out.items() if c != 0}
