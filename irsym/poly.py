"""Algebraic normalisation layer between the expression DAG and the solver (DESIGN 1.2 (i)/(ii)).

Every real-valued node is rewritten into a canonical Laurent polynomial over *atoms*:
input variables, sqrt atoms (keyed by their canonical radicand, with s*s -> radicand),
reciprocal atoms 1/p for non-monomial denominators p (keyed by canonical p, and p itself is then
represented by the atom so that (x/p)*p cancels), and opaque atoms for everything else
(uf applications, abs, floor, ite, ...).  All rewrites are sound identities of real arithmetic
under the side conditions already required by the code (denominators non-zero, radicands >= 0).

The solver still decides every obligation: comparisons are handed to z3 as `c * V_P  op  0`
with one real variable V_P per canonical polynomial P (stage N, relations between different
polynomials forgotten: unsat there is sound), and in full form (stage F) otherwise.
"""
from fractions import Fraction
import math

from . import sym as S

Node = S.Node
MAX_TERMS = 60000

class TooBig(Exception):
    pass

class PolyCtx:
    def __init__(self, positive_vars=()):
        self.atom_index = {}      # key -> idx
        self.atoms = []           # idx -> (kind, payload)
        self.cache = {}           # node id -> poly (dict) or None (opaque)
        self.sqrt_rad = {}        # atom idx -> radicand poly
        self.poly_atom = {}       # canonical poly key -> atom idx (denominator polynomials represented by an atom)
        self.atom_poly = {}       # atom idx -> poly it stands for (for 'den' atoms)
        self.positive = set(positive_vars)
        self.sqrt_by_canon = {}
        self.log = []

    # ---- atoms ---------------------------------------------------------------
    def atom(self, key, kind, payload=None):
        i = self.atom_index.get(key)
        if i is None:
            i = len(self.atoms)
            self.atom_index[key] = i
            self.atoms.append((kind, payload))
        return i

    def var_poly(self, name):
        return {((self.atom(('v', name), 'var', name), 1),): Fraction(1)}

    # ---- arithmetic on polys (dict: monomial tuple -> Fraction) --------------------
    @staticmethod
    def padd(a, b, sign=1):
        r = dict(a)
        for m, c in b.items():
            v = r.get(m, 0) + sign * c
            if v == 0:
                r.pop(m, None)
            else:
                r[m] = v
        return r

    def mmul(self, m1, m2):
        """product of two monomials -> (monomial, list of sqrt atoms whose exponent reached >= 2)"""
        if not m1: return m2
        if not m2: return m1
        d = dict(m1)
        for a, e in m2:
            v = d.get(a, 0) + e
            if v == 0: d.pop(a, None)
            else: d[a] = v
        return tuple(sorted(d.items()))

    def pmul(self, a, b):
        if len(a) * len(b) > 4 * MAX_TERMS:
            raise TooBig()
        r = {}
        for m1, c1 in a.items():
            for m2, c2 in b.items():
                m = self.mmul(m1, m2)
                v = r.get(m, 0) + c1 * c2
                if v == 0: r.pop(m, None)
                else: r[m] = v
        if len(r) > MAX_TERMS:
            raise TooBig()
        return self.reduce(r)

    def reduce(self, p):
        """apply s^2 -> radicand (and s^-2 -> 1/radicand) for sqrt atoms until no sqrt atom has |exponent| >= 2"""
        if not self.sqrt_rad: return p
        for _ in range(12):
            todo = [m for m in p if any(a in self.sqrt_rad and (e >= 2 or e <= -2) for a, e in m)]
            if not todo: return p
            out = {m: c for m, c in p.items() if m not in set(todo)}
            for m in todo:
                c = p[m]
                base = {(): c}
                rest = []
                for a, e in m:
                    if a in self.sqrt_rad and (e >= 2 or e <= -2):
                        k, rem = divmod(e, 2)
                        if rem: rest.append((a, rem))
                        rad = self.sqrt_rad[a]
                        fac = rad if k > 0 else self.pinv(rad)
                        for _i in range(abs(k)):
                            base = self.pmul_raw(base, fac)
                    else:
                        rest.append((a, e))
                rest = tuple(sorted(rest))
                for m2, c2 in base.items():
                    mm = self.mmul(m2, rest)
                    v = out.get(mm, 0) + c2
                    if v == 0: out.pop(mm, None)
                    else: out[mm] = v
            p = out
        return p

    def pmul_raw(self, a, b):
        r = {}
        for m1, c1 in a.items():
            for m2, c2 in b.items():
                m = self.mmul(m1, m2)
                v = r.get(m, 0) + c1 * c2
                if v == 0: r.pop(m, None)
                else: r[m] = v
        if len(r) > MAX_TERMS: raise TooBig()
        return r

    @staticmethod
    def key_of(p):
        return tuple(sorted(p.items()))

    def canon(self, p):
        """(c, key, q) with p = c*q and q having leading coefficient 1 (leading = smallest monomial in sort order)"""
        if not p: return Fraction(0), (), {}
        lead = min(p.keys())
        c = p[lead]
        q = {m: v / c for m, v in p.items()}
        return c, self.key_of(q), q

    def pinv(self, p):
        """1/p"""
        if not p: raise ZeroDivisionError('division by the zero polynomial')
        if len(p) == 1:
            (m, c), = p.items()
            return {tuple((a, -e) for (a, e) in m): 1 / c}
        c, key, q = self.canon(p)
        a = self.poly_atom.get(key)
        if a is None:
            a = self.atom(('den', key), 'den', q)
            self.poly_atom[key] = a
            self.atom_poly[a] = q
        return {((a, -1),): 1 / c}

    def fold_den(self, p):
        """if p equals c * (a registered denominator polynomial) represent it by the atom"""
        if len(p) < 2 or not self.poly_atom: return p
        c, key, q = self.canon(p)
        a = self.poly_atom.get(key)
        if a is not None:
            return {((a, 1),): c}
        return p

    def has_neg_den(self, p):
        ap = self.atom_poly
        for m in p:
            for a, e in m:
                if e < 0 and a in ap: return True
        return False

    def has_pos_den(self, p):
        ap = self.atom_poly
        for m in p:
            for a, e in m:
                if e > 0 and a in ap: return True
        return False

    def mul_fold(self, A, B):
        """product with cancellation of registered denominator polynomials: (x / p) * p = x"""
        if self.atom_poly:
            if self.has_neg_den(A): B = self.fold_den(B)
            if self.has_neg_den(B): A = self.fold_den(A)
        R = self.pmul(A, B)
        if self.atom_poly and self.has_pos_den(R):
            R = self.expand_den(R)
        return R

    def cleared(self, p):
        """p multiplied by the non-zero quantity  prod D^k * prod s^k  that clears every negative exponent of denominator
        and sqrt atoms (D replaced by the polynomial it stands for), then reduced with s^2 -> radicand.  p = 0 <=> result = 0
        (all multipliers are non-zero under the side conditions of the code's own divisions). May raise TooBig."""
        for _round in range(6):
            neg = {}
            for m in p:
                for a, e in m:
                    if e < 0: neg[a] = max(neg.get(a, 0), -e)
            if not neg: return p
            if not all(self.atoms[a][0] in ('den', 'sqrt', 'var', 'node') for a in neg): return p
            out = {}
            for m, c in p.items():
                term = {(): c}
                rest = []
                d = dict(m)
                for a, k in neg.items():
                    e = d.pop(a, 0)           # e in [-k, ...]
                    up = k + e                # multiply by a^(k) : remaining exponent
                    if up:
                        if a in self.atom_poly:
                            for _i in range(up):
                                term = self.pmul_raw(term, self.atom_poly[a])
                        else:
                            rest.append((a, up))
                rest = tuple(sorted(list(d.items()) + rest))
                for m2, c2 in term.items():
                    mm = self.mmul(m2, rest)
                    v = out.get(mm, 0) + c2
                    if v == 0: out.pop(mm, None)
                    else: out[mm] = v
                if len(out) > 4 * MAX_TERMS: raise TooBig()
            p = self.reduce(out)
            if self.has_pos_den(p): p = self.expand_den(p)
        return p

    def monomial_content(self, p):
        """largest monomial (non-negative exponents of var atoms) dividing every term"""
        it = iter(p.keys())
        first = dict(next(it))
        g = {a: e for a, e in first.items() if e > 0 and self.atoms[a][0] == 'var'}
        for m in it:
            d = dict(m)
            for a in list(g):
                e = d.get(a, 0)
                if e <= 0: del g[a]
                else: g[a] = min(g[a], e)
            if not g: break
        return g

    def expand_den(self, p):
        """substitute denominator atoms (with positive exponent) by the polynomials they stand for"""
        out = {}
        for m, c in p.items():
            term = {(): c}
            rest = []
            for a, e in m:
                if e > 0 and a in self.atom_poly:
                    for _ in range(e):
                        term = self.pmul_raw(term, self.atom_poly[a])
                else:
                    rest.append((a, e))
            rest = tuple(rest)
            for m2, c2 in term.items():
                mm = self.mmul(m2, rest)
                v = out.get(mm, 0) + c2
                if v == 0: out.pop(mm, None)
                else: out[mm] = v
        return self.reduce(out)

    def den_as_sqrt(self, a):
        """for a denominator atom D (= canonical polynomial q): if some sqrt atom s has radicand r = c*q, return (s, c)
        so that D = r / c and sqrt(r) = s"""
        return self.sqrt_by_canon.get(self.key_of(self.atom_poly[a]))

    def nonneg_atom(self, a):
        kind = self.atoms[a][0]
        if kind == 'sqrt': return 1
        if kind == 'den' and self.den_as_sqrt(a) is not None: return 1
        return 0

    def psqrt(self, p):
        if not p: return {}
        # clear denominators made of non-negative atoms: sqrt(N / prod a^k) = sqrt(N) / prod a^(k/2), k even
        neg = {}
        for m in p:
            for a, e in m:
                if e < 0: neg[a] = max(neg.get(a, 0), -e)
        if neg and all(self.nonneg_atom(a) for a in neg):
            mult = tuple(sorted((a, k if self.atoms[a][0] == 'den' else k + (k % 2)) for a, k in neg.items()))
            # p = N / prod D_a^k with D_a = r_a / c_a  =>  p = N * prod c_a^k / prod r_a^k
            const = Fraction(1)
            for a, k in mult:
                if self.atoms[a][0] == 'den':
                    const *= self.den_as_sqrt(a)[1] ** k
            N = {self.mmul(m, mult): c * const for m, c in p.items()}
            N = self.expand_den(N)
            if not any(e < 0 for m in N for (_, e) in m):
                root = self.psqrt(N)
                # divide by prod sqrt(a)^(k') : for a den atom whose poly is a sqrt radicand use that sqrt atom
                inv = []
                for a, k in mult:
                    if self.atoms[a][0] == 'den':
                        inv.append((self.den_as_sqrt(a)[0], -k))
                    else:
                        inv.append((a, -(k // 2)))
                invm = ()
                for t in inv: invm = self.mmul(invm, (t,))
                return self.reduce({self.mmul(m, invm): c for m, c in root.items()})
        if len(p) == 1:
            (m, c), = p.items()
            if not m and c >= 0:
                n, d = c.numerator, c.denominator
                rn, rd = math.isqrt(n), math.isqrt(d)
                if rn * rn == n and rd * rd == d:
                    return {(): Fraction(rn, rd)}
        # pull out even monomial content: sqrt(m^2 q) = |m| sqrt(q); only for exponents divisible by 4 or positive vars
        g = self.monomial_content(p)
        out_m = {}
        for a, e in g.items():
            name = self.atoms[a][1]
            if name in self.positive:
                k = e // 2
            else:
                k = (e // 4) * 2
            if k: out_m[a] = k
        if out_m:
            div = tuple(sorted((a, -2 * k) for a, k in out_m.items()))
            p = {self.mmul(m, div): c for m, c in p.items()}
            if len(p) == 1 and () in p:
                inner = self.psqrt(p)
                mono = tuple(sorted(out_m.items()))
                return {self.mmul(m, mono): c for m, c in inner.items()}
        c, key, q = self.canon(p)
        # constant content: sqrt(|c| r) = sqrt(|c|) sqrt(r), r = p/|c| (leading coefficient +-1), only for perfect-square |c|
        coef = None
        ac = abs(c)
        n, d = ac.numerator, ac.denominator
        rn, rd = math.isqrt(n), math.isqrt(d)
        if rn * rn == n and rd * rd == d:
            coef = Fraction(rn, rd)
            if c < 0:
                q = {m: -v for m, v in q.items()}
                key = self.key_of(q)
        if coef is None:
            q = p; key = self.key_of(p); coef = Fraction(1)
        a = self.atom(('sqrt', key), 'sqrt', q)
        self.sqrt_rad[a] = q
        cc, ckey, _ = self.canon(q)
        self.sqrt_by_canon.setdefault(ckey, (a, cc))
        mono = tuple(sorted(list(out_m.items()) + [(a, 1)]))
        return {mono: coef}

    # ---- DAG -> poly ------------------------------------------------------------------
    def opaque(self, n):
        # function applications are keyed by the canonical polynomials of their arguments, so that f(a*b*c) and f(a*(b*c))
        # (the code's and an oracle's association) are the same atom
        if n.op == 'uf' or n.op in ('floor', 'ceil'):
            try:
                args = n.args[1:] if n.op == 'uf' else n.args
                keys = tuple(self.key_of(self.of(a)) for a in args)
                name = n.args[0] if n.op == 'uf' else n.op
                return {((self.atom(('uf', name, keys), 'node', n), 1),): Fraction(1)}
            except (TooBig, RecursionError):
                pass
        if n.op == 'abs':
            try:
                p = self.of(n.args[0])
                c, key, q = self.canon(p)
                if p:
                    return {((self.atom(('abs', key), 'node', S.fabs(self.to_node(q)) if c not in (1, -1) else n), 1),): abs(c)}
            except (TooBig, RecursionError):
                pass
        return {((self.atom(('node', n.id), 'node', n), 1),): Fraction(1)}

    def of(self, n):
        if type(n) is not Node:
            return {(): Fraction(n)} if n != 0 else {}
        r = self.cache.get(n.id)
        if r is not None:
            return r
        order = []
        stack = [n]; seen = set()
        while stack:
            x = stack.pop()
            if type(x) is not Node or x.id in seen or x.id in self.cache: continue
            seen.add(x.id)
            order.append(x)
            if x.sort == 'R' and x.op in ('add', 'sub', 'mul', 'div', 'neg', 'sqrt'):
                stack.extend(a for a in x.args if type(a) is Node)
        order.sort(key=lambda x: x.id)
        for x in order:
            self.cache[x.id] = self._of1(x)
        return self.cache[n.id]

    def _of1(self, x):
        op = x.op; a = x.args
        try:
            if op == 'const':
                return {(): a[0]} if a[0] != 0 else {}
            if op == 'var':
                return self.var_poly(a[0])
            if op == 'add': return self.padd(self.cache[a[0].id], self.cache[a[1].id])
            if op == 'sub': return self.padd(self.cache[a[0].id], self.cache[a[1].id], -1)
            if op == 'neg': return {m: -c for m, c in self.cache[a[0].id].items()}
            if op == 'mul': return self.mul_fold(self.cache[a[0].id], self.cache[a[1].id])
            if op == 'div':
                d = self.cache[a[1].id]
                if not d: return self.opaque(x)
                return self.mul_fold(self.cache[a[0].id], self.pinv(d))
            if op == 'sqrt':
                return self.psqrt(self.cache[a[0].id])
        except TooBig:
            return self.opaque(x)
        return self.opaque(x)

    # ---- poly -> sym Node (for the full-form stage and for printing) --------------------------
    def atom_node(self, i):
        kind, payload = self.atoms[i]
        if kind == 'var': return S.var(payload)
        if kind == 'node': return payload
        if kind == 'sqrt': return S.sqrt(self.to_node(payload))
        if kind == 'den': return self.to_node(payload)
        raise ValueError(kind)

    def to_node(self, p):
        tot = S.ZERO
        for m, c in sorted(p.items()):
            t = S.const(c)
            for a, e in m:
                an = self.atom_node(a)
                for _ in range(abs(e)):
                    t = S.mul(t, an) if e > 0 else S.div(t, an)
            tot = S.add(tot, t)
        return tot

    def show(self, p, limit=8):
        out = []
        for m, c in sorted(p.items())[:limit]:
            s = str(c)
            for a, e in m:
                kind, payload = self.atoms[a]
                nm = payload if kind == 'var' else '%s#%d' % (kind, a)
                s += '*%s' % nm + ('^%d' % e if e != 1 else '')
            out.append(s)
        return ' + '.join(out) + (' + ...(%d terms)' % len(p) if len(p) > limit else '')


def pdiff(P, p, varname):
    """partial derivative of a polynomial (var atoms only) w.r.t. the input variable `varname`"""
    a = P.atom_index.get(('v', varname))
    if a is None: return {}
    out = {}
    for m, c in p.items():
        d = dict(m)
        e = d.get(a, 0)
        if e == 0: continue
        for x in d:
            if P.atoms[x][0] != 'var':
                raise ValueError('pdiff over a non-polynomial term')
        if e == 1: del d[a]
        else: d[a] = e - 1
        mm = tuple(sorted(d.items()))
        out[mm] = out.get(mm, 0) + c * e
    return {m: c for m, c in out.items() if c != 0}
