"""fork-based parallel discharge of obligations (the DAG and z3 context are inherited copy-on-write)."""
import multiprocessing
import os
import time

from . import solver as SV

_TASKS = None
_Z = None

def _work(i):
    name, pc, claim, timeout_ms = _TASKS[i][:4]
    t = time.time()
    try:
        st, model = SV.prove(_Z, pc, claim, timeout_ms)
    except Exception as e:   # solver failure = undecided
        st, model = 'unknown', None
    return i, st, model, time.time() - t

def prove_all(z, tasks, procs=16):
    """tasks: list of (name, pc_nodes, claim_node, timeout_ms, ...). returns list of (status, model, time_s)"""
    global _TASKS, _Z
    if not tasks: return []
    _TASKS = tasks; _Z = z
    out = [None] * len(tasks)
    if procs <= 1 or len(tasks) == 1:
        for i in range(len(tasks)):
            _, st, model, dt = _work(i)
            out[i] = (st, model, dt)
        return out
    ctx = multiprocessing.get_context('fork')
    with ctx.Pool(min(procs, len(tasks))) as pool:
        for i, st, model, dt in pool.imap_unordered(_work, range(len(tasks))):
            out[i] = (st, model, dt)
    z.queries += len(tasks)
    z.solver_time += sum(o[2] for o in out)
    return out

_FN = None
def _call(i):
    return i, _FN(i)

def pmap(fn, n, procs=16):
    """run fn(i) for i in range(n) in forked workers; fn must return picklable data"""
    global _FN
    _FN = fn
    if procs <= 1 or n <= 1:
        return [fn(i) for i in range(n)]
    ctx = multiprocessing.get_context('fork')
    out = [None] * n
    with ctx.Pool(min(procs, n)) as pool:
        for i, r in pool.imap_unordered(_call, range(n)):
            out[i] = r
    return out
