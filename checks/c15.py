#!/usr/bin/env python3
"""C15 — schedule independence, in the restricted sense of DESIGN.md.  Thread interleavings are NOT explored.  The OpenMP runtime is modelled
with one thread per loop iteration, threads run one after another in a chosen order, and every load/store of the real code (LLVM IR) inside
a parallel region is logged with its thread, its address and whether it happens inside a critical section / atomically.  Decided:
  A  parallel_exception_handler (include/utils.hpp): the set of throwing elements and their exception type are symbolic (z3 enumerates the
     placements), for every order of the threads (n <= 3: all orders): every element is still processed and the caller receives one of the
     thrown exceptions as that exception (the only one if a single element throws);
  B  sufficient condition for 'any thread count and any schedule give the sequential result bit for bit' on a tissue of non-interacting
     cells: in every parallel region of solver::run_iteration (+ constructor) no two different iterations touch the same byte with at least one
     write, unless both accesses are inside critical sections or both atomic (a write in a critical section against a plain read IS a conflict);
  C  cell_divider::run with several cells dividing in the same call (divide_cell replaced by its contract): for every completion order of the
     threads the resulting population is the same set of cells (no cell lost, duplicated, emptied mother left behind, duplicate id, stale list
     index), and the access log of the region is checked as in B (the population list must not be read while another iteration resizes it).
Findings are replayed natively where a deterministic native reproduction exists; data races are reported with both access sites."""
import itertools
import os
import sys
import time

sys.path.insert(0, os.path.dirname(os.path.dirname(os.path.abspath(__file__))))
from checks.framework import run_check
from irsym import api, build, envstubs, sym as S, solver as SV, par
from irsym.interp import SHIFT, OFFMASK

def demangle(n):
    import subprocess
    try: return subprocess.run(['c++filt', n], capture_output=True, text=True).stdout.strip()
    except Exception: return n

class Threads:
    """OpenMP model: T threads, thread t executes the t-th block of the static schedule, threads run to completion one after another"""
    def __init__(self, T, order_of=None, log_access=True):
        self.T = T; self.order_of = order_of or (lambda fn, T: list(range(T)))
        self.cur = None; self.regions = []; self.log_access = log_access
    def install(self, it):
        it.omp_hook = self.fork; it.omp_static_init_hook = self.static_init
        # the OpenMP runtime queries follow the model: inside a region thread t of T, outside of any region thread 0 of 1
        it.overrides['omp_get_thread_num'] = lambda it_, a: (self.cur[1] if self.cur else 0)
        it.overrides['omp_get_num_threads'] = lambda it_, a: (self.T if self.cur else 1)
        it.overrides['omp_get_max_threads'] = lambda it_, a: self.T
        if self.log_access:
            it.rw = self.rw; it.rw_atomic = self.atomic
    def fork(self, it, micro, args):
        fn = it.call_stack[-1] if it.call_stack else '?'
        reg = {'fn': fn, 'first_new_region': len(it.regions), 'acc': {}, 'sites': {}, 'last': None}
        outer = self.cur
        for tid in self.order_of(fn, self.T):
            it.store(args[0], 4, tid)
            self.cur = (reg, tid)
            try:
                it.call_addr(micro, args)
            finally:
                self.cur = outer
        self.regions.append(reg)
    def static_init(self, it, a):
        # (loc, gtid, schedtype, plastiter, plower, pupper, pstride, incr, chunk)
        tid = a[1]
        def rd(p):
            r = it.regions[p >> SHIFT]; c = r.cells.get(p & OFFMASK)
            return c[0], c[1]
        wl, lb = rd(a[4]); wu, ub = rd(a[5])
        # all threads of a team evaluate the loop bounds when the region starts: later threads of this run-to-completion model reuse
        # the bounds seen by the first one (a bound that an iteration changes is reported by the access log as a conflict)
        reg = self.cur[0] if self.cur else None
        if reg is not None:
            key = ('bounds', it.call_stack[-1])
            if key in reg: lb, ub = reg[key]
            else: reg[key] = (lb, ub)
        sgn = lambda v, w: v - (1 << (8 * w)) if v >> (8 * w - 1) else v
        lbs, ubs = sgn(lb, wl), sgn(ub, wu)
        n = ubs - lbs + 1
        if n <= 0:
            return None
        T = self.T
        chunk = -(-n // T)
        lo = lbs + tid * chunk; hi = min(ubs, lo + chunk - 1)
        if lo > ubs:
            it.store(a[4], wl, 1); it.store(a[5], wu, 0); it.store(a[3], 4, 0)      # empty block: lower > upper
        else:
            it.store(a[4], wl, lo & ((1 << (8 * wl)) - 1)); it.store(a[5], wu, hi & ((1 << (8 * wu)) - 1)); it.store(a[3], 4, 1 if hi == ubs else 0)
        return None
    def rw(self, it, r, off, size, w):
        cur = self.cur
        if cur is None: return
        reg, tid = cur
        if r.id >= reg['first_new_region']: return           # allocated inside the region: private to the allocating iteration
        if r.kind == 'func' or r.const: return
        ctx = 1 if getattr(it, 'in_critical', 0) else 0       # 0 plain, 1 critical, 2 atomic
        acc = reg['acc'].setdefault(tid, {})
        key = (r.id, w, ctx)
        s = acc.get(key)
        if s is None: s = acc[key] = set()
        if size <= 16:
            for k in range(off, off + size): s.add(k)
        else:
            s.update(range(off, off + size))
        sk = (tid, r.id, off, w)
        if sk not in reg['sites']: reg['sites'][sk] = tuple(it.call_stack[-4:])
        reg['last'] = (acc, r.id, off, size)
    def atomic(self, it, addr, size):
        cur = self.cur
        if cur is None: return
        reg, tid = cur
        rid = addr >> SHIFT; off = addr & OFFMASK
        acc = reg['acc'].get(tid, {})
        for w in (0, 1):
            for ctx in (0, 1):
                s = acc.get((rid, w, ctx))
                if s is not None and off in s:
                    for k in range(off, off + size): s.discard(k)
                    acc.setdefault((rid, w, 2), set()).update(range(off, off + size))

def race_key(reg, c):
    def base(n):
        if not n: return '?'
        if n.startswith('.omp_outlined'): return 'the loop body'
        d = demangle(n); out = ''; depth = 0
        for ch in d:
            if ch == '<': depth += 1
            elif ch == '>': depth -= 1
            elif depth == 0: out += ch
        out = out.split('(')[0].strip()
        return out.split(' ')[-1]
    w = base(c['writer site'][-1]) if c['writer site'] else '?'
    o = base(c['other site'][-1]) if c['other site'] else '?'
    return 'C15/race/%s/%s write in %s vs %s %s in %s' % (base(reg['fn']), c['writer context'], w, c['other context'], c['other access'], o)

def conflicts(it_regions, reg):
    """pairs of accesses of different iterations to the same byte, at least one write, not both critical and not both atomic"""
    out = []
    tids = sorted(reg['acc'])
    for i in tids:
        for j in tids:
            if j == i: continue
            ai, aj = reg['acc'][i], reg['acc'][j]
            for (rid, w, ctx), si in ai.items():
                if not w: continue
                for w2 in (0, 1):
                    if w2 == 1 and j < i: continue            # write/write pairs once
                    for ctx2 in (0, 1, 2):
                        if ctx == ctx2 and ctx in (1, 2): continue
                        sj = aj.get((rid, w2, ctx2))
                        if not sj: continue
                        common = si & sj
                        if common:
                            off = min(common)
                            def site(t, ww):
                                best = None
                                for (tt, rr, oo, www), st in reg['sites'].items():
                                    if tt == t and rr == rid and www == ww and oo <= off < oo + 16:
                                        if best is None or abs(oo - off) < abs(best[0] - off): best = (oo, st)
                                return best[1] if best else ()
                            r = it_regions[rid]
                            out.append({'region': reg['fn'], 'object': '%s %s' % (r.kind, r.name), 'offset': off, 'bytes': len(common), 'writer iteration': i, 'writer context': ('plain', 'critical', 'atomic')[ctx],
                                        'other iteration': j, 'other access': 'write' if w2 else 'read', 'other context': ('plain', 'critical', 'atomic')[ctx2], 'writer site': site(i, 1), 'other site': site(j, w2)})
    return out

# ---------------------------------------------------------------------------------------------------------------------------------
def handler_part(chk, quick):
    ir = build.build_ir(['h_par.cpp'], sources=[])
    nat = build.build_native(['h_par.cpp'])
    native = api.Native(nat)
    # validation
    sc = api.Session(ir, mode='ieee')
    nval = mism = 0
    native_lost = []
    for n in (1, 2, 3, 4):
        for mask in range(1 << n):
            kind = (mask * 5 + 3) & ((1 << n) - 1)
            r = sc.run('h_c15_handler', [], [n, mask, kind]); q = native.call('h_c15_handler', [], [n, mask, kind])
            nval += 1
            # with several throwing elements the native thread schedule decides which one arrives: compare only the processed flags and the class of outcome
            if q.get('status') == 0 and mask and q['i'][0] not in (1, 2) and r.status == 'ok' and r.iout[2:] == q['i'][2:]:
                # the native (multi-threaded) run lost the exception although the one-thread interpretation delivers it: not a translation
                # difference but an outcome that depends on the number of threads; the symbolic part below must find it
                native_lost.append((n, mask, kind, q['i']))
            elif r.status != 'ok' or q.get('status') != 0 or r.iout[2:] != q['i'][2:] or (bin(mask).count('1') <= 1 and r.iout != q['i']) or (mask and q['i'][0] not in (1, 2)):
                mism += 1; chk.note('handler validation mismatch n=%d mask=%d: %r / %r' % (n, mask, r.iout, q['i']))
    chk.functions |= sc.functions_called
    native.close()
    for n in ((2, 3) if quick else (2, 3, 4)):
        orders = list(itertools.permutations(range(n))) if n <= 3 else [tuple(range(n)), tuple(reversed(range(n))), (1, 3, 0, 2), (2, 0, 3, 1)]
        for order in orders:
            z = SV.Z3Ctx()
            mask = S.ivar('mask', 64, 0, (1 << n) - 1); kind = S.ivar('kind', 64, 0, (1 << n) - 1)
            th = Threads(n, lambda fn, T, o=order: list(o), log_access=False)
            sess = api.Session(ir, mode='real', setup=th.install)
            ctl, res = sess.explore('h_c15_handler', [], [n, mask, kind], zctx=z, max_paths=400, branch_timeout_ms=5000)
            chk.absorb(session=sess, ctl=ctl); chk.queries += z.queries; chk.solver_s += z.solver_time
            if not ctl.exhausted: chk.fail_closed.append('handler n=%d order %r: path budget exhausted' % (n, order))
            masks_seen = set()
            for (tr, pc, r) in res:
                if getattr(r, 'status', None) == 'pathend': continue
                name = 'A parallel_exception_handler/%d elements, thread order %r/path %s' % (n, order, ''.join('T' if d.taken else 'F' for d in tr if not d.forced) or '-')
                if r.status == 'unsupported':
                    chk.fail_closed.append('%s: %r' % (name, getattr(r, 'error', None))); continue
                if r.status != 'ok':
                    chk.ob(name + '/handler returns or rethrows', 'violated', True, 0, {'status': r.status, 'error': repr(getattr(r, 'error', None))[:300]})
                    chk.violation('C15/handler/%s' % r.status, '%s: %s %r' % (name, r.status, getattr(r, 'error', None)), {'n': n, 'order': order, 'status': r.status, 'error': repr(getattr(r, 'error', None))})
                    continue
                stw, m = SV.satisfiable(z, pc, 5000)
                if stw != 'sat': continue
                mk = int(m.get('mask', 0)); kd = int(m.get('kind', 0))
                # the path fixes every bit that was tested: all elements are processed, so all bits of mask are decided on this path
                masks_seen.add(mk)
                cls, who = r.iout[0], r.iout[1]; ran = r.iout[2:]
                thrown = [i for i in range(n) if (mk >> i) & 1]
                ok = all(v == 1 for v in ran)
                if not thrown: ok = ok and cls == 0
                else: ok = ok and who in thrown and cls == (2 if (kd >> who) & 1 else 1)
                chk.ob(name + '/every element processed; caller receives %s' % ('nothing' if not thrown else 'one of the thrown exceptions with its own type'), 'proved' if ok else 'violated', True, 0, {'mask': mk, 'kind': kd, 'outcome': r.iout})
                chk.witnesses += 1
                if not ok:
                    chk.violation('C15/handler/exception lost or altered', '%s: throwing elements %r, caller got class %d from element %d, processed flags %r' % (name, thrown, cls, who, ran), {'n': n, 'order': order, 'mask': mk, 'kind': kd, 'iout': r.iout})
            if len(masks_seen) != (1 << n):
                chk.fail_closed.append('handler n=%d order %r: only %d of %d placements of throwing elements were reached' % (n, order, len(masks_seen), 1 << n))
    if native_lost:
        if any(v['key'].startswith('C15/handler') for v in chk.violations):
            chk.note('native runs of the handler harness lose the exception too: %r' % (native_lost[:4],))
        else:
            chk.fail_closed.append('the native multi-threaded handler harness loses a thrown exception (%r) but the symbolic thread model does not' % (native_lost[:3],))
    return nval, mism

def sim_inputs(nc, nsteps, gap, div_cells=(), kinds=None, classes=None):
    din = [0.001, 1.0, 0.3, 0.25, 0.25, 0.01, 1.0, 0, 0, 0]
    for c in range(nc):
        din += [1.0, gap * c, 0.05 * c, 0.02 * c, 0.001, (1e-6 if c in div_cells else 1e9), 0.0]
    iin = [nc, nsteps] + (kinds or [0] * nc) + (classes or [0] * nc) + [3] * nc + [0] * (nsteps * nc)
    return din, iin

def population_key(iout, dout, contact=1):
    """order- and id-independent description of the population after the last iteration + structural problems"""
    # walk the dumps, keep the last one
    ip = 0; dp = 0; last = None
    while ip < len(iout):
        nc = iout[ip]; ip += 1
        cells = []
        for c in range(nc):
            cid, lid, typ, nn, nf = iout[ip:ip + 5]; ip += 5
            sc = dout[dp:dp + 4]; dp += 4
            pos = []
            for k in range(nn):
                used = iout[ip]; ip += 1
                p = dout[dp:dp + 3]; dp += 3
                if contact == 1: ip += 3
                ip += 1          # "force is zero" flag
                if used: pos.append(tuple(round(x, 9) for x in p))
            nfu = 0
            for f in range(nf):
                if iout[ip]: nfu += 1
                ip += 7
            cells.append({'id': cid, 'local': lid, 'type': typ, 'nodes': tuple(sorted(pos)), 'faces': nfu, 'volume': round(sc[0], 9)})
        last = cells
    probs = []
    ids = [c['id'] for c in last]
    if len(set(ids)) != len(ids): probs.append('duplicate cell ids %r' % (ids,))
    for k, c in enumerate(last):
        if c['local'] != k: probs.append('cell at position %d carries list index %d' % (k, c['local']))
        if c['faces'] == 0 or not c['nodes']: probs.append('cell %d (position %d) is empty: an emptied mother was left in the population' % (c['id'], k))
    key = tuple(sorted((c['type'], c['nodes'], c['faces']) for c in last))
    return key, probs, len(last)

def main(chk):
    quick = chk.tier == 'quick'
    chk.trusted += ['clang -O1 lowering (validated per run)', 'irsym; OpenMP model: one thread per iteration block of the static schedule, threads run to completion in a chosen order (no preemption); critical sections and atomics only tag accesses',
                    'cell_divider::divide_cell replaced by its contract (C09 is about the real one); writer / filesystem stubs', 'z3 enumerates the placements of failing elements']
    chk.assumptions += ['interleavings inside iterations are not explored: B is the classical sufficient condition (disjoint write sets / read-write sets of different iterations outside common critical sections) for schedule independence',
                        'memory allocated inside a parallel region is private to the allocating iteration', 'the tissue of B consists of cells that are farther apart than every cut-off (premise of the property)']
    chk.bounds = {'A': 'n <= %d elements, every subset of throwing elements, two exception types, %s' % (3 if quick else 4, 'all thread orders (n <= 3)'), 'B': '3 non-interacting cells, constructor + %d iterations, contact model 1 (0 and 2 thorough), dynamic model 0' % (2 if quick else 4),
                  'C': '3 cells of which 2 (and 3) divide in the same call, all 6 completion orders', 'outside': 'preemptive interleavings, libgomp, memory-model effects, interacting tissues, mesh_writer sections, real divide_cell'}
    nval, mism = handler_part(chk, quick)

    # ---- B: independence of the iterations of every parallel region ------------------------------------------------------------------
    ov = {}
    ov.update(envstubs.fs_stubs()); ov.update(envstubs.writer_stubs()); ov.update(envstubs.divide_stub())
    races_seen = {}
    for contact in ((1,) if quick else (1, 0, 2)):
        ir = build.build_ir(['h_sim.cpp'], contact=contact, dynamic=0)
        nat = build.build_native(['h_sim.cpp'], contact=contact, dynamic=0)
        din, iin = sim_inputs(3, 2 if quick else 4, 5.0)
        # validation of the thread model: result with 3 threads == native result (which is schedule independent if the property holds)
        native = api.Native(nat)
        q = native.call('h_sim', din, iin); native.close()
        th = Threads(3)
        def setup(it, th=th): it.strict_undef = False; th.install(it)
        sess = api.Session(ir, mode='ieee', overrides=ov, setup=setup)
        t0 = time.time()
        r = sess.run('h_sim', din, iin, keep=True)
        chk.functions |= sess.functions_called
        nval += 1
        same = r.status == 'ok' and q.get('status') == 0 and r.iout == q['i'] and len(r.dout) == len(q['d']) and all(api.same_double(a, b) for a, b in zip(r.dout, q['d']))
        if not same: mism += 1; chk.note('B: 3-thread model run differs from the native run (contact model %d): %r' % (contact, (r.status, getattr(r, 'error', None))))
        chk.ob('B contact model %d/three-thread run of constructor + iterations is bit-identical to the native run' % contact, 'proved' if same else 'violated', True, time.time() - t0)
        for reg in th.regions:
            cf = conflicts(r.interp.regions, reg)
            nm = 'B contact model %d/%s/iterations of the parallel loop touch disjoint data (outside common critical sections)' % (contact, demangle(reg['fn'])[:80])
            chk.ob(nm, 'proved' if not cf else 'violated', True, 0, {'conflicts': cf[:2]} if cf else {'threads': len(reg['acc']), 'bytes logged': sum(len(s) for a in reg['acc'].values() for s in a.values())})
            for c in cf[:3]:
                races_seen.setdefault(race_key(reg, c), c)
        chk.paths += 1
    # ---- C: several divisions in one call, every completion order ---------------------------------------------------------------------
    ir = build.build_ir(['h_sim.cpp'], contact=1, dynamic=0)
    DIV = '_ZN12cell_divider3runERSt6vectorISt10shared_ptrI4cellESaIS3_EEdRK18local_mesh_refinerRjb'
    for div_cells in ((0, 2), (0, 1, 2)):
        din, iin = sim_inputs(3, 1, 5.0, div_cells)
        results = {}
        for order in itertools.permutations(range(3)):
            th = Threads(3, lambda fn, T, o=order: (list(o) if 'cell_divider' in fn else list(range(T))))
            def setup(it, th=th): it.strict_undef = False; th.install(it)
            sess = api.Session(ir, mode='ieee', overrides=ov, setup=setup)
            r = sess.run('h_sim', din, iin, keep=True)
            chk.functions |= sess.functions_called; chk.paths += 1
            nm = 'C cells %r divide in the same call/completion order %r' % (div_cells, order)
            if r.status != 'ok':
                chk.ob(nm + '/run completes', 'violated', True, 0, {'status': r.status, 'error': repr(getattr(r, 'error', None))[:300]})
                chk.violation('C15/division/%s' % (r.error[0] if r.status == 'memory' else r.status), '%s: %s %r' % (nm, r.status, getattr(r, 'error', None)), {'din': din, 'iin': iin, 'order': order, 'error': repr(getattr(r, 'error', None))})
                continue
            key, probs, ncell = population_key(r.iout, r.dout)
            results[order] = key
            chk.ob(nm + '/population: unique ids, list indices = positions, no emptied mother left (%d cells)' % ncell, 'proved' if not probs else 'violated', True, 0, {'problems': probs} if probs else None)
            if probs:
                chk.violation('C15/division/population corrupted for some completion order', '%s: %s' % (nm, '; '.join(probs[:3])), {'din': din, 'iin': iin, 'order': order, 'problems': probs,
                              'how': 'harness h_sim with the OpenMP model running the threads of cell_divider::run in this order; natively: OMP_NUM_THREADS=3 with the iterations finishing in that order'})
            for reg in th.regions:
                if 'cell_divider' not in reg['fn']: continue
                cf = conflicts(r.interp.regions, reg)
                chk.ob(nm + '/cell_divider::run: no iteration reads or writes what another iteration writes outside a common critical section', 'proved' if not cf else 'violated', True, 0, {'conflicts': cf[:2]} if cf else None)
                for c in cf[:3]:
                    races_seen.setdefault(race_key(reg, c), c)
        ref = results.get((0, 1, 2))
        for order, key in results.items():
            same = key == ref
            chk.ob('C cells %r divide in the same call/completion order %r/same population as the in-order run (cells compared by type and geometry)' % (div_cells, order), 'proved' if same else 'violated', True, 0)
            if not same:
                chk.violation('C15/division/population depends on the completion order', 'cells %r dividing, order %r: population differs from the in-order run' % (div_cells, order), {'din': din, 'iin': iin, 'order': order})
    for key, c in races_seen.items():
        chk.violation(key, 'iterations %d and %d of the parallel loop in %s both access %s (offset %d): %s %s by %s <-> %s %s by %s' % (
            c['writer iteration'], c['other iteration'], demangle(c['region']).split('(')[0], c['object'], c['offset'], c['writer context'], 'write', ' <- '.join(demangle(x).split('(')[0] for x in reversed(c['writer site'])),
            c['other context'], c['other access'], ' <- '.join(demangle(x).split('(')[0] for x in reversed(c['other site']))), c)
    chk.validation = {'programs': 2, 'inputs': nval, 'mismatches': mism}
    chk.finish(level='other', explanation=(
        'OpenMP modelled as one thread per iteration block run to completion in a chosen order; every access of the real code inside parallel regions is logged. A: exception hand-over for every symbolic placement of throwing elements and every thread order. '
        'B: pairwise independence of loop iterations (no shared byte with a write outside common critical sections) in every parallel region of constructor + iterations on non-interacting cells => any schedule gives the sequential result. '
        'C: simultaneous divisions give the same population for every completion order, and the division loop is checked for unprotected shared accesses.'))

if __name__ == '__main__':
    run_check('C15', main)
