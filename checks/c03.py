#!/usr/bin/env python3
"""C03 — one position update follows the documented integration law: the real
time_integration_scheme::update_nodes_positions runs in irsym on small populations with every
position, momentum, force, dt, damping, density and volume symbolic; z3 decides the per-node law,
force reset, time advance, static cells untouched, and the coupled-pair law, for each
(contact model, dynamic model) configuration, over histories of one and two steps."""
import os
import random
import sys

sys.path.insert(0, os.path.dirname(os.path.dirname(os.path.abspath(__file__))))
from checks.framework import run_check
from irsym import api, build, sym as S, solver as SV, par

CLASSES = ['epithelial', 'ecm', 'lumen', 'nucleus', 'static']
STATIC = {1, 4}

def layout(nc, nsteps):
    """symbolic inputs"""
    dt, damp = S.var('dt'), S.var('damping')
    rho = [S.var('rho%d' % c) for c in range(nc)]
    vol = [S.var('vol%d' % c) for c in range(nc)]
    st = {}
    for c in range(nc):
        for n in range(4):
            st[(c, n)] = {'x': [S.var('x%d_%d_%d' % (c, n, k)) for k in range(3)],
                          'p': [S.var('p%d_%d_%d' % (c, n, k)) for k in range(3)],
                          'f': [[S.var('f%d_%d_%d_%d' % (s, c, n, k)) for k in range(3)] for s in range(nsteps)]}
    din = [dt, damp]
    for c in range(nc): din += [rho[c], vol[c]]
    for c in range(nc):
        for n in range(4):
            din += st[(c, n)]['x'] + st[(c, n)]['p'] + st[(c, n)]['f'][0]
    for s in range(1, nsteps):
        for c in range(nc):
            for n in range(4):
                din += st[(c, n)]['f'][s]
    return dt, damp, rho, vol, st, din

def main(chk):
    quick = chk.tier == 'quick'
    configs = [(1, 0), (1, 1)] if quick else [(1, 0), (1, 1), (0, 0), (0, 1), (2, 0), (2, 1)]
    rng = random.Random(chk.seed + 7)
    chk.trusted += ['clang-14 lowering validated per run against g++ -O2 (bitwise) in every configuration', 'irsym + polynomial normaliser + z3', 'exact-real reading of doubles']
    chk.assumptions += ['dt > 0, damping > 0, density > 0, volume > 0', 'couplings are mutual and only between epithelial (non-static) cells, as created by the contact phase',
                        'guard SIMUCELL3D_VERIF used to select CONTACT_MODEL_INDEX / DYNAMIC_MODEL_INDEX']
    chk.bounds = {'configurations (contact model, dynamic model)': configs, 'cells': 3, 'nodes per cell': 4, 'history': '1 and 2 consecutive steps with fresh symbolic forces',
                  'coupling patterns': 'none; one mutual pair; two mutual pairs between the same two cells; (thorough) two pairs on different cell pairs; one unused node slot',
                  'outside': 'rounding; more than 3 cells; kinetic-energy bookkeeping; one-sided couplings (not a reachable pre-state)'}
    scen = [
        {'name': 'epi,epi,ecm / no coupling', 'cls': [0, 0, 1], 'coup': [], 'unused': (-1, 0)},
        {'name': 'epi,epi,ecm / one pair', 'cls': [0, 0, 1], 'coup': [(0, 1, 1, 2)], 'unused': (-1, 0)},
        {'name': 'epi,epi,static / two pairs + unused slot', 'cls': [0, 0, 4], 'coup': [(0, 1, 1, 2), (0, 3, 1, 0)], 'unused': (1, 3)},
        # persistent ids ahead of the list positions (two cells removed earlier): ids 2,3,4 at positions 0,1,2
        {'name': 'epi,epi,ecm / one pair / ids 2,3,4 at positions 0,1,2', 'cls': [0, 0, 1], 'coup': [(0, 1, 1, 2)], 'unused': (-1, 0), 'idoff': 2},
    ]
    if not quick:
        scen += [
            {'name': 'epi,epi,epi / pairs on different cell pairs', 'cls': [0, 0, 0], 'coup': [(0, 1, 1, 2), (1, 0, 2, 3)], 'unused': (-1, 0)},
            {'name': 'lumen,nucleus,epi / no coupling', 'cls': [2, 3, 0], 'coup': [], 'unused': (0, 2)},
        ]
    tasks = []
    z = SV.Z3Ctx()
    nval = 0; mism = 0
    for (cm, dm) in configs:
        ir = build.build_ir(['h_pop.cpp'], contact=cm, dynamic=dm)
        nat = build.build_native(['h_pop.cpp'], contact=cm, dynamic=dm)
        native = api.Native(nat)
        sc = api.Session(ir, mode='ieee')
        for sidx, sce in enumerate(scen):
            if cm == 0 and sce['coup']: continue       # the spring model has no couplings
            nc = len(sce['cls'])
            iin = [nc] + sce['cls'] + [len(sce['coup'])] + [v for c in sce['coup'] for v in c] + [2, sce['unused'][0], sce['unused'][1], sce.get('idoff', 0)]
            # validation
            for k in range(3 if quick else 10):
                din = [rng.uniform(0.001, 0.1), rng.uniform(0.1, 3)] + [rng.uniform(0.2, 2) for _ in range(2 * nc)] + [rng.uniform(-1, 1) for _ in range(nc * 4 * 9 + nc * 4 * 3)]
                r = sc.run('h_c03_step', din, iin); q = native.call('h_c03_step', din, iin)
                nval += 1
                if r.status != 'ok' or len(r.dout) != len(q['d']) or not all(api.same_double(a, b) for a, b in zip(r.dout, q['d'])):
                    mism += 1; chk.note('validation mismatch config %r scenario %s: %r' % ((cm, dm), sce['name'], r.error))
            # symbolic
            for nsteps in (1, 2):
                dt, damp, rho, vol, st, din = layout(nc, nsteps)
                iin[1 + nc + 1 + 4 * len(sce['coup'])] = nsteps
                pre = [S.cmp('gt', dt, S.ZERO), S.cmp('gt', damp, S.ZERO)] + [S.cmp('gt', v, S.ZERO) for v in rho + vol]
                sess = api.Session(ir, mode='real')
                ctl, res = sess.explore('h_c03_step', din, iin, assumptions=pre, zctx=z, max_paths=8, branch_timeout_ms=5000, generic_position=True)
                chk.absorb(session=sess, ctl=ctl)
                good = [(tr, pc, r) for (tr, pc, r) in res if getattr(r, 'status', None) == 'ok']
                if len(good) != 1 or not ctl.exhausted:
                    chk.fail_closed.append('config %r %s steps=%d: expected one path, got %r' % ((cm, dm), sce['name'], nsteps, [(getattr(r, 'status', r), getattr(r, 'error', None)) for (_, _, r) in res]))
                    continue
                tr, pc, r = good[0]
                tag = 'cm%d dm%d/%s/steps=%d' % (cm, dm, sce['name'], nsteps)
                info = {'cm': cm, 'dm': dm, 'scen': sidx, 'iin': list(iin), 'nsteps': nsteps}
                tasks.append((tag + '/witness', pc, S.FALSE, 20000, True, info))
                add_law_obligations(chk, tasks, tag, info, pc, r, sce, nc, nsteps, cm, dm, dt, damp, rho, vol, st)
        chk.functions |= sc.functions_called
        native.close()
    chk.validation = {'programs': len(configs), 'inputs': nval, 'mismatches': mism}

    chk.log('discharging %d obligations' % len(tasks))
    outs = par.prove_all(z, [t[:4] for t in tasks])
    chk.queries += z.queries
    natives = {}
    for (nm, pc, cl, _, core, info), (stt, model, dt_) in zip(tasks, outs):
        chk.solver_s += dt_
        if nm.endswith('/witness'):
            if stt == 'violated': chk.witnesses += 1
            else: chk.witness_failures.append(nm + ': ' + stt)
            continue
        if stt == 'violated':
            key = (info['cm'], info['dm'])
            if key not in natives:
                natives[key] = api.Native(build.build_native(['h_pop.cpp'], contact=key[0], dynamic=key[1]))
            rep = replay(natives[key], info, model, scen[info['scen']], nm)
            chk.ob(nm, 'violated' if rep['reproduced'] else 'unknown', core, dt_, detail=rep, sample={'obligation': nm, 'model': {k: model[k] for k in list(model)[:12]}})
            if rep['reproduced']:
                kind = nm.split('/')[-1].split(' ')[0]
                chk.violation('C03/cm%d dm%d/%s' % (info['cm'], info['dm'], kind), '%s: %s' % (nm, rep['what']), rep)
        else:
            chk.ob(nm, stt, core, dt_, sample={'obligation': nm, 'status': stt} if len(chk.samples) < 8 else None)
    for n in natives.values(): n.close()
    chk.finish(level='other', explanation=(
        'update_nodes_positions is executed in irsym on three-cell populations (classes epithelial/ECM/static/lumen/nucleus) with all node states and '
        'parameters symbolic, one and two steps, for each configuration listed in bounds. Per node and component z3 proves the semi-implicit / overdamped '
        'law with mass = density*volume/#live nodes, zero force accumulators afterwards, simulated time = k*dt, static cells and unused slots untouched, '
        'and for mutually coupled pairs: equal displacement, pair momentum/force law with the averaged mass.'))

def add_law_obligations(chk, tasks, tag, info, pc, r, sce, nc, nsteps, cm, dm, dt, damp, rho, vol, st):
    out = r.dout
    per_step = 1 + nc * 4 * 9
    unused = sce['unused']
    live = {c: 4 - (1 if unused[0] == c else 0) for c in range(nc)}
    mass = {c: S.div(S.mul(rho[c], vol[c]), S.const(live[c])) for c in range(nc)}
    partner = {}
    for (c1, n1, c2, n2) in sce['coup']:
        partner.setdefault((c1, n1), []).append((c2, n2)); partner.setdefault((c2, n2), []).append((c1, n1))
    # current state (oracle side), advanced step by step by the law from the property text
    cur = {k: {'x': list(v['x']), 'p': list(v['p'])} for k, v in st.items()}
    def add(name, claim, core=True):
        tasks.append((tag + '/' + name, pc, claim, 20000, core, info))
    for s in range(nsteps):
        base = s * per_step
        tsim = out[base]
        add('time step %d: t=%d*dt' % (s + 1, s + 1), S.cmp('eq', S.R(tsim), S.mul(S.const(s + 1), dt)))
        new = {}
        for c in range(nc):
            for n in range(4):
                o = base + 1 + (4 * c + n) * 9
                X = [S.R(v) for v in out[o:o + 3]]; Pm = [S.R(v) for v in out[o + 3:o + 6]]; F = [S.R(v) for v in out[o + 6:o + 9]]
                x0 = cur[(c, n)]['x']; p0 = cur[(c, n)]['p']; f0 = st[(c, n)]['f'][s]
                nm = 'step %d cell %d(%s) node %d' % (s + 1, c, CLASSES[sce['cls'][c]], n)
                if sce['cls'][c] in STATIC or (unused[0] == c and unused[1] == n):
                    what = 'static-untouched' if sce['cls'][c] in STATIC else 'unused-slot-untouched'
                    cl = S.TRUE
                    for k in range(3):
                        cl = S.band(cl, S.band(S.cmp('eq', X[k], x0[k]), S.cmp('eq', F[k], f0[k])))
                        if dm == 0: cl = S.band(cl, S.cmp('eq', Pm[k], p0[k]))
                    add('%s %s' % (what, nm), cl)
                    new[(c, n)] = {'x': x0, 'p': p0}
                    continue
                grp = [(c, n)] + partner.get((c, n), [])
                if len(grp) == 1:
                    m = mass[c]
                    if dm == 0:
                        p1 = [S.add(p0[k], S.mul(S.sub(f0[k], S.div(S.mul(damp, p0[k]), m)), dt)) for k in range(3)]
                        x1 = [S.add(x0[k], S.div(S.mul(p1[k], dt), m)) for k in range(3)]
                        if cm == 2:
                            # contact model 2 moves the node with the momentum *before* the update (see known findings)
                            x1_alt = [S.add(x0[k], S.div(S.mul(p0[k], dt), m)) for k in range(3)]
                    else:
                        p1 = p0
                        x1 = [S.add(x0[k], S.div(S.mul(f0[k], dt), damp)) for k in range(3)]
                    cl = S.TRUE
                    for k in range(3):
                        cl = S.band(cl, S.cmp('eq', X[k], x1[k]))
                    add('law-position %s' % nm, cl)
                    if dm == 0:
                        cl = S.TRUE
                        for k in range(3): cl = S.band(cl, S.cmp('eq', Pm[k], p1[k]))
                        add('law-momentum %s' % nm, cl)
                    new[(c, n)] = {'x': X, 'p': Pm if dm == 0 else p0}
                else:
                    # coupled group: equal displacement, pair law with averaged mass and averaged momentum/force
                    k_ = len(grp)
                    mbar = S.div(sum_nodes([mass[g[0]] for g in grp]), S.const(k_))
                    fbar = [S.div(sum_nodes([st[g]['f'][s][k] for g in grp]), S.const(k_)) for k in range(3)]
                    pbar = [S.div(sum_nodes([cur[g]['p'][k] for g in grp]), S.const(k_)) for k in range(3)]
                    if dm == 0:
                        p1 = [S.add(pbar[k], S.mul(S.sub(fbar[k], S.div(S.mul(damp, pbar[k]), mbar)), dt)) for k in range(3)]
                        disp = [S.div(S.mul(p1[k], dt), mbar) for k in range(3)]
                    else:
                        disp = [S.div(S.mul(fbar[k], dt), damp) for k in range(3)]
                    # equal displacement with the first partner
                    g2 = grp[1]
                    o2 = base + 1 + (4 * g2[0] + g2[1]) * 9
                    X2 = [S.R(v) for v in out[o2:o2 + 3]]
                    cl = S.TRUE
                    for k in range(3):
                        cl = S.band(cl, S.cmp('eq', S.sub(X[k], x0[k]), S.sub(X2[k], cur[g2]['x'][k])))
                    add('pair-equal-displacement %s' % nm, cl)
                    cl = S.TRUE
                    for k in range(3):
                        cl = S.band(cl, S.cmp('eq', S.sub(X[k], x0[k]), disp[k]))
                    add('pair-law-displacement %s' % nm, cl)
                    if dm == 0:
                        # total momentum of the group follows the pair law: sum p' = sum p + (sum f - damping * sum p / mbar) dt
                        if (c, n) == min(grp):
                            for k in range(3):
                                tot_new = S.ZERO
                                for g in grp:
                                    og = base + 1 + (4 * g[0] + g[1]) * 9
                                    tot_new = S.add(tot_new, S.R(out[og + 3 + k]))
                                ptot = sum_nodes([cur[g]['p'][k] for g in grp]); ftot = sum_nodes([st[g]['f'][s][k] for g in grp])
                                add('pair-total-momentum[%d] %s' % (k, nm), S.cmp('eq', tot_new, S.add(ptot, S.mul(S.sub(ftot, S.div(S.mul(damp, ptot), mbar)), dt))))
                    new[(c, n)] = {'x': X, 'p': Pm if dm == 0 else p0}
                cl = S.TRUE
                for k in range(3): cl = S.band(cl, S.cmp('eq', F[k], S.ZERO))
                add('force-reset %s' % nm, cl)
        cur = new

def sum_nodes(xs):
    t = S.ZERO
    for x in xs: t = S.add(t, x)
    return t

def replay(native, info, model, sce, nm):
    """native run at the model point, compared with a float implementation of the law from the property text"""
    from fractions import Fraction
    if not model: return {'reproduced': False, 'what': 'no model'}
    g = lambda name, d=1.0: float(Fraction(model.get(name, d)))
    nc = len(sce['cls']); nsteps = info['nsteps']
    din = [g('dt', 0.01), g('damping', 1.0)]
    for c in range(nc): din += [g('rho%d' % c), g('vol%d' % c)]
    for c in range(nc):
        for n in range(4):
            din += [g('x%d_%d_%d' % (c, n, k), 0) for k in range(3)] + [g('p%d_%d_%d' % (c, n, k), 0) for k in range(3)] + [g('f0_%d_%d_%d' % (c, n, k), 0) for k in range(3)]
    for s in range(1, nsteps):
        for c in range(nc):
            for n in range(4):
                din += [g('f%d_%d_%d_%d' % (s, c, n, k), 0) for k in range(3)]
    q = native.call('h_c03_step', din, info['iin'])
    if q['status'] != 0: return {'reproduced': False, 'what': 'native run failed'}
    # float oracle
    dt, damp = din[0], din[1]
    unused = sce['unused']
    x = {}; p = {}; f = {}
    idx = 2 + 2 * nc
    for c in range(nc):
        for n in range(4):
            x[(c, n)] = din[idx:idx + 3]; p[(c, n)] = din[idx + 3:idx + 6]; f[(c, n)] = [din[idx + 6:idx + 9]]; idx += 9
    for s in range(1, nsteps):
        for c in range(nc):
            for n in range(4):
                f[(c, n)].append(din[idx:idx + 3]); idx += 3
    partner = {}
    for (c1, n1, c2, n2) in sce['coup']:
        partner.setdefault((c1, n1), []).append((c2, n2)); partner.setdefault((c2, n2), []).append((c1, n1))
    mass = {c: din[2 + 2 * c] * din[3 + 2 * c] / (4 - (1 if unused[0] == c else 0)) for c in range(nc)}
    out = q['d']; per_step = 1 + nc * 36
    worst = 0.0; where = None
    scale = max(1.0, max(abs(v) for v in din))
    for s in range(nsteps):
        nx = {}; np_ = {}
        for c in range(nc):
            for n in range(4):
                key = (c, n)
                if sce['cls'][c] in STATIC or (unused[0] == c and unused[1] == n):
                    nx[key] = x[key]; np_[key] = p[key]; ef = f[key][s]
                else:
                    grp = [key] + partner.get(key, [])
                    mb = sum(mass[g_[0]] for g_ in grp) / len(grp)
                    fb = [sum(f[g_][s][k] for g_ in grp) / len(grp) for k in range(3)]
                    pb = [sum(p[g_][k] for g_ in grp) / len(grp) for k in range(3)]
                    if info['dm'] == 0:
                        if len(grp) == 1 or info['cm'] == 1:
                            p1 = [pb[k] + (fb[k] - damp * pb[k] / mb) * dt for k in range(3)]
                            np_[key] = p1
                            nx[key] = [x[key][k] + p1[k] * dt / mb for k in range(3)]
                        else:
                            np_[key] = None
                            p1 = [pb[k] + (fb[k] - damp * pb[k] / mb) * dt for k in range(3)]
                            nx[key] = [x[key][k] + p1[k] * dt / mb for k in range(3)]
                    else:
                        np_[key] = p[key]; nx[key] = [x[key][k] + fb[k] * dt / damp for k in range(3)]
                    ef = [0.0, 0.0, 0.0]
                o = s * per_step + 1 + (4 * c + n) * 9
                for k in range(3):
                    for (got, exp, lab) in ((out[o + k], nx[key][k], 'position'), (out[o + 6 + k], ef[k], 'force')):
                        e = abs(got - exp)
                        if e > worst: worst = e; where = 'step %d cell %d node %d %s[%d]: native %r, law %r' % (s + 1, c, n, lab, k, got, exp)
                    if info['dm'] == 0 and np_[key] is not None:
                        e = abs(out[o + 3 + k] - np_[key][k])
                        if e > worst: worst = e; where = 'step %d cell %d node %d momentum[%d]: native %r, law %r' % (s + 1, c, n, k, out[o + 3 + k], np_[key][k])
                # continue from the native state (so that a first-step deviation is not double counted)
                x[key] = out[o:o + 3]; p[key] = out[o + 3:o + 6] if info['dm'] == 0 else p[key]
        e = abs(out[s * per_step] - (s + 1) * dt)
        if e > 1e-12 * max(1, abs(dt)) and e > worst: worst = e; where = 'simulated time after step %d: native %r, expected %r' % (s + 1, out[s * per_step], (s + 1) * dt)
    rep = worst > 1e-9 * scale
    return {'reproduced': rep, 'what': where if rep else 'native run follows the law at the model point (max deviation %.3g)' % worst, 'din': din, 'iin': info['iin']}

if __name__ == '__main__':
    run_check('C03', main)
