"""C01 (closed oriented manifold + bookkeeping under remeshing) and C11 (remeshing neutral, selective, terminating):
the real local_mesh_refiner / cell operations run in irsym on catalogue meshes with symbolic coordinates, momenta
and edge-length band.  Topology is concrete on every path (checked by an independent oracle written from the
property text); which paths exist and all geometric / conservation claims are decided by z3."""
import os
import random
import sys
import time
from fractions import Fraction

sys.path.insert(0, os.path.dirname(os.path.dirname(os.path.abspath(__file__))))
from checks import meshes as M
from checks import refine_common as RC
from irsym import api, build, sym as S, solver as SV, par

def inputs_for(m):
    nn = len(m['pts'])
    X = M.sym_coords(m)
    Pm = [[S.var('p%d_%d' % (n, k)) for k in range(3)] for n in range(nn)]
    lmin = S.var('lmin')
    return X, Pm, lmin

def sampler_for(m):
    """sample points near the catalogue geometry with an edge-length band that is frequently satisfied"""
    nn = len(m['pts'])
    def gen(rng):
        env = {}
        noise = rng.choice([0, 1, 1, 3])
        for i in range(nn):
            for k in range(3):
                env['x%d_%d' % (i, k)] = Fraction(round(m['pts'][i][k] * 64), 64) + Fraction(rng.randint(-noise * 4, noise * 4), 64)
                env['p%d_%d' % (i, k)] = Fraction(rng.randint(-8, 8), 4)
        env['lmin'] = Fraction(rng.randint(8, 160), 80)
        for i in range(24):
            for k in range(3):
                env['y%d_%d' % (i, k)] = Fraction(rng.randint(-40, 40), 16)
        return env
    return gen

def labels_for(m):
    return [k % 3 for k in range(len(m['faces']))]

def iin_for(m, op, e=(0, 0), swap=0):
    return M.iin_of(m) + [op, e[0], e[1], swap] + labels_for(m)

def model_din(m, model, extra=0):
    nn = len(m['pts'])
    g = lambda k, d: float(Fraction(model.get(k, d))) if model else d
    din = [g('x%d_%d' % (i, k), m['pts'][i][k]) for i in range(nn) for k in range(3)]
    din += [g('p%d_%d' % (i, k), 0.0) for i in range(nn) for k in range(3)]
    din += [g('lmin', 0.5)]
    din += [g('y%d_%d' % (i, k), 0.1 * i + 0.3 * k) for i in range(extra) for k in range(3)]
    return din

def main(chk, which):
    quick = chk.tier == 'quick'
    ir = build.build_ir(['h_refine.cpp'])
    nat = build.build_native(['h_refine.cpp'])
    native = api.Native(nat)
    rng = random.Random(chk.seed + 41)
    single_meshes = ['T4', 'T5', 'T6'] if quick else ['T4', 'T5', 'T6', 'T6b', 'T7']
    pass_meshes = ['T4', 'T5'] if quick else ['T4', 'T5', 'T6']
    kband = 1
    chk.trusted += ['clang-14 lowering validated per run against g++ -O2 (bitwise, incl. the full refinement pass)', 'irsym incl. libstdc++ red-black tree shim (std::set<edge>) and memory monitors',
                    'polynomial normaliser + z3', 'exact-real reading of doubles']
    chk.assumptions += ['pre-state established by the real constructor + initialize_cell_properties: closed mesh, outward (signed volume > 0), generic position (no zero-area face, no exact ties)',
                        'l_min > 0, l_max = 3 l_min (as the solver constructs the refiner)']
    chk.bounds = {'single operations': 'every edge of %s: split, can_be_merged+merge, swap' % single_meshes,
                  'refinement pass': 'refine_mesh (swap disabled) on %s with at most %d edge-length tests outside the band per pass (paths with more are cut by the exploration bound); path budget 300%s' % (pass_meshes, kband, '' if quick else '; T6 with 0 tests outside the band (the pass must leave it unchanged)'),
                  'chains': 'pass; compaction; all surviving nodes moved to fresh symbolic positions; pass; compaction (T4%s)' % ('' if quick else ', T5'),
                  'outside': 'arbitrary connectivity, meshes > 7 nodes, more than 2 passes, passes with edge swapping enabled (only the single swap operation is covered), zero-area faces'}

    # ---- translator validation ------------------------------------------------------------------
    sc = api.Session(ir, mode='ieee')
    nval = 0; mism = 0
    for name in single_meshes[:3]:
        m = M.CATALOGUE[name]; nn = len(m['pts'])
        edges = sorted(M.undirected_edges(m['faces']))
        for op in (0, 1, 2, 3, 4, 5):
            for rep in range(2 if quick else 6):
                e = edges[rng.randrange(len(edges))]
                din = [c + rng.uniform(-.1, .1) for p in m['pts'] for c in p] + [rng.uniform(-1, 1) for _ in range(3 * nn)] + [rng.choice([0.2, 0.45, 0.7, 1.2])] + [rng.uniform(-1, 1) for _ in range(3 * 64)]
                iin = iin_for(m, op, e, rep % 2)
                r = sc.run('h_refine', din, iin); q = native.call('h_refine', din, iin)
                nval += 1
                if r.status != 'ok' or r.iout != q['i'] or r.ret_status != q['status'] or len(r.dout) != len(q['d']) or not all(api.same_double(a, b) for a, b in zip(r.dout, q['d'])):
                    mism += 1; chk.note('validation mismatch %s op %d edge %r: %r' % (name, op, e, (r.status, r.error)))
    chk.validation = {'programs': 1, 'inputs': nval, 'mismatches': mism}
    chk.functions |= sc.functions_called

    # ---- jobs ----------------------------------------------------------------------------------------
    jobs = []
    for name in single_meshes:
        m = M.CATALOGUE[name]
        for e in sorted(M.undirected_edges(m['faces'])):
            for op in (0, 1, 2):
                jobs.append({'mesh': name, 'op': op, 'edge': e, 'swap': 0, 'k': 0})
    for name in (['T5', 'T6'] if quick else ['T5', 'T6', 'T6b', 'T7']):
        m = M.CATALOGUE[name]
        edges = sorted(M.undirected_edges(m['faces']))
        done = 0
        for e1 in edges:
            for e2 in edges:
                if set(e1) & set(e2): continue
                jobs.append({'mesh': name, 'op': 6, 'edge': e1, 'swap': (e2[0] << 8) | (e2[1] << 16), 'k': 0, 'edge2': e2})
                jobs.append({'mesh': name, 'op': 7, 'edge': e1, 'swap': (e2[0] << 8) | (e2[1] << 16), 'k': 0, 'edge2': e2})
                done += 1
                break
            if done >= (2 if quick else 6): break
    for name in pass_meshes:
        # a second out-of-band edge per pass (k = 2) did not finish within 25 minutes per mesh on 16 cores: the thorough tier keeps k = 1 on T4/T5
        # and adds T6 with k = 0 (a mesh inside the band: the pass must leave it unchanged)
        jobs.append({'mesh': name, 'op': 3, 'edge': (0, 0), 'swap': 0, 'k': (0 if name == 'T6' else kband)})
    for name in (['T4'] if quick else ['T4', 'T5']):
        jobs.append({'mesh': name, 'op': 4, 'edge': (0, 0), 'swap': 0, 'k': 1})

    def work(ji):
        job = jobs[ji]
        m = M.CATALOGUE[job['mesh']]; nn = len(m['pts']); nf = len(m['faces'])
        X, Pm, lmin = inputs_for(m)
        extra = 24 if job['op'] == 4 else 0
        Y = [[S.var('y%d_%d' % (i, k)) for k in range(3)] for i in range(extra)]
        din = M.flat(X) + M.flat(Pm) + [lmin] + M.flat(Y)
        A = [S.cmp('gt', M.signed_volume6(X, m['faces']), S.ZERO), S.cmp('gt', lmin, S.ZERO)]
        s2 = api.Session(ir, mode='real'); z2 = SV.Z3Ctx(); z2.positive_vars = ('lmin',)
        # pre-state: the same constructor path without any operation (op 5 = rebase on a fresh cell is the identity)
        ctl0, res0 = s2.explore('h_refine', din, iin_for(m, 5), assumptions=A, zctx=z2, max_paths=4, branch_timeout_ms=3000, generic_position=True, sampler=sampler_for(m))
        pre_ok = [(tr, pc, r) for (tr, pc, r) in res0 if getattr(r, 'status', None) == 'ok']
        if len(pre_ok) != 1:
            return {'job': job, 'fatal': 'pre-state run has %d paths: %r' % (len(pre_ok), [(getattr(r, 'status', r), getattr(r, 'error', None)) for _, _, r in res0])}
        pre, _, _ = RC.parse_state(pre_ok[0][2].dout, pre_ok[0][2].iout)
        filt = RC.band_filter(job['k'], 0) if job['op'] >= 3 else None
        ctl, res = s2.explore('h_refine', din, iin_for(m, job['op'], job['edge'], job['swap']), assumptions=A, zctx=z2,
                              max_paths=300, branch_timeout_ms=3000, generic_position=True, branch_filter=filt, sampler=sampler_for(m))
        out = {'job': job, 'paths': [], 'exhausted': ctl.exhausted, 'stats': dict(ctl.stats), 'functions': s2.functions_called}
        for (tr, pc, r) in res:
            st = getattr(r, 'status', None)
            key = ''.join('T' if d.taken else 'F' for d in tr if not d.forced) or '-'
            if st == 'pathend':
                continue
            item = {'key': key, 'status': st, 'obs': []}
            out['paths'].append(item)
            if st != 'ok':
                item['error'] = repr(getattr(r, 'error', None))[:400]
                if st == 'memory':
                    stt, model = SV.satisfiable(z2, pc, 10000)
                    item['model'] = model
                continue
            if not RC.all_concrete_ints(r.iout):
                item['status'] = 'symbolic-topology'; continue
            item['ret'] = r.ret_status
            item['events'] = [e for e in r.events if e[0] == 'throw'][:3]
            obs = item['obs']
            def ob(name, claim, core=True, tmo=20000):
                if claim is S.TRUE:
                    obs.append((name, 'proved', None, 0.0, core, True)); return
                t = time.time()
                stt, model = SV.prove(z2, pc, claim, tmo)
                obs.append((name, stt, model, time.time() - t, core, False))
            ip = 0; dp = 0
            merged_flag = None
            if job['op'] == 1:
                merged_flag = r.iout[0]; ip = 1
            if job['op'] in (6, 7):
                merged_flag = r.iout[0]; ip = 2
                item['split_done'] = r.iout[1]
            states = []
            if job['op'] == 4 and r.ret_status == 0:
                mid, dp, ip = RC.parse_state(r.dout, r.iout, dp, ip)
                states.append(('after pass 1 + rebase', mid))
            post, dp, ip = RC.parse_state(r.dout, r.iout, dp, ip)
            states.append(('final', post))
            item['merged'] = merged_flag
            stw, wmodel = SV.satisfiable(z2, pc, 20000)
            item['witness'] = stw
            item['model'] = wmodel
            # ---------------- C01 -------------------------------------------------------------------
            if which == 'C01':
                for (lab, stt_) in states:
                    probs = RC.topology_problems(stt_)
                    item.setdefault('topology', []).append((lab, probs))
                    if not probs:
                        for (fk, cl) in RC.normal_claims(stt_):
                            ob('%s/face %d cached normal and area agree with the winding' % (lab, fk), cl)
                if job['op'] in (0, 1, 2):
                    item['orientation'] = RC.orientation_kept(pre, post)
                if job['op'] == 0:
                    ob('split leaves the signed volume unchanged', S.cmp('eq', RC.signed_volume6_state(post), RC.signed_volume6_state(pre)))
                if job['op'] == 2:
                    ob('swap: consistently oriented result has the orientation of the untouched faces', S.TRUE)
            # ---------------- C11 -------------------------------------------------------------------
            if which == 'C11':
                c11_obligations(job, m, pre, states, r, X, Pm, lmin, Y, ob, item, pc, z2)
        out['queries'] = z2.queries; out['solver_s'] = z2.solver_time
        return out

    chk.log('%d exploration jobs' % len(jobs))
    def work_timed(ji):
        t_ = time.time()
        o_ = work(ji)
        o_['wall'] = time.time() - t_
        if o_['wall'] > 60:
            j_ = jobs[ji]
            print('[%s] job %s op %d edge %r k %d: %.0fs' % (which, j_['mesh'], j_['op'], j_['edge'], j_['k'], o_['wall']), flush=True)
        return o_
    results = par.pmap(work_timed, len(jobs))
    slow = sorted(((r_.get('wall', 0), r_['job']['mesh'], r_['job']['op'], r_['job']['k']) for r_ in results), reverse=True)[:5]
    chk.note('slowest exploration jobs (s, mesh, operation, band): %r' % ([(round(a), b, c, d) for a, b, c, d in slow],))
    for res in results:
        job = res['job']
        tag = '%s/%s%s' % (job['mesh'], RC.OPS[job['op']], (' edge %d-%d' % job['edge']) if job['op'] < 3 else ((' merge %d-%d split %d-%d' % (job['edge'] + job['edge2'])) if job['op'] in (6, 7) else ' (<=%d out-of-band)' % job['k']))
        if 'fatal' in res:
            chk.fail_closed.append(tag + ': ' + res['fatal']); continue
        chk.functions |= res['functions']; chk.queries += res['queries']; chk.solver_s += res['solver_s']
        chk.paths += len(res['paths'])
        if not res['exhausted']:
            chk.fail_closed.append(tag + ': path budget exhausted (%r)' % (res['stats'],))
        if not res['paths']:
            chk.fail_closed.append(tag + ': no feasible path')
        for item in res['paths']:
            ptag = tag + '/path ' + item['key']
            if item['status'] != 'ok':
                if item['status'] == 'memory':
                    chk.ob(ptag + '/completes without memory error', 'violated', True, 0, detail=item['error'])
                    chk.note('%s: memory monitor report %s (reported by the C10 check)' % (ptag, item['error']))
                    chk.fail_closed.append(ptag + ': memory error on the path, see C10')
                else:
                    chk.fail_closed.append(ptag + ': ' + item['status'] + ' ' + item.get('error', ''))
                continue
            if item['witness'] == 'sat': chk.witnesses += 1
            elif item['witness'] == 'unsat':
                chk.note(ptag + ': infeasible path (explored because a feasibility query timed out)'); continue
            if which == 'C01':
                for (lab, probs) in item.get('topology', []):
                    nm = '%s/%s: closed oriented genus-0 manifold, bookkeeping agrees with the triangle list' % (ptag, lab)
                    if probs:
                        rep = replay_topology(native, job, item, lab)
                        chk.ob(nm, 'violated' if rep['reproduced'] else 'unknown', True, 0, detail={'problems': probs[:4], 'replay': rep}, sample={'obligation': nm, 'problems': probs[:3]})
                        if rep['reproduced']:
                            chk.violation('C01/%s/%s/%s' % (RC.OPS[job['op']], job['mesh'], classify(probs)), '%s: %s' % (nm, '; '.join(probs[:3])), rep)
                    else:
                        chk.ob(nm, 'proved', True, 0, sample={'obligation': nm, 'status': 'oracle found no problem'} if len(chk.samples) < 3 else None)
                        chk.obligations[-1]['trivial'] = True
                if item.get('orientation'):
                    chk.ob(ptag + '/untouched faces keep their winding', 'violated', True, 0, detail=item['orientation'][:3])
                    rep = replay_topology(native, job, item, 'final', check_orientation=True)
                    if rep['reproduced']:
                        chk.violation('C01/%s/winding-of-untouched-face-changed' % RC.OPS[job['op']], item['orientation'][0], rep)
                elif job['op'] < 3:
                    chk.ob(ptag + '/untouched faces keep their winding', 'proved', True, 0); chk.obligations[-1]['trivial'] = True
            for (name, stt, model, dt, core, trivial) in item['obs']:
                nm = ptag + '/' + name
                if stt == 'violated':
                    rep = replay_claim(native, job, item, name, model, which)
                    chk.ob(nm, 'violated' if rep['reproduced'] else 'unknown', core, dt, detail=rep, sample={'obligation': nm, 'model': {k: model[k] for k in list(model)[:8]}})
                    if rep['reproduced']:
                        import re as _re
                        chk.violation('%s/%s/%s' % (which, RC.OPS[job['op']], _re.sub(r'[0-9]+', 'N', name.split(':')[0])[:70]), '%s: %s' % (nm, rep['what']), rep)
                else:
                    chk.ob(nm, stt, core, dt, sample={'obligation': nm, 'status': stt} if len(chk.samples) < 8 else None)
                    if trivial: chk.obligations[-1]['trivial'] = True
            if which == 'C11':
                bad_names = {v[0] for v in item.get('c11_violations', [])}
                for cname in item.get('c11_concrete', []):
                    if cname not in bad_names:
                        chk.ob(ptag + '/' + cname, 'proved', True, 0); chk.obligations[-1]['trivial'] = True
                for v in item.get('c11_violations', []):
                    rep = replay_claim(native, job, item, v[0], item.get('model'), which, concrete=v)
                    chk.ob(ptag + '/' + v[0], 'violated' if rep['reproduced'] else 'unknown', True, 0, detail={'what': v[1], 'replay': rep})
                    if rep['reproduced']:
                        chk.violation('C11/%s/%s' % (RC.OPS[job['op']], v[0]), '%s: %s' % (ptag, v[1]), rep)
    if which == 'C01':
        ordering_key_obligations(chk, ir, native)
    native.close()

def classify(probs):
    p = probs[0]
    for k in ('same three nodes', 'Euler', 'shared by', 'edge set', 'free', 'local id', 'get_nb', 'directed edge', 'refers to'):
        if k in p: return k.replace(' ', '-')
    return 'other'

# --------------------------------------------------------------------------------------------------------
def c11_obligations(job, m, pre, states, r, X, Pm, lmin, Y, ob, item, pc, z2):
    post = states[-1][1]
    op = job['op']
    viol = item.setdefault('c11_violations', [])
    conc = item.setdefault('c11_concrete', [])
    nn = len(m['pts'])
    if op == 0: conc += ['split creates exactly one node', 'face-type label inherited by the two children', 'faces not adjacent to the split edge are untouched']
    if op == 1: conc += ['merge replaces the two end nodes by exactly one node', 'rejected merge leaves the mesh unchanged']
    if op == 2: conc += ['operation touches no node']
    if op >= 3: conc += ['refine_mesh returns or throws mesh_integrity_exception after a bounded number of operations (path ended with status %d)' % r.ret_status]
    if op in (0, 1, 2):
        a, b = job['edge']
        pre_live = {k for k, n in enumerate(pre.nodes) if n['used']}
        post_live = {k for k, n in enumerate(post.nodes) if n['used']}
        performed = True
        if op == 1 and not item.get('merged'):
            performed = False
        # total momentum
        tp0 = RC.total_momentum(pre); tp1 = RC.total_momentum(post)
        cl = S.TRUE
        for k in range(3): cl = S.band(cl, S.cmp('eq', tp1[k], tp0[k]))
        ob('total momentum conserved', cl)
        if op == 0:
            new = sorted(post_live - pre_live)
            if len(new) != 1: viol.append(('split creates exactly one node', 'new nodes %r' % (new,)))
            else:
                e = new[0]
                mid = [S.div(S.add(X[a][k], X[b][k]), S.const(2)) for k in range(3)]
                cl = S.TRUE
                for k in range(3): cl = S.band(cl, S.cmp('eq', S.R(post.nodes[e]['pos'][k]), mid[k]))
                ob('new node at the midpoint of the split edge', cl)
                cl = S.TRUE
                for k in range(3):
                    cl = S.band(cl, S.cmp('eq', S.R(post.nodes[e]['mom'][k]), S.div(S.add(Pm[a][k], Pm[b][k]), S.const(3))))
                    cl = S.band(cl, S.cmp('eq', S.R(post.nodes[a]['mom'][k]), S.mul(S.const(Fraction(2, 3)), Pm[a][k])))
                    cl = S.band(cl, S.cmp('eq', S.R(post.nodes[b]['mom'][k]), S.mul(S.const(Fraction(2, 3)), Pm[b][k])))
                ob('momentum shares 2/3, 2/3, 1/3+1/3', cl, core=False)
                # labels: the two children of each parent inherit its label
                parents = [(k, f) for k, f in RC.live_faces(pre) if a in f['ids'] and b in f['ids']]
                for (pk, pf) in parents:
                    c = [v for v in pf['ids'] if v not in (a, b)][0]
                    kids = [f for _, f in RC.live_faces(post) if e in f['ids'] and c in f['ids']]
                    if len(kids) != 2 or any(f['type'] != pf['type'] for f in kids):
                        viol.append(('face-type label inherited by the two children', 'parent face %r label %d, children %r' % (pf['ids'], pf['type'], [(f['ids'], f['type']) for f in kids])))
                    else:
                        ar = S.ZERO
                        for f in kids: ar = S.add(ar, S.R(f['area']))
                        ob('split keeps the area of parent face %d (A_child1 + A_child2 = A_parent)' % pk, S.cmp('eq', ar, S.R(pf['area'])), core=False)
                untouched = [(k, f) for k, f in RC.live_faces(pre) if not (a in f['ids'] and b in f['ids'])]
                for (k, f) in untouched:
                    g = post.faces[k] if k < len(post.faces) else None
                    if g is None or not g['used'] or RC.cyc(g['ids']) != RC.cyc(f['ids']) or g['type'] != f['type']:
                        viol.append(('faces not adjacent to the split edge are untouched', 'face %d %r/%d became %r' % (k, f['ids'], f['type'], (g and (g['ids'], g['type'])))))
                ob('split leaves the enclosed volume unchanged', S.cmp('eq', RC.signed_volume6_state(post), RC.signed_volume6_state(pre)))
        if op == 1 and performed:
            new = sorted(post_live - pre_live); gone = sorted(pre_live - post_live)
            if len(new) + (1 if (set(gone) != {a, b}) else 0) == 0: pass
            # the merged node may reuse a slot: identify it as the live node that is not a survivor with unchanged id
            if set(gone) - {a, b} or not ({a, b} - set(post_live)):
                pass
            cand = [k for k in post_live if k not in pre_live or k in (a, b)]
            if len(cand) != 1:
                viol.append(('merge replaces the two end nodes by exactly one node', 'candidates %r (live before %r, after %r)' % (cand, sorted(pre_live), sorted(post_live))))
            else:
                i_ = cand[0]
                cl = S.TRUE
                for k in range(3):
                    cl = S.band(cl, S.cmp('eq', S.R(post.nodes[i_]['pos'][k]), S.div(S.add(X[a][k], X[b][k]), S.const(2))))
                ob('merged node at the midpoint of the collapsed edge', cl)
                cl = S.TRUE
                for k in range(3):
                    cl = S.band(cl, S.cmp('eq', S.R(post.nodes[i_]['mom'][k]), S.add(Pm[a][k], Pm[b][k])))
                ob('merged node carries the sum of the two momenta', cl)
        # survivors never move / keep their momentum (except the documented shares of the split end nodes)
        survivors = [k for k in pre_live & post_live if not (op == 1 and performed and k in (a, b))]
        if op == 1 and performed:
            survivors = [k for k in survivors if k not in (a, b) and not (k not in pre_live)]
            survivors = [k for k in survivors if k in pre_live and k not in cand] if 'cand' in dir() else survivors
        cl = S.TRUE
        for k in survivors:
            for t in range(3):
                cl = S.band(cl, S.cmp('eq', S.R(post.nodes[k]['pos'][t]), X[k][t]))
                if not (op == 0 and k in (a, b)):
                    cl = S.band(cl, S.cmp('eq', S.R(post.nodes[k]['mom'][t]), Pm[k][t]))
        ob('surviving nodes do not move and keep their momentum', cl)
        if op == 2 or (op == 1 and not performed):
            if post_live != pre_live: viol.append(('operation touches no node', 'live nodes %r -> %r' % (sorted(pre_live), sorted(post_live))))
        if op == 1 and not performed:
            same = [RC.cyc(f['ids']) for _, f in RC.live_faces(post)] == [RC.cyc(f['ids']) for _, f in RC.live_faces(pre)]
            if not same: viol.append(('rejected merge leaves the mesh unchanged', 'faces changed'))
    if op in (6, 7):
        tp0 = RC.total_momentum(pre); tp1 = RC.total_momentum(post)
        cl = S.TRUE
        for k in range(3): cl = S.band(cl, S.cmp('eq', tp1[k], tp0[k]))
        ob('total momentum conserved by the history (collapse, then split reusing the freed slots)', cl)
        if not item.get('merged') or not item.get('split_done'):
            item.setdefault('c11_violations', [])
    if op == 3:
        # selectivity / fix point / termination on this path
        band_hits = sum(1 for d in item['key'] if d == 'T')
        tp0 = RC.total_momentum(pre); tp1 = RC.total_momentum(post)
        cl = S.TRUE
        for k in range(3): cl = S.band(cl, S.cmp('eq', tp1[k], tp0[k]))
        ob('total momentum conserved by the pass', cl)
        lmax2 = S.mul(S.mul(S.const(3), lmin), S.mul(S.const(3), lmin)); lmin2 = S.mul(lmin, lmin)
        nn0 = sum(1 for n in pre.nodes if n['used']); nn1 = sum(1 for n in post.nodes if n['used'])
        pre_faces = [RC.cyc(f['ids']) for _, f in RC.live_faces(pre)]
        post_faces = [RC.cyc(f['ids']) for _, f in RC.live_faces(post)]
        changed = (pre_faces != post_faces) or nn0 != nn1
        if not changed:
            # fix point: nothing moved at all
            cl = S.TRUE
            for k, n in enumerate(post.nodes):
                if not n['used']: continue
                for t in range(3):
                    cl = S.band(cl, S.band(S.cmp('eq', S.R(n['pos'][t]), X[k][t]), S.cmp('eq', S.R(n['mom'][t]), Pm[k][t])))
            ob('conforming mesh left completely unchanged', cl)
        else:
            # selectivity: some edge of the input is outside the band on this path
            out_of_band = S.FALSE
            for (x, y) in sorted(M.undirected_edges(m['faces'])):
                d = S.vsub(X[x], X[y]); l2 = S.vdot(d, d)
                out_of_band = S.bor(out_of_band, S.bor(S.cmp('gt', l2, lmax2), S.cmp('lt', l2, lmin2)))
            ob('the pass changes the mesh only if some edge is outside the length band', out_of_band)
            # every new node is the midpoint of an edge existing at that time: for single events = midpoint of an input edge
            survivors = [k for k, n in enumerate(post.nodes) if n['used'] and k < len(pre.nodes) and pre.nodes[k]['used']]
        item['terminated'] = True
        if r.ret_status == 1:
            item['threw'] = True

def replay_topology(native, job, item, lab, check_orientation=False):
    m = M.CATALOGUE[job['mesh']]
    din = model_din(m, item.get('model'), 24 if job['op'] == 4 else 0)
    iin = iin_for(m, job['op'], job['edge'], job['swap'])
    q = native.call('h_refine', din, iin)
    if q['status'] not in (0, 1) or not q['i']:
        return {'reproduced': False, 'what': 'native run failed: %r' % (q.get('status'),), 'din': din, 'iin': iin}
    ip = 1 if job['op'] == 1 else (2 if job['op'] in (6, 7) else 0)
    try:
        states = []
        dp = 0
        if job['op'] == 4 and q['status'] == 0:
            mid, dp, ip = RC.parse_state(q['d'], q['i'], dp, ip); states.append(mid)
        post, dp, ip = RC.parse_state(q['d'], q['i'], dp, ip); states.append(post)
    except Exception as e:
        return {'reproduced': False, 'what': 'cannot parse native output: %r' % (e,), 'din': din, 'iin': iin}
    probs = []
    for stt in states: probs += RC.topology_problems(stt)
    if check_orientation:
        pre_q = native.call('h_refine', din, iin_for(m, 5))
        pre, _, _ = RC.parse_state(pre_q['d'], pre_q['i'])
        probs += RC.orientation_kept(pre, states[-1])
    return {'reproduced': bool(probs), 'what': '; '.join(probs[:3]) if probs else 'native result passes the oracle at the model point', 'din': din, 'iin': iin}

def replay_claim(native, job, item, name, model, which, concrete=None):
    """numeric replay: run natively at the model, evaluate the same quantity in floats"""
    m = M.CATALOGUE[job['mesh']]; nn = len(m['pts'])
    din = model_din(m, model or item.get('model'), 24 if job['op'] == 4 else 0)
    iin = iin_for(m, job['op'], job['edge'], job['swap'])
    q = native.call('h_refine', din, iin)
    pre_q = native.call('h_refine', din, iin_for(m, 5))
    if q['status'] not in (0, 1) or pre_q['status'] != 0:
        return {'reproduced': False, 'what': 'native run failed', 'din': din, 'iin': iin}
    ip = 1 if job['op'] == 1 else (2 if job['op'] in (6, 7) else 0)
    dp = 0
    if job['op'] == 4 and q['status'] == 0:
        _, dp, ip = RC.parse_state(q['d'], q['i'], dp, ip)
    post, _, _ = RC.parse_state(q['d'], q['i'], dp, ip)
    pre, _, _ = RC.parse_state(pre_q['d'], pre_q['i'])
    probs = []
    scale = max(1.0, max(abs(v) for v in din[:6 * nn]))
    def live(st): return [n for n in st.nodes if n['used']]
    if concrete is not None:
        # concrete (topological / label) finding: recompute on the native state
        a, b = job['edge']
        if 'label' in concrete[0]:
            parents = [(k, f) for k, f in RC.live_faces(pre) if a in f['ids'] and b in f['ids']]
            new = [k for k, n in enumerate(post.nodes) if n['used'] and not (k < len(pre.nodes) and pre.nodes[k]['used'])]
            for (pk, pf) in parents:
                c = [v for v in pf['ids'] if v not in (a, b)][0]
                kids = [f for _, f in RC.live_faces(post) if new and new[0] in f['ids'] and c in f['ids']]
                if len(kids) != 2 or any(f['type'] != pf['type'] for f in kids):
                    probs.append('native: parent face %r label %d, children %r' % (pf['ids'], pf['type'], [(f['ids'], f['type']) for f in kids]))
        else:
            probs.append('native state differs as reported: ' + concrete[1]) if RC.topology_problems(post) or True else None
    if 'momentum' in name:
        for k in range(3):
            t0 = sum(n['mom'][k] for n in live(pre)); t1 = sum(n['mom'][k] for n in live(post))
            if abs(t0 - t1) > 1e-9 * max(1.0, abs(t0)): probs.append('total momentum[%d] %r -> %r' % (k, t0, t1))
    if 'midpoint' in name or 'do not move' in name or 'unchanged' in name:
        a, b = job['edge']
        for k, n in enumerate(post.nodes):
            if not n['used']: continue
            if k < len(pre.nodes) and pre.nodes[k]['used'] and not (job['op'] == 1 and k in (a, b)):
                if any(abs(n['pos'][t] - pre.nodes[k]['pos'][t]) > 1e-12 * scale for t in range(3)):
                    if 'midpoint' not in name: probs.append('surviving node %d moved %r -> %r' % (k, pre.nodes[k]['pos'], n['pos']))
            else:
                mid = [(pre.nodes[a]['pos'][t] + pre.nodes[b]['pos'][t]) / 2 for t in range(3)]
                if job['op'] in (0, 1) and any(abs(n['pos'][t] - mid[t]) > 1e-12 * scale for t in range(3)) and 'do not move' not in name:
                    probs.append('new node %d at %r, midpoint is %r' % (k, n['pos'], mid))
    if 'volume' in name:
        def vol(st):
            tot = 0.0
            for _, f in RC.live_faces(st):
                A, B, C = [st.nodes[v]['pos'] for v in f['ids']]
                tot += A[0] * (B[1] * C[2] - B[2] * C[1]) - A[1] * (B[0] * C[2] - B[2] * C[0]) + A[2] * (B[0] * C[1] - B[1] * C[0])
            return tot
        if abs(vol(pre) - vol(post)) > 1e-9 * scale ** 3: probs.append('signed volume*6 %r -> %r' % (vol(pre), vol(post)))
    if 'normal' in name:
        import math
        for k, f in RC.live_faces(post):
            A, B, C = [post.nodes[v]['pos'] for v in f['ids']]
            u = [B[t] - A[t] for t in range(3)]; v = [C[t] - A[t] for t in range(3)]
            n = [u[1] * v[2] - u[2] * v[1], u[2] * v[0] - u[0] * v[2], u[0] * v[1] - u[1] * v[0]]
            nrm = math.sqrt(sum(x * x for x in n))
            if nrm > 0 and (abs(f['area'] - nrm / 2) > 1e-9 * scale ** 2 or any(abs(f['normal'][t] - n[t] / nrm) > 1e-7 for t in range(3))):
                probs.append('face %d cached normal %r area %r, winding gives %r / %r' % (k, f['normal'], f['area'], [x / nrm for x in n], nrm / 2))
    if 'band' in name or 'conforming' in name:
        changed = [RC.cyc(f['ids']) for _, f in RC.live_faces(pre)] != [RC.cyc(f['ids']) for _, f in RC.live_faces(post)]
        lmin = din[6 * nn]
        inband = True
        for (x, y) in M.undirected_edges(m['faces']):
            l2 = sum((pre.nodes[x]['pos'][t] - pre.nodes[y]['pos'][t]) ** 2 for t in range(3))
            if l2 > 9 * lmin * lmin or l2 < lmin * lmin: inband = False
        if changed and inband: probs.append('mesh changed although every edge is inside the band [%r, %r]' % (lmin, 3 * lmin))
    return {'reproduced': bool(probs), 'what': '; '.join(probs[:3]) if probs else 'native run satisfies the claim at the model point', 'din': din, 'iin': iin}

# --------------------------------------------------------------------------------------------------------
def ordering_key_obligations(chk, ir, native):
    """C01/O5: the ordering key of std::set<edge> (computed in double from the two node ids) is injective on
    normalised id pairs below 2^26 and operator< is the strict order of the keys. Integer encoding, case split on the id sums."""
    import z3
    t0 = time.time()
    B = 1 << 26
    n1, n2, m1, m2 = z3.Ints('n1 n2 m1 m2')
    def key2(a, b):   # 2*key = (a+b)(a+b+1) + 2b  (all intermediate values are integers or half-integers < 2^53: exact in double)
        return (a + b) * (a + b + 1) + 2 * b
    rng = [x >= 0 for x in (n1, n2, m1, m2)] + [x < B for x in (n1, n2, m1, m2)] + [n1 <= n2, m1 <= m2]
    cases = {'S<T': (n1 + n2) < (m1 + m2), 'S>T': (n1 + n2) > (m1 + m2), 'S=T': (n1 + n2) == (m1 + m2)}
    for cname, case in cases.items():
        s = z3.Solver(); s.set('timeout', 60000)
        s.add(rng); s.add(case)
        s.add(key2(n1, n2) == key2(m1, m2)); s.add(z3.Or(n1 != m1, n2 != m2))
        t = time.time(); r = s.check(); dt = time.time() - t
        chk.queries += 1; chk.solver_s += dt
        nm = 'edge ordering key/injective on id pairs < 2^26/case %s' % cname
        if r == z3.unsat: chk.ob(nm, 'proved', True, dt)
        elif r == z3.sat:
            mdl = s.model()
            vals = [mdl[v].as_long() for v in (n1, n2, m1, m2)]
            chk.ob(nm, 'violated', True, dt, detail=vals)
            chk.violation('C01/edge-key-collision', 'edges %r and %r have the same ordering key' % (vals[:2], vals[2:]), {'ids': vals})
        else: chk.ob(nm, 'unknown', True, dt)
    # exactness side condition: 2*key < 2^54 and key is a multiple of 1/2 => representable; proved as an integer fact
    s = z3.Solver(); s.set('timeout', 60000)
    s.add(n1 >= 0, n2 >= 0, n1 < B, n2 < B, key2(n1, n2) >= (1 << 54))
    r = s.check(); chk.queries += 1
    chk.ob('edge ordering key/intermediate values below 2^53 (double arithmetic exact)', 'proved' if r == z3.unsat else ('violated' if r == z3.sat else 'unknown'), True, 0)
    # the encoding is tied to the real code: hash() of the real edge class is evaluated by irsym on sampled and boundary id pairs and compared with key2/2
    sess = api.Session(ir, mode='ieee')
    rnd = random.Random(5)
    bad = 0; n = 0
    pairs = [(0, 0), (0, 1), (1, 2), (B - 2, B - 1), (0, B - 1), (12345, 67890)] + [(rnd.randrange(B), rnd.randrange(B)) for _ in range(60)]
    prev = (3, 7)
    for (a, b) in pairs:
        r = sess.run('h_edge_key', [], [a, b, prev[0], prev[1]])
        q = native.call('h_edge_key', [], [a, b, prev[0], prev[1]])
        lo, hi = min(a, b), max(a, b)
        plo, phi = min(prev), max(prev)
        k1 = ((lo + hi) * (lo + hi + 1) + 2 * hi) // 2; k2 = ((plo + phi) * (plo + phi + 1) + 2 * phi) // 2
        n += 1
        if r.status != 'ok' or r.iout != q['i'] or r.iout[0] != k1 or r.iout[1] != int(k1 < k2) or r.iout[2] != int((lo, hi) == (plo, phi)): bad += 1
        prev = (a, b)
    chk.functions |= sess.functions_called
    chk.ob('edge ordering key/integer encoding agrees with the real edge::hash, operator< and operator== on %d id pairs (irsym execution of the IR and native run)' % n, 'proved' if bad == 0 else 'violated', True, time.time() - t0)
    if bad:
        # the real key is not the one proved injective: look for two different edges that the real std::set<edge> cannot tell apart
        # (native edge::hash on random id pairs below 2^17, birthday search), which is the property-level failure
        seen_keys = {}
        found = None
        rs = random.Random(11)
        for _ in range(150000):
            a = rs.randrange(1 << 17); b = rs.randrange(1 << 17)
            if a == b: continue
            lo, hi = min(a, b), max(a, b)
            q = native.call('h_edge_key', [], [lo, hi, 3, 7])
            if q.get('status') != 0 or not q['i']: break
            k = q['i'][0]
            other = seen_keys.get(k)
            if other is not None and other != (lo, hi):
                found = (other, (lo, hi), k); break
            seen_keys[k] = (lo, hi)
        if found:
            (e1, e2, k) = found
            q2 = native.call('h_edge_key', [], [e1[0], e1[1], e2[0], e2[1]])
            chk.violation('C01/edge-key-collision', 'edges %r and %r have the same ordering key %d in the real edge::hash (operator< says %r, operator== says %r): std::set<edge> treats them as one edge' % (e1, e2, k, q2['i'][1:2], q2['i'][2:3]),
                          {'edges': [e1, e2], 'key': k, 'native h_edge_key': q2['i'], 'how': 'harness h_edge_key (/verif/harness/h_refine.cpp), native build'})
        else:
            chk.fail_closed.append('integer encoding of edge::hash disagrees with the IR on %d pairs (no colliding pair found below 2^17)' % bad)
