#!/usr/bin/env python3
"""C02 — internal forces: the real force routines of cell.cpp run in irsym on closed meshes with all
coordinates and parameters symbolic; z3 decides net force = 0, net torque = 0, pressure force =
p dV/dx_i, tension/elasticity force = -sum_f gamma_eff,f dA_f/dx_i, per-hinge and per-face
momentum balance of bending and angle regularisation."""
import os
import random
import sys
import time
from fractions import Fraction

sys.path.insert(0, os.path.dirname(os.path.dirname(os.path.abspath(__file__))))
from checks.framework import run_check
from checks import meshes as M
from irsym import api, build, sym as S, solver as SV, par
from irsym.poly import pdiff

PARAMS = ['pressure', 'k_area', 'iso_ratio', 'k_angle', 'bulk', 'max_pressure', 'growth', 'min_vol', 'dt', 'tension0', 'bend0', 'tension1', 'bend1']
TERMS = {0: 'pressure', 1: 'tension+elasticity', 2: 'bending(one hinge)', 3: 'angle-regularisation(one face)'}

def face_types(nf):
    return [k % 2 for k in range(nf)]

def iin_for(m, term, face_index=0, edge=(0, 0)):
    nf = len(m['faces'])
    return M.iin_of(m) + [term, 2] + face_types(nf) + [face_index, edge[0], edge[1]]

def forces_of(r, nn):
    return [r.dout[3 * i:3 * i + 3] for i in range(nn)], r.dout[3 * nn:3 * nn + 4]

def net(F):
    return [S.R(sum_nodes([f[k] for f in F])) for k in range(3)]

def sum_nodes(xs):
    t = S.ZERO
    for x in xs: t = S.add(t, S.R(x))
    return t

def torque(X, F):
    tot = [S.ZERO] * 3
    for x, f in zip(X, F):
        c = S.vcross(x, [S.R(v) for v in f])
        tot = [S.add(tot[k], c[k]) for k in range(3)]
    return tot

def main(chk):
    quick = chk.tier == 'quick'
    ir = build.build_ir(['h_cell.cpp'])
    nat = build.build_native(['h_cell.cpp'])
    native = api.Native(nat)
    rng = random.Random(chk.seed + 11)
    meshes_pt = ['T4', 'T5'] if quick else ['T4', 'T5', 'T6']
    chk.bounds = {'pressure/tension meshes': meshes_pt, 'angle regularisation': 'every face of T4 (one face at a time)' if quick else 'every face of T4 and T5',
                  'bending': 'one hinge at a time (edge set reduced to that hinge by the harness), hinges of T4 in the canonical hinge frame (hinge on the x axis, first wing in the xy-plane) with a free translation; general orientation of the hinge is outside this run',
                  'parameters': 'all symbolic reals; two face types assigned alternately',
                  'outside': 'rounding; meshes with more than 6 nodes (the force laws are per face / per hinge); rotation covariance is checked in the thorough tier only; '
                             'the value of the bending / regularisation gradients (only their momentum balance is decided)'}
    chk.trusted += ['clang-14 lowering validated per run against g++ -O2 (bitwise)', 'irsym + polynomial normaliser (irsym/poly.py) + z3',
                    'exact-real reading; M_PI/2 read as pi/2 in cos/sin of concrete arguments; acos/tan/cbrt/log uninterpreted']
    chk.assumptions += ['mesh closed and wound outward (signed volume > 0), generic position (every exact/almost-equal-to-zero test made by the code falls on the non-degenerate side)']

    # ---- translator validation -----------------------------------------------------------------
    sc = api.Session(ir, mode='ieee')
    mism = 0; nval = 0
    for name in ('T4', 'T6'):
        m = M.CATALOGUE[name]
        nn = len(m['pts'])
        for k in range(10 if quick else 40):
            for term in range(5):
                din = [c + rng.uniform(-0.15, 0.15) for p in m['pts'] for c in p] + [rng.uniform(0.1, 2) for _ in PARAMS]
                din[3 * nn + 5] = 1e9
                e = sorted(M.undirected_edges(m['faces']))[k % len(M.undirected_edges(m['faces']))]
                iin = iin_for(m, term, k % len(m['faces']), e)
                r = sc.run('h_c02_forces', din, iin); q = native.call('h_c02_forces', din, iin)
                nval += 1
                if r.status != 'ok' or len(r.dout) != len(q['d']) or not all(api.same_double(x, y) for x, y in zip(r.dout, q['d'])):
                    mism += 1; chk.note('translator validation mismatch %s term %d: %r' % (name, term, r.error))
    chk.validation = {'programs': 1, 'inputs': nval, 'mismatches': mism}
    chk.functions |= sc.functions_called

    z = SV.Z3Ctx()
    z.positive_vars = ('hL', 'hb')
    sess = api.Session(ir, mode='real')
    P = [S.var(n) for n in PARAMS]
    tasks = []
    tmo = 20000 if quick else 120000
    def add(name, pc, claim, core=True, info=None):
        tasks.append((name, list(pc), claim, tmo, core, info))

    generic_seen = []
    def explore(m, term, X, face_index=0, edge=(0, 0), extra=(), max_paths=64, params=None):
        A = [S.cmp('gt', M.signed_volume6(X, m['faces']), S.ZERO)] + list(extra)
        ctl, res = sess.explore('h_c02_forces', M.flat(X) + (params or P), iin_for(m, term, face_index, edge), assumptions=A, zctx=z,
                                max_paths=max_paths, branch_timeout_ms=2000, generic_position=True)
        chk.absorb(session=sess, ctl=ctl)
        chk.log('%s term %d face %d edge %r: %d paths %s' % (m['name'], term, face_index, edge, len(res), ctl.stats))
        for g in ctl.generic_assumed:
            if g not in generic_seen and len(generic_seen) < 40: generic_seen.append(g)
        if not ctl.exhausted:
            chk.fail_closed.append('%s term %d: path budget exhausted' % (m['name'], term))
        good = []
        for (tr, pc, r) in res:
            st = getattr(r, 'status', None)
            if st == 'ok': good.append((tr, pc, r))
            elif st == 'pathend': pass
            else: chk.fail_closed.append('%s term %d: path ended with %s %r' % (m['name'], term, st, getattr(r, 'error', None)))
        return good

    def momentum_obligations(tag, X, pc, F, core=True, info=None):
        nF = net(F)
        for k in range(3):
            add('%s/net force[%d]=0' % (tag, k), pc, S.cmp('eq', nF[k], S.ZERO), core, info)
        T = torque(X, F)
        for k in range(3):
            add('%s/net torque[%d]=0' % (tag, k), pc, S.cmp('eq', T[k], S.ZERO), core, info)
        add('%s/witness' % tag, pc, S.FALSE, True, info)

    pressure, k_area, iso = P[0], P[1], P[2]
    for name in meshes_pt:
        m = M.CATALOGUE[name]
        nn = len(m['pts']); faces = m['faces']
        X = M.sym_coords(m)
        PC = SV.norm_of(z).P
        # ---- pressure ----
        for (tr, pc, r) in explore(m, 0, X):
            F, (vol, area, _, _) = forces_of(r, nn)
            tag = '%s/pressure' % name
            info = {'mesh': name, 'term': 0}
            momentum_obligations(tag, X, pc, F, True, info)
            v6 = PC.of(M.signed_volume6(X, faces))
            for i in range(nn):
                for k in range(3):
                    dv = PC.to_node(pdiff(PC, v6, 'x%d_%d' % (i, k)))
                    add('%s/F[%d][%d]=p*dV/dx' % (tag, i, k), pc, S.cmp('eq', S.R(F[i][k]), S.mul(pressure, S.div(dv, S.const(6)))), True, info)
        # ---- surface tension + membrane elasticity ----
        # twice: all parameters symbolic (exact comparisons of a parameter with 0 are then taken on their generic side), and the
        # parameter set "both surface tensions exactly zero, area elasticity on" that the property names explicitly
        Pz = list(P); Pz[9] = 0.0; Pz[11] = 0.0
        runs = [(tr, pc, r, P, '') for (tr, pc, r) in explore(m, 1, X)] + [(tr, pc, r, Pz, ' (tensions zero)') for (tr, pc, r) in explore(m, 1, X, params=Pz)]
        for (tr, pc, r, Pcur, suffix) in runs:
            F, (vol, area, _, _) = forces_of(r, nn)
            tag = '%s/tension%s' % (name, suffix)
            info = {'mesh': name, 'term': 1, 'zero_tension': bool(suffix)}
            momentum_obligations(tag, X, pc, F, True, info)
            A0 = S.uf('cbrt', S.mul(S.mul(iso, S.R(vol)), S.R(vol)))
            gamma_el = S.mul(S.div(k_area, A0), S.sub(S.div(S.R(area), A0), S.ONE))
            ft = face_types(len(faces))
            for i in range(nn):
                for k in range(3):
                    tot = S.ZERO
                    for fi, f in enumerate(faces):
                        if i not in f: continue
                        q = M.face_norm2(X, f)
                        dq = PC.to_node(pdiff(PC, PC.of(q), 'x%d_%d' % (i, k)))
                        # dA_f/dx = d(1/2 sqrt(q))/dx = dq / (4 sqrt(q))
                        dA = S.div(dq, S.mul(S.const(4), S.sqrt(q)))
                        geff = S.add(S.R(Pcur[9 + 2 * ft[fi]]), gamma_el)
                        tot = S.add(tot, S.mul(geff, dA))
                    add('%s/F[%d][%d]=-sum gamma_eff dA/dx' % (tag, i, k), pc, S.cmp('eq', S.R(F[i][k]), S.neg(tot)), True, info)

    # ---- angle regularisation, one face at a time ----
    for name in (['T4'] if quick else ['T4', 'T5']):
        m = M.CATALOGUE[name]; nn = len(m['pts']); X = M.sym_coords(m)
        for fi in range(len(m['faces'])):
            paths = explore(m, 3, X, face_index=fi, max_paths=200)
            active = 0
            for (tr, pc, r) in paths:
                F, _ = forces_of(r, nn)
                key = ''.join('T' if d.taken else 'F' for d in tr if not d.forced)
                nz = any(isinstance(c, S.Node) for f in F for c in f)
                if nz: active += 1
                momentum_obligations('%s/regularise face %d/path %s' % (name, fi, key or '-'), X, pc, F, True, {'mesh': name, 'term': 3, 'face': fi})
                # selectivity: only the three nodes of the face receive a force
                for i in range(nn):
                    if i not in m['faces'][fi] and any((isinstance(c, S.Node) or c != 0.0) for c in F[i]):
                        chk.violation('C02/regularise-touches-foreign-node', 'regularize_face_angles applied a force to node %d which is not part of face %d' % (i, fi), {'mesh': name})
            if not active:
                chk.fail_closed.append('%s face %d: no path applies a regularisation force (vacuity)' % (name, fi))

    # ---- bending, one hinge at a time, canonical hinge frame with free translation ----
    # hinge nodes i,j at t and t+(L,0,0); first opposite node at t+(a,b,0) with L,b>0; second opposite node free.
    for name in ['T4']:
        m = M.CATALOGUE[name]; nn = len(m['pts'])
        edges = sorted(M.undirected_edges(m['faces']))
        if quick: edges = edges[:3]
        t = [S.var('ht0'), S.var('ht1'), S.var('ht2')]
        hL, ha, hb, hc, hd, he = [S.var(v) for v in ('hL', 'ha', 'hb', 'hc', 'hd', 'he')]
        for e in edges:
            others = [v for v in range(nn) if v not in e]
            X = [None] * nn
            X[e[0]] = list(t)
            X[e[1]] = S.vadd(t, [hL, S.ZERO, S.ZERO])
            X[others[0]] = S.vadd(t, [ha, hb, S.ZERO])
            X[others[1]] = S.vadd(t, [hc, hd, he])
            paths = explore(m, 2, X, edge=e, extra=[S.cmp('gt', hL, S.ZERO), S.cmp('gt', hb, S.ZERO)], max_paths=64)
            active = 0
            for (tr, pc, r) in paths:
                F, _ = forces_of(r, nn)
                key = ''.join('T' if d.taken else 'F' for d in tr if not d.forced)
                nz = any(isinstance(c, S.Node) for f in F for c in f)
                if not nz: continue
                active += 1
                momentum_obligations('%s/bending hinge %d-%d (canonical frame)/path %s' % (name, e[0], e[1], key or '-'), X, pc, F, True,
                                     {'mesh': name, 'term': 2, 'edge': e, 'frame': [e[0], e[1], others[0], others[1]]})
            if not active:
                chk.fail_closed.append('%s hinge %r: no path applies a bending force (vacuity)' % (name, e))

    chk.log('discharging %d obligations' % len(tasks))
    outs = par.prove_all(z, [t[:4] for t in tasks])
    chk.queries += z.queries
    for (nm, pc, cl, _, core, info), (st, model, dt) in zip(tasks, outs):
        chk.solver_s += dt
        if nm.endswith('/witness'):
            if st == 'violated': chk.witnesses += 1
            elif st == 'proved': chk.note('%s: path infeasible' % nm)
            continue
        if st == 'violated':
            rep = replay(native, info, model, nm)
            if rep.get('reproduced'):
                chk.ob(nm, 'violated', core, dt, detail=rep, sample={'obligation': nm, 'model': model})
                term = TERMS[info['term']]
                kind = 'net force' if 'net force' in nm else ('net torque' if 'net torque' in nm else 'force law')
                chk.violation('C02/%s/%s' % (term, kind), '%s: %s' % (nm, rep['what']), rep)
            else:
                # a model that only exists because libm functions are uninterpreted / atoms abstracted: undecided, not a violation
                chk.ob(nm, 'unknown', core, dt, detail='solver model not reproduced natively (%s)' % rep.get('what'))
        else:
            chk.ob(nm, st, core, dt, sample={'obligation': nm, 'status': st} if len(chk.samples) < 8 else None)
    native.close()
    chk.bounds['generic_position_assumptions(sample)'] = generic_seen[:40]
    chk.finish(level='other', explanation=(
        'The real apply_pressure_on_surface, apply_surface_tension_and_membrane_elasticity, apply_bending_forces (one hinge) and regularize_face_angles '
        '(one face) run in irsym after the real constructor/initialisation, with every coordinate and parameter symbolic. For every feasible path the '
        'solver decides net force = 0 and net torque = 0; pressure and tension/elasticity forces are compared per node and component with p*dV/dx_i and '
        '-sum_f gamma_eff,f*dA_f/dx_i obtained by differentiating the oracle volume / squared-area polynomials. Solver models are replayed on the '
        'g++ build; only reproduced ones are violations.'))

def replay(native, info, model, nm):
    if not model: return {'reproduced': False, 'what': 'no model'}
    m = M.CATALOGUE[info['mesh']]
    nn = len(m['pts'])
    coords = [float(Fraction(model.get('x%d_%d' % (i, k), 0))) for i in range(nn) for k in range(3)]
    if 'frame' in info:
        g = lambda v: float(Fraction(model.get(v, 0)))
        i_, j_, k_, l_ = info['frame']
        t = [g('ht0'), g('ht1'), g('ht2')]
        pts = {i_: t, j_: [t[0] + g('hL'), t[1], t[2]], k_: [t[0] + g('ha'), t[1] + g('hb'), t[2]], l_: [t[0] + g('hc'), t[1] + g('hd'), t[2] + g('he')]}
        coords = [c for v in range(nn) for c in pts[v]]
    params = [float(Fraction(model.get(p, 1))) for p in PARAMS]
    params[5] = 1e9 if 'max_pressure' not in model else params[5]
    if info.get('zero_tension'):
        # the obligation does not depend on the values of the elastic parameters (the solver's model may pick degenerate ones): fixed sane values
        params[9] = 0.0; params[11] = 0.0; params[1] = 1.0; params[2] = 150.0
    iin = iin_for(m, info['term'], info.get('face', 0), info.get('edge', (0, 0)))
    q = native.call('h_c02_forces', coords + params, iin)
    if q['status'] != 0 or len(q['d']) < 3 * nn:
        return {'reproduced': False, 'what': 'native run failed (%r)' % (q['status'],)}
    F = [q['d'][3 * i:3 * i + 3] for i in range(nn)]
    X = [coords[3 * i:3 * i + 3] for i in range(nn)]
    fmax = max([abs(c) for f in F for c in f] + [1e-300])
    xmax = max([abs(c) for c in coords] + [1.0])
    netF = [sum(f[k] for f in F) for k in range(3)]
    tq = [0.0, 0.0, 0.0]
    for x, f in zip(X, F):
        tq[0] += x[1] * f[2] - x[2] * f[1]; tq[1] += x[2] * f[0] - x[0] * f[2]; tq[2] += x[0] * f[1] - x[1] * f[0]
    res = {'coords': coords, 'params': dict(zip(PARAMS, params)), 'net_force': netF, 'net_torque': tq, 'max_force': fmax, 'iin': iin}
    if not all(c == c and abs(c) != float('inf') for f in F for c in f):
        return dict(res, reproduced=False, what='non-finite native forces at the model point')
    problems = []
    if 'net force' in nm and max(abs(c) for c in netF) > 1e-7 * fmax:
        problems.append('net force %r is not zero (largest nodal force %.3g)' % (netF, fmax))
    if 'net torque' in nm and max(abs(c) for c in tq) > 1e-7 * fmax * xmax:
        problems.append('net torque %r is not zero (largest nodal force %.3g)' % (tq, fmax))
    if 'F[' in nm:
        # finite-difference check of the force law at the model point
        i = int(nm.split('F[')[1].split(']')[0]); k = int(nm.split('][')[1].split(']')[0])
        h = 1e-6 * xmax
        def energy_terms(c):
            return native.call('h_c02_forces', c + params, iin)['d'][3 * nn:3 * nn + 2]
        cp = list(coords); cp[3 * i + k] += h
        cm = list(coords); cm[3 * i + k] -= h
        vp, ap = energy_terms(cp); vm, am = energy_terms(cm)
        if info['term'] == 0:
            expect = params[0] * (vp - vm) / (2 * h)
            if abs(expect - F[i][k]) > 1e-5 * max(fmax, abs(expect)):
                problems.append('pressure force %.9g vs p*dV/dx (finite difference) %.9g' % (F[i][k], expect))
        elif info.get('zero_tension'):
            # only membrane elasticity acts: F = -gamma_el dA/dx with gamma_el = k/A0 (A/A0 - 1), A0 = cbrt(iso V^2), A the total area
            vol, area = q['d'][3 * nn:3 * nn + 2]
            A0 = (params[2] * vol * vol) ** (1.0 / 3.0)
            gam = params[1] / A0 * (area / A0 - 1.0)
            expect = -gam * (ap - am) / (2 * h)
            if abs(expect - F[i][k]) > 1e-5 * max(fmax, abs(expect), 1e-300):
                problems.append('with zero surface tensions the nodal force is %.9g, membrane elasticity alone gives -gamma_el dA/dx = %.9g' % (F[i][k], expect))
        else:
            res['note'] = 'tension law compared by the solver only; finite-difference replay needs per-face areas'
            # total-area derivative with uniform tension as a sanity replay
            problems.append('force law F[%d][%d] differs from -sum gamma_eff dA/dx at the model point' % (i, k)) if replay_tension_fd(native, info, coords, params, iin, i, k, F, nn, fmax) else None
    res['reproduced'] = bool(problems)
    res['what'] = '; '.join(p for p in problems if p) if problems else 'native run satisfies the obligation at the model point'
    return res

def replay_tension_fd(native, info, coords, params, iin, i, k, F, nn, fmax):
    """finite-difference replay of the tension law: with both face types given the same tension and no elasticity,
    F = -gamma dA/dx"""
    p2 = list(params); p2[1] = 0.0; p2[11] = p2[9]
    h = 1e-6 * max([abs(c) for c in coords] + [1.0])
    def area(c): return native.call('h_c02_forces', c + p2, iin)['d'][3 * nn + 1]
    cp = list(coords); cp[3 * i + k] += h
    cm = list(coords); cm[3 * i + k] -= h
    f = native.call('h_c02_forces', coords + p2, iin)['d'][3 * i + k]
    expect = -p2[9] * (area(cp) - area(cm)) / (2 * h)
    return abs(expect - f) > 1e-5 * max(abs(f), abs(expect), 1e-12)

if __name__ == '__main__':
    run_check('C02', main)
