#!/usr/bin/env python3
"""C17 — the step after tokenisation: mesh_reader::get_cell_mesh on arbitrary connectivity lists.  The real function is
executed from the LLVM IR with every list entry symbolic (any value std::stoi can deliver for the reader's [0-9]+ tokens:
0 .. 2^31-1), for all list lengths up to a bound, one and two cells, several point-array sizes.  irsym's memory model checks
every access; accesses through symbolic offsets and into allocations of symbolic size are decided by z3 (can the offset leave
the object under the path condition?).  Claim per path: the function either returns meshes whose local ids are in range and
whose coordinates are copies of existing points, or throws an exception derived from std::exception; no access outside an
object, no unbounded loop.  Every memory report is replayed natively (valgrind memcheck as replay oracle) at the solver's model.
Second part: the parameter reader on files with one empty element <tag></tag> (every tag in turn; tinyxml2 navigation as environment table, see C18).
Byte-level parsing (regex, getline, tinyxml2 internals, strtod) is not encoded: see DESIGN.md."""
import os
import sys
import time

sys.path.insert(0, os.path.dirname(os.path.dirname(os.path.abspath(__file__))))
from checks.framework import run_check
from checks.c10 import valgrind_replay, site_of
from irsym import api, build, envstubs, sym as S, solver as SV, par

ENTRY = 'h_c17_cell_mesh'
IMAX = 2 ** 31 - 1

def shapes(quick):
    """(point-array length, [list length per cell]); fewer points for longer lists: every in-range id is enumerated"""
    out = []
    for n in range(0, 6): out.append((12, [n]))
    for npos in (0, 3, 13): out.append((npos, [5]))
    out += [(6, [6]), (3, [6]), (12, [0, 5]), (12, [5, 0]), (12, [3, 3]), (6, [5, 3]), (3, [5, 5])]
    if not quick: out += [(3, [7]), (12, [1, 5]), (6, [3, 3, 3]), (3, [4, 0, 4])]
    return out

def concrete_of(model, npos, lens):
    ent = [int(model.get('e%d' % k, 0)) if model else 0 for k in range(sum(lens))]
    return [npos, len(lens)] + list(lens) + ent

def run_shape(ir, npos, lens, tmo_ms, max_paths):
    t0 = time.time()
    z = SV.Z3Ctx()
    n = sum(lens)
    E = [S.ivar('e%d' % k, 64, 0, IMAX) for k in range(n)]
    sess = api.Session(ir, mode='real', overrides=envstubs.opaque_to_string())
    ctl, res = sess.explore(ENTRY, [], [npos, len(lens)] + list(lens) + E, zctx=z, max_paths=max_paths, branch_timeout_ms=tmo_ms, symbolic_alloc=True, max_steps=3000000)
    name = 'points %d, lists %r' % (npos // 3, lens)
    out = {'name': name, 'npos': npos, 'lens': lens, 'obs': [], 'reports': [], 'fail': [], 'paths': ctl.paths_done, 'functions': sorted(sess.functions_called), 'classes': {}, 'witness': 0}
    if not ctl.exhausted: out['fail'].append('%s: path budget exhausted (%d paths)' % (name, ctl.paths_done))
    for (tr, pc, r) in res:
        st = getattr(r, 'status', None)
        if st == 'pathend': continue
        key = ''.join(('T' if d.taken else 'F') if d.kind != 'v' else 'v' for d in tr)[-32:] if tr else '-'
        if st == 'memory':
            kind, msg, where = r.error
            stw, model = SV.satisfiable(z, pc, tmo_ms)
            if stw == 'unsat': continue
            out['reports'].append({'kind': kind, 'msg': msg, 'where': where, 'model': {k: int(v) for k, v in (model or {}).items()}, 'sat': stw})
            out['obs'].append((name + '/path ' + key + '/every access inside a live object', 'violated' if stw == 'sat' else 'unknown', True, 0.0, {'report': msg}))
            continue
        if st == 'exception':
            out['reports'].append({'kind': 'escape', 'msg': 'exception %s is not derived from std::exception' % getattr(r, 'exception', '?'), 'where': '', 'model': {}, 'sat': 'sat'})
            continue
        if st != 'ok':
            out['fail'].append('%s: path ended with %s %r' % (name, st, getattr(r, 'error', None))); continue
        cls = r.iout[0]
        out['classes'][cls] = out['classes'].get(cls, 0) + 1
        if cls == 3:
            out['reports'].append({'kind': 'escape', 'msg': 'an exception that is not a std::exception leaves get_cell_mesh', 'where': '', 'model': {}, 'sat': 'sat'})
            continue
        ok = True; why = None
        if cls == 0:
            out['witness'] += 1
            # returned meshes: local ids below the number of copied points, coordinates are entries of node_pos
            io = r.iout; p = 1
            try:
                nm = io[p]; p += 1
                dpos = 0
                if nm != len(lens): ok = False; why = 'number of meshes %r for %d cells' % (nm, len(lens))
                for m in range(nm):
                    nf = io[p]; p += 1
                    ids = []
                    for f in range(nf):
                        k = io[p]; p += 1
                        ids += io[p:p + k]; p += k
                    nc = io[p]; p += 1
                    if nc % 3: ok = False; why = 'coordinate count %d' % nc
                    for v in ids:
                        if type(v) is not int or not (0 <= v < nc // 3): ok = False; why = 'local id %r with %d points' % (v, nc // 3)
                    for x in r.dout[dpos:dpos + nc]:
                        if not (type(x) is float and 1000.0 <= x < 1000.0 + npos): ok = False; why = 'coordinate %r is not a value of the point array' % (x,)
                    dpos += nc
            except (IndexError, TypeError) as e:
                ok = False; why = 'output not parseable (%r)' % (e,)
        out['obs'].append((name + '/path ' + key + ('/returns meshes with in-range ids and existing points' if cls == 0 else '/ends in an exception derived from std::exception') + ', every access inside a live object',
                           'proved' if ok else 'violated', True, 0.0, {'why': why} if why else None))
        if not ok:
            stw, model = SV.satisfiable(z, pc, tmo_ms)
            out['reports'].append({'kind': 'bad-result', 'msg': why, 'where': '', 'model': {k: int(v) for k, v in (model or {}).items()}, 'sat': stw})
    out['queries'] = z.queries; out['solver_s'] = z.solver_time; out['wall'] = time.time() - t0
    return out

def main(chk):
    quick = chk.tier == 'quick'
    ir = build.build_ir(['h_reader.cpp'], sources=['src/io/mesh_reader.cpp'])
    nat = build.build_native(['h_reader.cpp'])
    native = api.Native(nat)
    tmo = 10000 if quick else 30000
    chk.trusted += ['clang -O1 lowering (validated per run)', 'irsym memory model (live regions, symbolic offsets and symbolically sized allocations decided by z3), libstdc++ container code executed from the IR, red-black tree helpers re-implemented in harness/shims.cpp',
                    'std::to_string of a symbolic integer yields "#" (diagnostic text is not examined)', 'valgrind memcheck as replay oracle only']
    chk.assumptions += ['list entries are what read_cell_faces can deliver: values of std::stoi on [0-9]+ tokens, 0 .. 2^31-1; lists may be empty (a line "0   " yields one)',
                        'operator new of more than 2^31 bytes throws std::bad_alloc; smaller requests succeed',
                        'the point array holds any number of doubles (get_node_pos only guarantees size/3 == declared count)']
    SH = shapes(quick)
    chk.bounds = {'cells': '1-2 (3 thorough)', 'entries per list': '0..%d, every entry symbolic' % (6 if quick else 7), 'points': '0, 1, 2, 4 (+1 stray coordinate); shapes: ' + ', '.join('%d pts x %r' % (a // 3, b) for a, b in SH),
                  'outside': 'regex/getline/stoi/strtod tokenisation, tinyxml2, get_cell_types, simulation_initializer cross-checks, triangulation of the accepted meshes, memory consumption of reserve() on huge declared counts'}

    # ---- translator validation: concrete lists, irsym vs native ---------------------------------------------------------------------
    import random
    rnd = random.Random(99 + chk.seed)
    sconc = api.Session(ir, mode='ieee')
    good = [3, 0, 1, 2, 3, 0, 1, 3, 3, 0, 2, 3, 3, 1, 2, 3]
    cases = [[12, 1, 17, 4] + good, [12, 2, 17, 17, 4] + good + [4] + good, [12, 1, 3, 1, 3, 0], [12, 1, 5, 1, 3, 0, 1, 2], [12, 1, 5, 2, 3, 0, 1, 2], [12, 1, 6, 1, 4, 0, 1, 2, 3], [12, 1, 1, 0], [12, 1, 1, 5]]
    for k in range(40 if quick else 120):
        n = rnd.randrange(1, 9)
        cases.append([12, 1, n] + [rnd.choice([0, 1, 2, 3, 3, 1, 2]) for _ in range(n)])
    mism = 0
    for c in cases:
        r = sconc.run(ENTRY, [], c); q = native.call(ENTRY, [], c)
        if r.status == 'memory' and q.get('status') in ('crash', 0):
            continue    # concrete inputs that already trip the memory model are replayed below, not compared
        if r.status != 'ok' or q.get('status') != 0 or r.iout != q['i'] or len(r.dout) != len(q['d']) or not all(api.same_double(a, b) for a, b in zip(r.dout, q['d'])):
            mism += 1; chk.note('validation mismatch on %r: %r %r / %r' % (c, r.status, r.iout[:6], q))
    chk.validation = {'programs': 1, 'inputs': len(cases), 'mismatches': mism}
    chk.functions |= sconc.functions_called

    # ---- symbolic exploration ------------------------------------------------------------------------------------------------------
    outs = par.pmap(lambda i: run_shape(ir, SH[i][0], SH[i][1], tmo, 4000 if quick else 16000), len(SH), procs=14)
    seen = set()
    for o in outs:
        chk.paths += o['paths']; chk.queries += o['queries']; chk.solver_s += o['solver_s']; chk.witnesses += o['witness']
        chk.functions |= set(o['functions'])
        for m in o['fail']: chk.fail_closed.append(m)
        for (name, status, core, t, detail) in o['obs']: chk.ob(name, status, core, t, detail)
        chk.log('%s: %d paths in %.1fs, outcomes %r, %d memory reports' % (o['name'], o['paths'], o['wall'], o['classes'], len(o['reports'])))
        if len(chk.samples) < 10: chk.samples.append({'shape': o['name'], 'paths': o['paths'], 'outcomes (0 returned, 1 mesh_reader_exception, 2 other std::exception)': o['classes']})
        for rep in o['reports']:
            site = site_of(rep['where']) if rep['where'] else 'mesh_reader::get_cell_mesh'
            ident = (rep['kind'], site, rep['msg'][:60])
            if ident in seen: continue
            seen.add(ident)
            iin = concrete_of(rep['model'], o['npos'], o['lens'])
            vg = valgrind_replay(nat, ENTRY, [], iin)
            q = native.call(ENTRY, [], iin)
            crashed = q.get('status') in ('crash', 'timeout')
            confirmed = crashed or 'invalid-access' in vg.get('kinds', []) or (rep['kind'] in ('escape', 'bad-result') and q.get('status') == 0)
            detail = {'input': {'doubles in the point array': o['npos'], 'lists': split_lists(iin)}, 'report': rep['msg'], 'where': rep['where'], 'valgrind': vg, 'native': q if not crashed else {'status': q.get('status'), 'rc': q.get('rc')},
                      'how': 'harness h_c17_cell_mesh (/verif/harness/h_reader.cpp): mesh_reader::get_cell_mesh(node_pos, lists)'}
            if confirmed:
                what = classify(rep, iin, o)
                chk.violation('C17/%s/%s' % (rep['kind'], what), '%s: %s; lists %r with %d points; native %s, valgrind: %s' % (what, rep['msg'], split_lists(iin), o['npos'] // 3, 'crashed (signal %s)' % (-q.get('rc', 0)) if crashed else 'returned', vg.get('first') or vg.get('what')), detail)
            else:
                chk.fail_closed.append('memory report not confirmed natively: %s %r' % (rep['msg'], split_lists(iin)))
    native.close()
    empty_elements_part(chk, quick)
    initializer_part(chk, quick)
    chk.finish(level='other', explanation=(
        'mesh_reader::get_cell_mesh runs from the IR on connectivity lists whose entries are all symbolic (0..2^31-1), for every list length up to the bound; z3 decides path feasibility, whether a symbolic offset can leave its object, '
        'and whether accesses fit allocations of symbolic size. Every path must end in a return with in-range local ids and copied existing points or in an exception derived from std::exception, without any access outside a live object. '
        'Memory reports are replayed natively under valgrind at the solver model.'))

def empty_elements_part(chk, quick):
    """parameter file with one empty element <tag></tag> (tinyxml2: GetText() == nullptr), every tag in turn, numeric contents symbolic: the
    reader must end in an exception derived from std::exception (or accept), never in std::terminate / a crash"""
    from checks import c18
    ir = build.build_ir(['h_params.cpp'], extra_flags=['-fno-pic'])
    nat = build.build_native(['h_params.cpp'])
    native = api.Native(nat)
    shapes = [(1, [1])] if quick else [(1, [1]), (2, [2, 1])]
    jobs = []
    for (nct, nfts) in shapes:
        sc0 = c18.Scenario('x', nct, nfts)
        for (slot, kd) in sc0.used_slots():
            jobs.append((nct, nfts, slot))
    def work(i):
        nct, nfts, slot = jobs[i]
        sc = c18.Scenario('empty element %s in a %dx%r file' % (c18.slot_name(slot), nct, nfts), nct, nfts, omitted=-100 - slot)
        z = SV.Z3Ctx()
        used = sc.used_slots()
        pre = [c18.fits_int(c18.IV[s_]) for (s_, kd) in used if kd == 'i']
        sess = api.Session(ir, mode='real')
        ctl, res = sess.explore('h_c18_read', list(c18.D), sc.control() + list(c18.IV), assumptions=pre, zctx=z, max_paths=300, branch_timeout_ms=10000)
        out = {'name': sc.name, 'obs': [], 'bad': [], 'fail': [], 'paths': ctl.paths_done, 'functions': sorted(sess.functions_called), 'queries': z.queries, 'solver_s': z.solver_time, 'control': sc.control()}
        if not ctl.exhausted: out['fail'].append(sc.name + ': path budget exhausted')
        for (tr, pc, r) in res:
            st = getattr(r, 'status', None)
            if st == 'pathend': continue
            key = 'P ' + sc.name + '/path ' + (''.join('T' if d.taken else 'F' for d in tr if not d.forced)[-20:] or '-')
            if st == 'ok' and len(r.iout) >= 2 and r.iout[1] in (0, 1, 2):
                out['obs'].append((key + '/ends in acceptance or an exception derived from std::exception', 'proved'))
                continue
            stw, m = SV.satisfiable(z, pc, 10000)
            if stw == 'unsat': continue
            what = 'std::terminate' if (st == 'memory' and r.error[0] == 'terminate') else ('%s %r' % (st, getattr(r, 'error', None)))[:200]
            out['obs'].append((key + '/ends in acceptance or an exception derived from std::exception', 'violated'))
            out['bad'].append({'what': what, 'where': r.error[2] if st == 'memory' else '', 'model': {k: (float(v) if k[0] == 'd' else int(v)) for k, v in (m or {}).items()}})
        return out
    outs = par.pmap(work, len(jobs), procs=14)
    seen = set()
    for (nct, nfts, slot), o in zip(jobs, outs):
        chk.paths += o['paths']; chk.queries += o['queries']; chk.solver_s += o['solver_s']; chk.functions |= set(o['functions'])
        for m_ in o['fail']: chk.fail_closed.append(m_)
        for (name, status) in o['obs']: chk.ob(name, status, True, 0)
        for b in o['bad'][:1]:
            sc = c18.Scenario('x', nct, nfts, omitted=-100 - slot)
            din, iin = c18.concrete_inputs(sc, b['model'])
            iin[7] = 5
            q = native.call('h_c18_read', din, iin)
            crashed = q.get('status') in ('crash', 'timeout')
            kind = c18.NUM_KIND[slot] if slot < 16 else (c18.CELL_KIND[(slot - 16) % 64] if (slot - 16) % 64 < 16 else c18.FACE_KIND[((slot - 16) % 64 - 16) % 8])
            ident = ('empty', kind)
            rep = {'file': 'parameter file with %d cell type(s), face types %r, element <%s></%s> empty' % (nct, nfts, c18.slot_name(slot), c18.slot_name(slot)), 'control': iin[:8], 'report': b['what'], 'where': b['where'],
                   'native': {'status': q.get('status'), 'rc': q.get('rc')}, 'how': 'harness h_c18_read (/verif/harness/h_params.cpp), native build: writes the XML file and reads it with the real parameter_reader + tinyxml2'}
            if crashed:
                if ident not in seen:
                    seen.add(ident)
                    chk.violation('C17/terminate/empty XML element (%s-valued tag)' % {'d': 'number', 'i': 'integer', 's': 'text'}[kind],
                                  'empty element <%s></%s>: %s in %s; native run killed by signal %s' % (c18.slot_name(slot), c18.slot_name(slot), b['what'], site_of(b['where']) if b['where'] else 'parameter_reader', -q.get('rc', 0) if q.get('rc') else '?'), rep)
            else:
                chk.fail_closed.append('empty element %s: %s reported symbolically, native run returned %r' % (c18.slot_name(slot), b['what'], q.get('i', [])[:2]))
    native.close()

def initializer_part(chk, quick):
    """cross-checks of simulation_initializer::run (cell count vs number of type ids, type id range, at least one face type per cell type) with the
    file-level pieces replaced by stand-ins and the type ids of the mesh file symbolic (every value std::stoi can deliver): the constructor
    either completes with every cell created from a cell type of the parameter list, or throws an exception derived from std::exception;
    no access outside an object"""
    import subprocess
    ir = build.build_ir(['h_init.cpp'])
    mod = api.load_module(ir)
    names = list(mod.funcs)
    dem = subprocess.run(['c++filt'], input='\n'.join(names), capture_output=True, text=True).stdout.split('\n')
    def syms(prefix): return [n for n, d in zip(names, dem) if d.startswith(prefix)]
    def one(prefix):
        h = syms(prefix)
        if len(h) != 1: raise RuntimeError('symbol for %r: %r' % (prefix, h))
        return h[0]
    ov = {}
    for real, stub in (('mesh_reader::read(', 'k5_read('), ('mesh_reader::get_cell_types(', 'k5_get_cell_types('), ('simulation_initializer::triangulate_surface(', 'k5_triangulate_surface(')):
        s_ = one(stub)
        for r_ in syms(real): ov[r_] = (lambda it, a, s_=s_: it.call_function(s_, a))
    ctor_names = syms('mesh_reader::mesh_reader(std::__cxx11::basic_string')
    for n in ctor_names + ['_ZN11mesh_readerC1ERKNSt7__cxx1112basic_stringIcSt11char_traitsIcESaIcEEEb', '_ZN11mesh_readerC2ERKNSt7__cxx1112basic_stringIcSt11char_traitsIcESaIcEEEb']:
        ov[n] = (lambda it, a: it.str_init(a[0], b''))
    ov.update(envstubs.opaque_to_string())
    IMAXv = 2 ** 31 - 1
    jobs = []
    for ncells in (1, 2):
        for ntypes in (1, 2, 3):
            jobs.append((ncells, ncells, ntypes, [1, 1, 1, 1]))
    jobs += [(2, 1, 2, [1, 1, 1, 1]), (1, 2, 2, [1, 1, 1, 1]), (2, 2, 2, [1, 0, 1, 1]), (1, 1, 0, [1, 1, 1, 1])]
    def work(i):
        ncells, nids, ntypes, nfts = jobs[i]
        z = SV.Z3Ctx()
        TY = [S.ivar('ty%d' % k, 64, 0, IMAXv) for k in range(4)]
        def setup(it): it.format_witness = True
        sess = api.Session(ir, mode='real', overrides=ov, setup=setup)
        ctl, res = sess.explore('h_c17_init', [], [ncells, nids, ntypes] + nfts + TY, zctx=z, max_paths=600, branch_timeout_ms=10000, symbolic_alloc=True)
        name = 'I initializer cross-checks/%d cell(s) in the mesh, %d type id(s) in the file, %d cell type(s) with %r face types' % (ncells, nids, ntypes, nfts[:ntypes])
        out = {'name': name, 'obs': [], 'bad': [], 'fail': [], 'paths': ctl.paths_done, 'functions': sorted(sess.functions_called), 'queries': z.queries, 'solver_s': z.solver_time, 'iin': [ncells, nids, ntypes] + nfts}
        if not ctl.exhausted: out['fail'].append(name + ': path budget exhausted')
        for (tr, pc, r) in res:
            st = getattr(r, 'status', None)
            if st == 'pathend': continue
            key = name + '/path ' + (''.join(('T' if d.taken else 'F') if d.kind != 'v' else 'v' for d in tr if not d.forced)[-20:] or '-')
            stw, m = SV.satisfiable(z, pc, 10000)
            if stw == 'unsat': continue
            model = {k: int(v) for k, v in (m or {}).items()}
            if st == 'ok':
                cls, ncreated, ngiven = r.iout[0], r.iout[1], r.iout[2]
                given = r.iout[3:3 + ngiven] if type(ngiven) is int else []
                good = cls in (1, 2) or (cls == 0 and ncreated == ncells and all(type(g) is int and 100 <= g < 100 + ntypes for g in given) and len(given) == ncells)
                out['obs'].append((key + '/completes with every cell built from a cell type of the parameter list, or throws an exception derived from std::exception', 'proved' if good else 'violated'))
                if not good: out['bad'].append({'what': 'start-up completed with class %r, %r cells, cell types handed to the cells: %r' % (cls, ncreated, given), 'where': '', 'model': model})
            elif st == 'memory':
                out['obs'].append((key + '/every access inside a live object', 'violated'))
                out['bad'].append({'what': '%s: %s' % (r.error[0], r.error[1]), 'where': r.error[2], 'model': model})
            elif st == 'exception':
                out['obs'].append((key + '/only std exceptions', 'violated'))
                out['bad'].append({'what': 'exception %s escapes' % getattr(r, 'exception', '?'), 'where': '', 'model': model})
            else:
                out['fail'].append('%s: path ended with %s %r' % (name, st, getattr(r, 'error', None)))
        return out
    outs = par.pmap(work, len(jobs), procs=10)
    nat_asan = None
    seen = set()
    for job, o in zip(jobs, outs):
        chk.paths += o['paths']; chk.queries += o['queries']; chk.solver_s += o['solver_s']; chk.functions |= set(o['functions'])
        for m_ in o['fail']: chk.fail_closed.append(m_)
        for (name, status) in o['obs']: chk.ob(name, status, True, 0)
        for b in o['bad'][:2]:
            ident = b['what'][:40]
            if ident in seen: continue
            iin = o['iin'] + [b['model'].get('ty%d' % k, 0) for k in range(4)]
            # native replay of the real start-up code needs real files; the stand-ins exist only in the IR build. The replay therefore runs the
            # same comparison natively on a two-line extract: see replay_init_native
            rep = replay_init_native(iin)
            rep.update(report=b['what'], where=b['where'], iin=iin)
            if rep.get('confirmed'):
                seen.add(ident)
                chk.violation('C17/initializer/cell type id outside the parameter list is used', 'cell type ids %r with %d cell type(s): %s; native: %s' % (iin[7:7 + iin[1]], iin[2], b['what'], rep['what']), rep)
            else:
                chk.fail_closed.append('%s: %s reported symbolically, native replay: %s' % (o['name'], b['what'], rep.get('what')))

def replay_init_native(iin):
    nat = build.build_native(['h_init.cpp'])
    native = api.Native(nat)
    q = native.call('h_c17_init', [], iin)
    native.close()
    ntypes = iin[2]
    if q.get('status') in ('crash', 'timeout'):
        return {'confirmed': True, 'what': 'the native start-up (real mesh file, real reader) was killed by signal %s' % (-q.get('rc', 0) if q.get('rc') else '?')}
    if q.get('status') != 0 or len(q['i']) < 3: return {'confirmed': False, 'what': 'native run failed: %r' % (q.get('status'),)}
    cls, ncreated, ngiven = q['i'][0], q['i'][1], q['i'][2]
    given = q['i'][3:3 + ngiven]
    if cls == 0 and not all(100 <= g < 100 + ntypes for g in given):
        return {'confirmed': True, 'what': 'native start-up completed and created cells from cell types %r that are not in the parameter list (tags 100..%d)' % (given, 99 + ntypes)}
    if cls == 3: return {'confirmed': True, 'what': 'an exception that is not derived from std::exception left the native start-up'}
    return {'confirmed': False, 'what': 'native start-up: class %d, %d cells, types %r' % (cls, ncreated, given)}

def split_lists(iin):
    nc = iin[1]; lens = iin[2:2 + nc]; p = 2 + nc; out = []
    for n in lens:
        out.append(iin[p:p + n]); p += n
    return out

def classify(rep, iin, o):
    """stable name of the failing input class (key of the finding)"""
    lists = split_lists(iin)
    if any(len(l) == 0 for l in lists) and ('0x0' in rep['msg'] or 'invalid-pointer' == rep['kind'] or 'size 0' in rep['msg'] or 'new(0)' in rep['msg']):
        return 'empty connectivity list is indexed'
    if 'node_pos' in rep['msg'] or 'h_c17_cell_mesh' in rep['msg']:
        return 'face refers to a point that does not exist'
    return site_of(rep['where']) if rep['where'] else 'get_cell_mesh'

if __name__ == '__main__':
    run_check('C17', main)
