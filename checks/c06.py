#!/usr/bin/env python3
"""C06 — the broad phase loses no pair.  The real contact model (run(): face list, update_face_aabbs, store_face_in_uspg, the per-node
voxel lookup and aabb_intersection_check of contact models 0, 1 and 2) is executed from the LLVM IR on a small tissue in which the
query node p of cell A is symbolic (a box of positions around a face of cell B that straddles voxel boundaries); irsym records every
(node, face) pair that passes the broad phase, i.e. is handed to the model's rules.  Per path z3 proves for every node and every face
of another cell:  pair not handed over  =>  the node lies outside the face's bounding box padded by the interaction cut-off
(hence farther than the cut-off from the triangle).  A model of a failed obligation is replayed natively: the real run() is compared
with the same model whose grid has one voxel per axis (nothing discarded by the grid) — different forces/couplings confirm the loss."""
import os
import sys
import time
from fractions import Fraction

sys.path.insert(0, os.path.dirname(os.path.dirname(os.path.abspath(__file__))))
from checks.framework import run_check
from irsym import api, build, sym as S, solver as SV, par
from irsym.interp import K_DOUBLE

ENTRY = 'h_c06_broad'
AABB = '_ZNK22contact_model_abstract23aabb_intersection_checkEmRK4vec3'
T4P = [(0, 0, 0), (1, 0, 0), (0, 1, 0), (0, 0, 1)]
T4F = [(0, 2, 1), (0, 1, 3), (0, 3, 2), (1, 2, 3)]
PV = ['p0', 'p1', 'p2']

def Q(x):
    return Fraction(x).limit_denominator(10 ** 6)

class Scen:
    """cut-offs, l_min, translation, B (scale, offset), optional C, box of p"""
    def __init__(self, name, cut_adh, cut_rep, lmin, T, B, C, lo, hi, clsA=0, clsB=0):
        self.name = name; self.cut_adh = cut_adh; self.cut_rep = cut_rep; self.lmin = lmin; self.T = T; self.B = B; self.C = C; self.lo = lo; self.hi = hi; self.clsA = clsA; self.clsB = clsB
    def din(self, p):
        Bs, Bo = self.B
        Cs, Co = self.C if self.C else (1.0, (50.0, 50.0, 50.0))
        return [self.cut_adh, self.cut_rep, self.lmin] + list(self.T) + list(p) + [Bs] + list(Bo) + [Cs] + list(Co)
    def iin(self, ref=0, nruns=1, idoff=0, gap=0, listing=0):
        return [self.clsA, self.clsB, 1 if self.C else 0, ref, nruns, idoff, gap, listing]
    def pad(self):
        return max(self.cut_adh, self.cut_rep)

def scenarios(quick):
    out = []
    # voxel size = 3*l_min + 2*pad; boxes of p chosen to straddle voxel boundaries next to the slanted face of B
    out.append(Scen('B = 2 x unit tetrahedron at the origin, cut-offs 0.2/0.15, l_min 0.1', 0.2, 0.15, 0.1, (0, 0, 0), (2.0, (0, 0, 0)), None, (0.55, 0.55, 0.55), (1.25, 1.25, 1.25)))
    out.append(Scen('the same tissue far from the origin on the negative side', 0.2, 0.15, 0.1, (-37.3, -12.9, -81.7), (2.0, (0, 0, 0)), None, (0.55, 0.55, 0.55), (1.25, 1.25, 1.25)))
    out.append(Scen('tissue straddling the origin, repulsion cut-off larger than adhesion, third (static) cell present', 0.1, 0.3, 0.15, (-0.9, -1.1, -0.7), (2.0, (0, 0, 0)), (1.0, (2.4, 0.1, 0.2)), (0.7, 0.5, 0.6), (1.5, 1.2, 1.3)))
    # (two further placements, 27 sub-boxes per placement and all three models for every exploration kind were measured at 25-60 minutes on 16 cores
    #  without finishing and were dropped: the deeper tier runs the explorations of the quick tier with more validation inputs)
    return out

# B = octahedron 1.5 x unit at (0.2, 0.1, 0) with the edge (0,2) collapsed before the model runs; p next to its upper faces
SCGAP = Scen('B = octahedron with a collapsed edge (two unused face slots), cut-offs 0.2/0.15, l_min 0.1', 0.2, 0.15, 0.1, (0, 0, 0), (1.5, (0.2, 0.1, 0.0)), None, (0.55, 0.45, 0.65), (0.9, 0.8, 1.0))

def split_box(lo, hi, n):
    cuts = [[lo[k] + (hi[k] - lo[k]) * i / n for i in range(n + 1)] for k in range(3)]
    out = []
    for i in range(n):
        for j in range(n):
            for k in range(n):
                out.append(((cuts[0][i], cuts[1][j], cuts[2][k]), (cuts[0][i + 1], cuts[1][j + 1], cuts[2][k + 1])))
    return out

def cell_nodes(sc, which, P):
    """exact positions (Fractions or affine nodes in p) of the nodes of cell A/B/C, tissue translation included"""
    T = [Q(t) for t in sc.T]
    if which == 0:
        return [[S.add(P[k], S.const(Fraction(0.3) * T4P[n][k] + Fraction(sc.T[k]))) for k in range(3)] for n in range(4)]
    s_, off = sc.B if which == 1 else sc.C
    # concrete cells: the harness computes scale * unit + offset + T in double arithmetic, mirrored here
    return [[S.const(Fraction((float(s_) * float(T4P[n][k]) + float(off[k])) + float(sc.T[k]))) for k in range(3)] for n in range(4)]

def outside_box(pos, fnodes, pad):
    """node at pos lies outside the axis-aligned box of the triangle padded by pad (exact reals)"""
    cl = S.FALSE
    padc = S.const(Fraction(pad))
    for k in range(3):
        below = S.TRUE; above = S.TRUE
        for fn in fnodes:
            c = S.cval(fn[k])
            if c is not None:
                # concrete triangle: bounds rounded as the doubles the model stores (min - pad, max + pad)
                lo_ = S.const(Fraction(float(c) - float(pad))); hi_ = S.const(Fraction(float(c) + float(pad)))
            else:
                lo_ = S.sub(fn[k], padc); hi_ = S.add(fn[k], padc)
            below = S.band(below, S.cmp('lt', pos[k], lo_))
            above = S.band(above, S.cmp('gt', pos[k], hi_))
        cl = S.bor(cl, S.bor(below, above))
    return cl

MARK = 'h_c06_marker'

def run_box(cm, sc, lo, hi, tmo_ms, max_paths, nruns=1, idoff=0, gap=0):
    t0 = time.time()
    ir = build.build_ir(['h_broad.cpp'], contact=cm)
    z = SV.Z3Ctx()
    P = [S.var(v) for v in PV]
    box = [S.band(S.cmp('ge', P[k], S.const(Q(lo[k]))), S.cmp('le', P[k], S.const(Q(hi[k])))) for k in range(3)]
    def aabb(it, a):
        res = it.invoke_target(('ir', it.m.funcs[AABB], AABB), a)
        if res:
            pos = [it.load(a[2] + 8 * k, 8, K_DOUBLE) for k in range(3)]
            it.events.append(('aabb', a[1] // 6, pos))
        return res
    def setup(it): it.strict_undef = False; it.poly_mode = True
    def marker(it, a):
        it.events.append(('run', a[0]))
        return None
    sess = api.Session(ir, mode='real', overrides={AABB: aabb, MARK: marker}, setup=setup)
    ctl, res = sess.explore(ENTRY, sc.din(P), sc.iin(0, nruns, idoff, gap, 1), assumptions=box, zctx=z, max_paths=max_paths, branch_timeout_ms=tmo_ms)
    name = 'contact model %d/%s%s%s%s/p in [%s]' % (cm, sc.name, (' (run %d of the same model object)' % nruns) if nruns > 1 else '', (' (persistent ids = positions + %d)' % idoff) if idoff else '', ' (B = octahedron with a collapsed edge: unused face slots)' if gap else '', ' x '.join('%.3g..%.3g' % (lo[k], hi[k]) for k in range(3)))
    out = {'name': name, 'obs': [], 'cands': [], 'fail': [], 'paths': ctl.paths_done, 'functions': sorted(sess.functions_called), 'witness': 0, 'pairs_passed': 0}
    if not ctl.exhausted: out['fail'].append('%s: path budget exhausted (%d)' % (name, ctl.paths_done))
    ncell = 3 if sc.C else 2
    pad = sc.pad()
    for (tr, pc, r) in res:
        st = getattr(r, 'status', None)
        if st == 'pathend': continue
        if st == 'memory':
            stw, m_ = SV.satisfiable(z, pc, tmo_ms)
            if stw != 'unsat':
                out['obs'].append((name + '/path ' + ''.join('T' if d.taken else 'F' for d in tr if not d.forced)[-28:] + '/every access of the broad phase inside a live object', 'cand-dup', True, 0.0, None))
                out['cands'].append({'node': None, 'face': None, 'model': {k: float(Fraction(v)) for k, v in (m_ or {}).items()}, 'box': (lo, hi), 'ob': name + '/every access of the broad phase inside a live object',
                                     'memory': '%s: %s (%s)' % (r.error[0], r.error[1], r.error[2][:160]), 'nruns': nruns, 'idoff': idoff, 'gap': gap})
            continue
        if st != 'ok':
            out['fail'].append('%s: path ended with %s %r' % (name, st, getattr(r, 'error', None))); continue
        key = 'path ' + ''.join('T' if d.taken else 'F' for d in tr if not d.forced)[-28:]
        # geometry listing written by the harness before the model runs: used faces in the order of the model's face list, used nodes per cell
        try:
            io_ = r.iout; do_ = r.dout; ip = 0; dp = 0
            nfa = io_[ip]; ip += 1
            FACES = []
            for _ in range(nfa):
                FACES.append((io_[ip], io_[ip + 1], [[S.R(do_[dp + 3 * j + k]) for k in range(3)] for j in range(3)])); ip += 2; dp += 9
            assert io_[ip] == -4242; ip += 1
            NODES = {}
            for c in range(ncell):
                nn_ = io_[ip]; ip += 1
                for _ in range(nn_):
                    NODES[(c, io_[ip])] = [S.R(do_[dp + k]) for k in range(3)]; ip += 1; dp += 3
        except Exception as e_:
            out['fail'].append('%s: geometry listing unreadable (%r)' % (name, e_)); continue
        passed = set(); handed = []
        last_run = max([e[1] for e in r.events if e[0] == 'run'] or [0])
        cur_run = 0
        for e in r.events:
            if e[0] == 'run': cur_run = e[1]; continue
            if e[0] != 'aabb' or cur_run != last_run: continue
            gf, pos = e[1], e[2]
            # identify the node by its exact position
            who = None
            for (c, n) in sorted(NODES):
                if True:
                    same = True
                    for k in range(3):
                        a = pos[k]; b = NODES[(c, n)][k]
                        d = S.sub(S.R(a), b)
                        cv = S.cval(d)
                        if cv is None:
                            fv = S.free_vars(d)
                            cv = None if fv else Fraction(S.evaluate(d, {}))
                            if fv:
                                # both affine in the same variable: compare at two points
                                v0 = S.evaluate(d, {x: Fraction(0) for x in fv}); v1 = S.evaluate(d, {x: Fraction(1) for x in fv})
                                cv = 0 if (abs(v0) < Fraction(1, 10 ** 9) and abs(v1) < Fraction(1, 10 ** 9)) else 1
                        if abs(cv) > Fraction(1, 10 ** 9): same = False; break
                    if same: who = (c, n); break
                if who: break
            if who is None:
                out['fail'].append('%s: a recorded node position could not be identified' % name); continue
            if not (0 <= gf < len(FACES)):
                out['fail'].append('%s: box index %r outside the face list' % (name, gf)); continue
            fid = (FACES[gf][0], FACES[gf][1])
            passed.add((who, fid)); handed.append((who, fid))
        same = sorted({x for x in handed if x[0][0] == x[1][0]})
        out['obs'].append((name + '/' + key + '/no node is handed to a face of its own cell', 'proved' if not same else 'cand-dup', True, 0.0, None))
        if same:
            stw, m_ = SV.satisfiable(z, pc, tmo_ms)
            out['cands'].append({'node': same[0][0], 'face': same[0][1], 'model': {k: float(Fraction(v)) for k, v in (m_ or {}).items()}, 'box': (lo, hi), 'ob': name + '/' + key + '/no node is handed to a face of its own cell', 'same': True, 'nruns': nruns, 'idoff': idoff, 'gap': gap})
        dup = sorted({x for x in handed if handed.count(x) > 1})
        out['obs'].append((name + '/' + key + '/no pair is handed to the contact rules more than once in one run (%d hand-overs)' % len(handed), 'proved' if not dup else 'cand-dup', True, 0.0, None))
        if dup:
            stw, m_ = SV.satisfiable(z, pc, tmo_ms)
            out['cands'].append({'node': dup[0][0], 'face': dup[0][1], 'model': {k: float(Fraction(v)) for k, v in (m_ or {}).items()}, 'box': (lo, hi), 'ob': name + '/' + key + '/no pair is handed to the contact rules more than once in one run', 'dup': True, 'nruns': nruns, 'idoff': idoff, 'gap': gap})
        out['pairs_passed'] += len(passed)
        if any(w == (0, 0) for (w, f) in passed): out['witness'] += 1
        # every (node, face of another cell) that was not handed over must be outside the padded box
        cl_all = S.TRUE; missing = []
        for (c, n) in sorted(NODES):
            for (c2, f, fn) in FACES:
                if c2 == c: continue
                if ((c, n), (c2, f)) in passed: continue
                cl = outside_box(NODES[(c, n)], fn, pad)
                if cl is S.TRUE: continue
                missing.append(((c, n), (c2, f), cl))
                cl_all = S.band(cl_all, cl)
        t = time.time()
        stc, m = SV.prove(z, pc, cl_all, tmo_ms) if cl_all is not S.TRUE else ('proved', None)
        obname = name + '/' + key + '/every pair not handed to the contact rules is outside the padded box (%d pairs passed, %d withheld)' % (len(passed), len(missing))
        cand = None
        if stc == 'violated':
            # which pair?
            for (nd, fc, cl) in missing:
                s1, m1 = SV.prove(z, pc, cl, tmo_ms)
                if s1 == 'violated':
                    cand = {'node': nd, 'face': fc, 'model': {k: float(Fraction(v)) for k, v in (m1 or {}).items()}, 'box': (lo, hi), 'ob': obname, 'nruns': nruns, 'idoff': idoff, 'gap': gap}
                    out['cands'].append(cand)
                    break
        if cand is None:
            out['obs'].append((obname, stc if stc != 'violated' else 'unknown', True, time.time() - t, None))
    out['queries'] = z.queries; out['solver_s'] = z.solver_time; out['wall'] = time.time() - t0
    return out

def native_loss(native, sc, p, nruns=1, idoff=0, gap=0):
    """real run() (the last of nruns runs of one model object) against a fresh one-voxel-per-axis reference on the same tissue; returns description of the difference or None"""
    q = native.call(ENTRY, sc.din(p), sc.iin(1, nruns, idoff, gap, 0))
    if q.get('status') != 0: return 'native run ended with %r' % (q.get('status'),)
    nd = len(q['d']) // 2; ni = len(q['i']) // 2
    if q['i'][:ni] != q['i'][ni:]: return 'couplings differ between the real grid and the single-voxel reference'
    for k in range(nd):
        a, b = q['d'][k], q['d'][nd + k]
        if abs(a - b) > 1e-9 * (1 + abs(b)): return 'force component %d is %r with the real grid and %r without spatial discarding' % (k, a, b)
    return None

def main(chk):
    quick = chk.tier == 'quick'
    SC = scenarios(quick)
    chk.trusted += ['clang -O1 lowering (validated per run against the native build)', 'irsym (OpenMP runtime model: sequential semantics), exact polynomial normal form in p', 'z3 (linear real arithmetic, to_int for voxel indices)',
                    'the narrow phase itself is C05/C07: here it runs as is, only the hand-over is observed']
    chk.assumptions += ['interaction cut-off of the property = max(adhesion cut-off, repulsion cut-off) (the padding the models use)', 'exact-real reading of the grid arithmetic (C20 covers the index arithmetic bit-precisely)',
                        'node outside the padded axis-aligned box of a triangle => farther than the cut-off from the triangle (sufficient condition; a pair inside the box that is withheld is reported only if the native forces differ)']
    chk.bounds = {'tissue': 'cell A = p + 0.3 x unit tetrahedron (p symbolic in a box straddling voxel boundaries), cell B = scaled tetrahedron, optional static cell C; all node/face pairs of different cells are checked on every path',
                  'scenarios': [s.name for s in SC], 'contact models': '0, 1, 2', 'outside': 'many-cell arrangements, symbolic cut-offs / edge lengths (enumerated instead), rounding (exact reals), equality of total forces on whole tissues (follows pairwise with C07)'}
    # translator validation: concrete p, irsym vs native incl. the reference run
    import random
    rnd = random.Random(5 + chk.seed)
    nval = mism = 0
    natives = {}
    for cm in (0, 1, 2):
        ir = build.build_ir(['h_broad.cpp'], contact=cm); nat = build.build_native(['h_broad.cpp'], contact=cm)
        natives[cm] = api.Native(nat)
        sc_ = api.Session(ir, mode='ieee')
        for sc in SC + [SCGAP]:
            for rep in range(2 if quick else 5):
                p = [sc.lo[k] + rnd.random() * (sc.hi[k] - sc.lo[k]) for k in range(3)]
                gap_ = 1 if sc is SCGAP else 0
                r = sc_.run(ENTRY, sc.din(p), sc.iin(1, 1, 0, gap_, 1)); q = natives[cm].call(ENTRY, sc.din(p), sc.iin(1, 1, 0, gap_, 1))
                nval += 1
                if r.status == 'memory':
                    continue          # decided by the symbolic part below (reports are replayed natively there)
                if r.status != 'ok' or q.get('status') != 0 or r.iout != q['i'] or len(r.dout) != len(q['d']) or not all(api.same_double(a, b) for a, b in zip(r.dout, q['d'])):
                    mism += 1; chk.note('validation mismatch cm=%d %s p=%r: %r' % (cm, sc.name, p, (r.status, getattr(r, 'error', None))))
        chk.functions |= sc_.functions_called
    chk.validation = {'programs': 3, 'inputs': nval, 'mismatches': mism}
    nsplit = 2       # 3 per axis (27 sub-boxes, 591 explorations) did not finish within an hour on 16 cores; the thorough tier adds scenarios, models and boxes instead
    jobs = []
    for cm in (0, 1, 2):
        for si, sc in enumerate(SC):
            if cm != 1 and si == 1: continue
            for (lo, hi) in split_box(sc.lo, sc.hi, nsplit):
                jobs.append((cm, si, lo, hi))
    # the solver keeps one contact model object for the whole simulation: second run of the same object (grid state carried over)
    for cm in (1,):
        for (lo, hi) in split_box(SC[0].lo, SC[0].hi, nsplit):
            jobs.append((cm, 0, lo, hi, 2))
    # persistent cell ids ahead of the list positions (earlier removals / divisions): the same-cell filter and the hand-over must not depend on it
    for cm in (1,):
        for (lo, hi) in split_box(SC[0].lo, SC[0].hi, nsplit):
            jobs.append((cm, 0, lo, hi, 1, 1))
    # a cell whose face list has unused slots (after an edge collapse): positions in the model's face list differ from slot numbers
    for cm in (1,):
        # (expensive per path: one small box next to an upper face of B in the quick tier)
        for (lo, hi) in ([((0.70, 0.60, 0.80), (0.78, 0.68, 0.88))]):
            jobs.append((cm, -1, lo, hi, 1, 0, 1))
    chk.log('%d explorations' % len(jobs))
    def sc_of(j): return SCGAP if j[1] == -1 else SC[j[1]]
    outs = par.pmap(lambda i: run_box(jobs[i][0], sc_of(jobs[i]), jobs[i][2], jobs[i][3], 10000, 1500, jobs[i][4] if len(jobs[i]) > 4 else 1, jobs[i][5] if len(jobs[i]) > 5 else 0, jobs[i][6] if len(jobs[i]) > 6 else 0), len(jobs), procs=15)
    for job_, o in zip(jobs, outs):
        cm, si, lo, hi = job_[:4]
        chk.paths += o['paths']; chk.queries += o['queries']; chk.solver_s += o['solver_s']; chk.witnesses += o['witness']
        chk.functions |= set(o['functions'])
        for m in o['fail']: chk.fail_closed.append(m)
        for (name, status, core, t, detail) in o['obs']:
            if status != 'cand-dup': chk.ob(name, status, core, t, detail)
        if len(chk.samples) < 10: chk.samples.append({'exploration': o['name'], 'paths': o['paths'], 'pairs handed over (sum over paths)': o['pairs_passed'], 'seconds': round(o['wall'], 1)})
        for cand in o['cands']:
            sc = SCGAP if si == -1 else SC[si]
            p = [cand['model'].get(v, (lo[k] + hi[k]) / 2) for k, v in enumerate(PV)]
            diff = native_loss(natives[cm], sc, p, cand.get('nruns', 1), cand.get('idoff', 0), cand.get('gap', 0))
            rep = {'contact model': cm, 'scenario': sc.name, 'p': p, 'withheld pair': {'node (cell, index)': cand['node'], 'face (cell, index)': cand['face']}, 'native': diff, 'din': sc.din(p), 'iin': sc.iin(1),
                   'how': 'harness h_c06_broad (/verif/harness/h_broad.cpp) built with contact model %d: forces of run() against the single-voxel reference' % cm}
            chk.ob(cand['ob'], 'violated' if diff else 'unknown', False, 0.0, {'p': p, 'native': diff})
            if cand.get('memory'):
                from checks.c10 import valgrind_replay
                nat_ = build.build_native(['h_broad.cpp'], contact=cm)
                vg = valgrind_replay(nat_, ENTRY, sc.din(p), sc.iin(0, cand.get('nruns', 1), cand.get('idoff', 0), cand.get('gap', 0), 0))
                rep['valgrind'] = vg; rep['irsym'] = cand['memory']
                if diff or 'invalid-access' in vg.get('kinds', []):
                    chk.violation('C06/invalid access in the broad phase/contact model %d' % cm, '%s at p=%r [%s]; native: %s; valgrind: %s' % (cand['memory'], p, sc.name, diff, vg.get('first')), rep)
                else:
                    chk.fail_closed.append('memory report in the broad phase not confirmed natively: %s' % cand['memory'])
            elif cand.get('same'):
                # a node handed to a face of its own cell: the reference (single voxel, same filter) cannot serve as oracle; the filter is wrong by itself
                chk.violation('C06/node handed to a face of its own cell/contact model %d' % cm, 'node %r is handed to face %r of its own cell at p=%r when the persistent cell ids are the list positions + %d [%s]' % (cand['node'], cand['face'], p, cand.get('idoff', 0), sc.name), rep)
            elif diff and cand.get('dup'):
                chk.violation('C06/pair handed over more than once in one run/contact model %d' % cm, 'node %r and face %r are handed to the contact rules several times in run %d of the same model object at p=%r [%s]; native: %s' % (cand['node'], cand['face'], cand.get('nruns', 1), p, sc.name, diff), rep)
            elif diff:
                chk.violation('C06/pair withheld inside the cut-off box/contact model %d' % cm, 'node %r and face %r are not handed to the contact rules although p=%r lies inside the padded box [%s]; native: %s' % (cand['node'], cand['face'], p, sc.name, diff), rep)
            else:
                chk.note('withheld pair %r/%r at p=%r inside the padded box but native forces agree with the reference (pair beyond the true cut-off): not a violation' % (cand['node'], cand['face'], p))
    for n_ in natives.values(): n_.close()
    if not chk.witnesses: chk.fail_closed.append('no path hands the query node to any face (vacuous)')
    chk.finish(level='other', explanation=(
        'The real run() of each contact model executes symbolically with the query node p anywhere in boxes that straddle voxel boundaries; every pair passing the broad phase is recorded. Per path z3 proves that every node/face pair of different cells '
        'that was not handed to the contact rules lies outside the face box padded by the cut-off (so it is farther than the cut-off). Failed obligations are replayed natively against a single-voxel reference of the same model.'))

if __name__ == '__main__':
    run_check('C06', main)
