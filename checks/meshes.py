"""Mesh catalogue (closed genus-0 triangulations, outward wound) and independent oracles written
from the property text only (they share no code with the repository)."""
import itertools
from fractions import Fraction
from irsym import sym as S

def _orient(faces, pts):
    """wind every face outward w.r.t. the centroid of the (convex) point set"""
    c = [sum(Fraction(p[k]) for p in pts) / len(pts) for k in range(3)]
    out = []
    for (a, b, d) in faces:
        A, B, D = [[Fraction(x) for x in pts[i]] for i in (a, b, d)]
        u = [B[k] - A[k] for k in range(3)]; v = [D[k] - A[k] for k in range(3)]
        n = [u[1] * v[2] - u[2] * v[1], u[2] * v[0] - u[0] * v[2], u[0] * v[1] - u[1] * v[0]]
        w = sum(n[k] * (A[k] - c[k]) for k in range(3))
        out.append((a, b, d) if w > 0 else (a, d, b))
    return out

def _mk(name, pts, faces):
    return {'name': name, 'pts': [tuple(float(x) for x in p) for p in pts], 'faces': _orient(faces, pts)}

T4 = _mk('T4', [(0, 0, 0), (1, 0, 0), (0, 1, 0), (0, 0, 1)], [(0, 1, 2), (0, 1, 3), (0, 2, 3), (1, 2, 3)])
# triangular bipyramid: equator 0,1,2 ; poles 3,4
T5 = _mk('T5', [(1, 0, 0), (-0.5, 0.8, 0), (-0.5, -0.8, 0), (0, 0, 1), (0, 0, -1)],
         [(0, 1, 3), (1, 2, 3), (2, 0, 3), (0, 1, 4), (1, 2, 4), (2, 0, 4)])
# octahedron
T6 = _mk('T6', [(1, 0, 0), (-1, 0, 0), (0, 1, 0), (0, -1, 0), (0, 0, 1), (0, 0, -1)],
         [(0, 2, 4), (2, 1, 4), (1, 3, 4), (3, 0, 4), (0, 2, 5), (2, 1, 5), (1, 3, 5), (3, 0, 5)])
# the other 6-vertex sphere: degree sequence 3,3,4,4,5,5 (T5 with one face subdivided... built by stacking)
T6b = _mk('T6b', [(1, 0, 0), (-0.5, 0.8, 0), (-0.5, -0.8, 0), (0, 0, 1), (0, 0, -1), (0.6, 0.5, 0.7)],
          [(1, 2, 3), (2, 0, 3), (0, 1, 4), (1, 2, 4), (2, 0, 4), (0, 1, 5), (1, 3, 5), (3, 0, 5)])
# pentagonal bipyramid
import math as _m
_p5 = [(_m.cos(2 * _m.pi * k / 5), _m.sin(2 * _m.pi * k / 5), 0) for k in range(5)]
T7 = _mk('T7', [tuple(round(x, 3) for x in p) for p in _p5] + [(0, 0, 1), (0, 0, -1)],
         [(k, (k + 1) % 5, 5) for k in range(5)] + [(k, (k + 1) % 5, 6) for k in range(5)])

CATALOGUE = {'T4': T4, 'T5': T5, 'T6': T6, 'T6b': T6b, 'T7': T7}

def iin_of(mesh, faces=None):
    faces = mesh['faces'] if faces is None else faces
    out = [len(mesh['pts']), len(faces)]
    for f in faces: out += list(f)
    return out

def sym_coords(mesh, prefix='x'):
    """one symbolic real per coordinate: [[x0_0,x0_1,x0_2], ...]"""
    return [[S.var('%s%d_%d' % (prefix, i, k)) for k in range(3)] for i in range(len(mesh['pts']))]

def flat(coords):
    return [c for p in coords for c in p]

# ---------------------------------------------------------------- oracles
def signed_volume6(coords, faces, origin=None):
    """6 x signed volume by the divergence theorem about `origin` (list of 3 Nodes or None)"""
    tot = S.ZERO
    for (a, b, c) in faces:
        A, B, C = coords[a], coords[b], coords[c]
        if origin is not None:
            A = S.vsub(A, origin); B = S.vsub(B, origin); C = S.vsub(C, origin)
        tot = S.add(tot, S.vdot(A, S.vcross(B, C)))
    return tot

def face_cross(coords, f):
    a, b, c = f
    return S.vcross(S.vsub(coords[b], coords[a]), S.vsub(coords[c], coords[a]))

def face_norm2(coords, f):
    n = face_cross(coords, f)
    return S.vdot(n, n)

def closed_manifold_report(faces, live_nodes=None):
    """independent topological oracle on a face list (list of 3-tuples of ints).
    returns list of problems (empty = closed, consistently oriented, genus 0 2-manifold)"""
    problems = []
    directed = {}
    for fi, f in enumerate(faces):
        if len(set(f)) != 3:
            problems.append('face %d repeats a node: %r' % (fi, f))
        for k in range(3):
            e = (f[k], f[(k + 1) % 3])
            directed.setdefault(e, []).append(fi)
    und = {}
    for (a, b), fl in directed.items():
        if len(fl) > 1:
            problems.append('directed edge %r used by faces %r (inconsistent orientation or duplicate face)' % ((a, b), fl))
        und.setdefault((min(a, b), max(a, b)), []).extend(fl)
    for e, fl in und.items():
        if len(fl) != 2:
            problems.append('edge %r shared by %d faces' % (e, len(fl)))
        elif (e[0], e[1]) not in directed or (e[1], e[0]) not in directed:
            problems.append('edge %r traversed twice in the same direction' % (e,))
    nodes = set(n for f in faces for n in f)
    if live_nodes is not None:
        if nodes - set(live_nodes):
            problems.append('faces reference non-live nodes %r' % sorted(nodes - set(live_nodes)))
        if set(live_nodes) - nodes:
            problems.append('live nodes not used by any face %r' % sorted(set(live_nodes) - nodes))
    V, E, F = len(nodes), len(und), len(faces)
    if V - E + F != 2:
        problems.append('Euler characteristic V-E+F = %d-%d+%d = %d' % (V, E, F, V - E + F))
    # connectedness
    if faces:
        adj = {}
        for e, fl in und.items():
            for x in fl:
                for y in fl:
                    if x != y: adj.setdefault(x, set()).add(y)
        seen = {0}; st = [0]
        while st:
            x = st.pop()
            for y in adj.get(x, ()):
                if y not in seen: seen.add(y); st.append(y)
        if len(seen) != len(faces):
            problems.append('surface is not connected')
    return problems

def undirected_edges(faces):
    out = {}
    for fi, f in enumerate(faces):
        for k in range(3):
            a, b = f[k], f[(k + 1) % 3]
            out.setdefault((min(a, b), max(a, b)), []).append(fi)
    return out
