#!/usr/bin/env python3
"""C07 — contact forces are reciprocal, short-ranged and correctly signed: the narrow phase of each contact model
(resolve_contact / apply_contact_forces) runs in irsym on one (node, face) pair with every position, normal,
curvature, cut-off and strength symbolic, for the enumerated pairs of cell types; the point-triangle kernel is
replaced by its contract (decided separately by C05).  z3 decides reciprocity, range, direction and mutual coupling
on every feasible path."""
import os
import random
import sys
import time
from fractions import Fraction

sys.path.insert(0, os.path.dirname(os.path.dirname(os.path.abspath(__file__))))
from checks.framework import run_check
from irsym import api, build, sym as S, solver as SV, par
from irsym.interp import K_DOUBLE

KERNEL = '_ZN22contact_model_abstract30compute_node_triangle_distanceERK4vec3S2_S2_S2_'
TYPES = ['epithelial', 'ecm', 'lumen', 'nucleus', 'static']
DN = (['n%d' % k for k in range(3)] + ['a%d' % k for k in range(3)] + ['b%d' % k for k in range(3)] + ['c%d' % k for k in range(3)] +
      ['cut_adh', 'cut_rep', 'lmin', 'k_adh', 'k_rep'] + ['nn%d' % k for k in range(3)] + ['na%d' % k for k in range(3)] + ['nb%d' % k for k in range(3)] + ['nc%d' % k for k in range(3)] +
      ['curv_n', 'curv_a', 'curv_b', 'curv_c', 'max_curv'])

def main(chk):
    quick = chk.tier == 'quick'
    models = [1] if quick else [1, 0, 2]
    pairs = [(0, 0), (0, 1), (3, 0), (1, 0), (2, 4)] if quick else [(a, b) for a in range(5) for b in range(5)]
    rng = random.Random(chk.seed + 51)
    chk.trusted += ['clang lowering validated per run per contact model', 'irsym + z3', 'the point-triangle kernel is replaced by its contract: u+v+w=1, u,v,w>=0, d2=|p-(ua+vb+wc)|^2 (the contract itself is the subject of C05)']
    chk.assumptions += ['cut-offs, l_min, strengths > 0; generic position; the two cut-offs differ (quick: adhesion > repulsion; thorough: both orders)', 'forces are examined for one (node, face) pair starting from zero force accumulators',
                        'every cell type defines the three face types (apical, lateral, basal) that the polarisation code can label a face with (a type with fewer is the open finding C08/face-type-index)']
    chk.bounds = {'contact models': models, 'cell type pairs (node cell, face cell)': [(TYPES[a], TYPES[b]) for a, b in pairs], 'pair': 'one node of cell 1 against one face of cell 2; all geometry of the pair symbolic',
                  'outside': 'accumulation over many pairs under threads (C15), broad phase (C06), same-cell filtering (done by the broad-phase loop)'}
    tasks = []
    nval = 0; mism = 0
    orders = [0] if quick else [0, 1]
    jobs = [(cm, p, o) for cm in models for p in pairs for o in orders]
    builds = {}
    for cm in models:
        ir = build.build_ir(['h_contact.cpp'], contact=cm); nat = build.build_native(['h_contact.cpp'], contact=cm)
        builds[cm] = (ir, nat)
        sc = api.Session(ir, mode='ieee'); native = api.Native(nat)
        for k in range(20 if quick else 60):
            din = rand_din(rng)
            iin = [rng.randrange(5), rng.randrange(5), rng.randrange(4), 0, 3, rng.randrange(2), 0]
            r = sc.run('h_c07_pair', din, iin); q = native.call('h_c07_pair', din, iin)
            nval += 1
            if r.status != 'ok' or r.iout != q['i'] or len(r.dout) != len(q['d']) or not all(api.same_double(a, b) for a, b in zip(r.dout, q['d'])):
                mism += 1; chk.note('validation mismatch cm%d %r: %r' % (cm, iin, (r.status, r.error)))
        chk.functions |= sc.functions_called
        native.close()
    chk.validation = {'programs': len(models), 'inputs': nval, 'mismatches': mism}

    def work(ji):
        cm, (t1, t2), order = jobs[ji]
        ir, nat = builds[cm]
        V = {n: S.var(n) for n in DN}
        din = [V[n] for n in DN]
        iin = [t1, t2, 1, 3, 3, 1, 0]
        calls = {}
        contracts = []
        def kernel_stub(it, args):
            sret, p, a, b, c = args[:5]
            vecs = [[it.load(x + 8 * k, 8, K_DOUBLE) for k in range(3)] for x in (p, a, b, c)]
            key = tuple(getattr(v, 'id', v) for vec in vecs for v in vec)
            if key not in calls:
                k = len(calls)
                u, v = S.var('ku_%d' % k), S.var('kv_%d' % k)
                w = S.sub(S.sub(S.ONE, u), v)        # contract: u + v + w = 1
                q = S.vadd(S.vadd(S.vscale([S.R(x) for x in vecs[1]], u), S.vscale([S.R(x) for x in vecs[2]], v)), S.vscale([S.R(x) for x in vecs[3]], w))
                r_ = S.vsub([S.R(x) for x in vecs[0]], q)
                d2 = S.vdot(r_, r_)                  # contract: d2 = |p - (u a + v b + w c)|^2
                contracts.extend([S.cmp('ge', u, S.ZERO), S.cmp('ge', v, S.ZERO), S.cmp('ge', w, S.ZERO)])
                calls[key] = (d2, u, v, w)
                for cst in contracts[-3:]:
                    it.pathctl.assume(cst)
            d2, u, v, w = calls[key]
            for off, val in ((0, d2), (8, u), (16, v), (24, w)):
                it.store(sret + off, 8, val)
            return None
        pre = [S.cmp('gt', V[n], S.ZERO) for n in ('cut_adh', 'cut_rep', 'lmin', 'k_adh', 'k_rep')]
        pre.append(S.cmp('gt', V['cut_adh'], V['cut_rep']) if order == 0 else S.cmp('gt', V['cut_rep'], V['cut_adh']))
        s2 = api.Session(ir, mode='real', overrides={KERNEL: kernel_stub}); z2 = SV.Z3Ctx()
        def run_path(c):
            calls.clear(); del contracts[:]
            return s2.run('h_c07_pair', din, iin, pathctl=c)
        ctl = SV.PathController(z2, 3000, 400)
        ctl.generic_position = True
        ctl.resolve_selects = True
        ctl.assumptions = list(pre)
        res = ctl.explore(run_path)
        out = {'paths': [], 'exhausted': ctl.exhausted, 'functions': s2.functions_called, 'stats': dict(ctl.stats)}
        n = [V['n%d' % k] for k in range(3)]
        for (tr, pc, r) in res:
            st = getattr(r, 'status', None)
            if st == 'pathend': continue
            key = ''.join('T' if d.taken else 'F' for d in tr if not d.forced) or '-'
            item = {'key': key, 'status': st, 'obs': [], 'concrete': []}
            out['paths'].append(item)
            if st != 'ok':
                item['error'] = repr(getattr(r, 'error', None))[:300]; continue
            d = r.dout
            d2, u, v, w = [S.R(x) for x in d[0:4]]
            Nf = [S.R(x) for x in d[4:7]]; area = S.R(d[7])
            F = [d[8 + 3 * k:11 + 3 * k] for k in range(8)]
            fn = r.iout[0:3]
            a = [V['a%d' % k] for k in range(3)]; b = [V['b%d' % k] for k in range(3)]; c = [V['c%d' % k] for k in range(3)]
            q = S.vadd(S.vadd(S.vscale(a, u), S.vscale(b, v)), S.vscale(c, w))
            rvec = S.vsub(n, q)
            def ob(name, claim, core=True):
                if claim is S.TRUE:
                    item['obs'].append((name, 'proved', None, 0.0, core, True)); return
                t = time.time(); stt, model = SV.prove(z2, pc, claim, 20000)
                if stt == 'unknown':
                    # directed search for a counterexample with the scalar parameters fixed (a refutation found this way is a refutation of the
                    # general claim; a proof under fixed parameters is not a proof, the obligation then stays undecided)
                    from fractions import Fraction as Fr
                    for (ca, cr) in (((Fr(1, 2), Fr(3, 10)) if order == 0 else (Fr(3, 10), Fr(1, 2))), ((Fr(1, 5), Fr(1, 10)) if order == 0 else (Fr(1, 10), Fr(1, 5)))):
                        fix = {'cut_adh': ca, 'cut_rep': cr, 'lmin': Fr(1, 10), 'k_adh': Fr(13, 10), 'k_rep': Fr(21, 10)}
                        cache = {}
                        pc2 = [S.subst(c_, fix, cache) for c_ in pc]; cl2 = S.subst(claim, fix, cache)
                        st2, m2 = SV.prove(z2, pc2, cl2, 20000)
                        if st2 == 'violated':
                            m2 = dict(m2 or {}); m2.update(fix)
                            stt, model = 'violated', m2
                            break
                item['obs'].append((name, stt, model, time.time() - t, core, False))
            Fn = [S.R(x) for x in F[1]]
            Ff = [[S.R(x) for x in F[4 + j]] for j in fn]
            others = [k for k in range(8) if k != 1 and k not in [4 + j for j in fn]]
            nz = any(isinstance(x, S.Node) for f in F for x in f)
            for k in others:
                if any((isinstance(x, S.Node) or x != 0.0) for x in F[k]):
                    item['concrete'].append(('force on a node that belongs neither to the pair', 'node slot %d got %r' % (k, F[k])))
            cl = S.TRUE
            for t in range(3):
                tot = Fn[t]
                for f in Ff: tot = S.add(tot, f[t])
                cl = S.band(cl, S.cmp('eq', tot, S.ZERO))
            ob('reciprocity: force on the node = - sum of the forces on the three face nodes', cl)
            big = V['cut_adh'] if order == 0 else V['cut_rep']
            maxcut2 = S.mul(big, big)
            if nz:
                ob('range: a force is applied only below the largest cut-off', S.cmp('lt', d2, maxcut2))
                toward = S.vdot(Fn, S.vsub(q, n))
                react = S.ZERO
                for f in Ff: react = S.add(react, S.vdot(f, rvec))
                pos = S.band(S.cmp('gt', area, S.ZERO), S.cmp('gt', d2, S.ZERO))
                ob('direction: node pushed toward the surface point, reaction pushes the surface toward the node', S.bor(S.bnot(pos), S.band(S.cmp('gt', toward, S.ZERO), S.cmp('gt', react, S.ZERO))))
                if cm != 0:
                    side = S.vdot(rvec, Nf)
                    flip = (t1 == 0 and t2 == 1) or (t1 == 3 and t2 == 0)
                    forbidden = S.cmp('ge', side, S.ZERO) if flip else S.cmp('lt', side, S.ZERO)   # a node exactly on an enclosing surface counts as escaped
                    ob('repulsion only when the node is on the forbidden side of the face', forbidden)
            else:
                if cm != 0 and not (t1 == 0 and t2 == 0):
                    side = S.vdot(rvec, Nf)
                    flip = (t1 == 0 and t2 == 1) or (t1 == 3 and t2 == 0)
                    forbidden = S.cmp('gt', side, S.ZERO) if flip else S.cmp('lt', side, S.ZERO)
                    inrange = S.band(S.cmp('lt', d2, maxcut2), S.band(S.cmp('gt', d2, S.ZERO), S.cmp('gt', area, S.ZERO)))
                    ob('no force => not (forbidden side and within range)', S.bnot(S.band(forbidden, inrange)))
            if cm == 1:
                cp = r.iout[3:]
                cd = r.dout[32:]
                coupled = [(cp[3 * k], cp[3 * k + 1], cp[3 * k + 2]) for k in range(8)]
                if all(type(x) is int for t in coupled for x in t):
                    n1c = coupled[1]
                    partners = [k for k in range(8) if coupled[k][0]]
                    if n1c[0]:
                        j = n1c[2]
                        ok = n1c[1] == 1 and j in fn and coupled[4 + j] == (1, 0, 1) and len(partners) == 2
                        if not ok: item['concrete'].append(('coupling is mutual and joins the node with a node of the face', 'couplings %r' % (coupled,)))
                        if not (t1 == 0 and t2 == 0): item['concrete'].append(('coupling only between epithelial cells', 'types %r' % ((t1, t2),)))
                        ob('coupling only within the adhesion cut-off', S.cmp('lt', S.R(cd[1]), S.mul(V['cut_adh'], V['cut_adh'])))
                        an = [a, b, c][fn.index(j)]
                        dd = S.vsub(n, an)
                        ob('recorded coupling distance is the node-node distance', S.cmp('eq', S.R(cd[1]), S.vdot(dd, dd)))
                    elif partners:
                        item['concrete'].append(('coupling is mutual', 'couplings %r' % (coupled,)))
                    item['coupled'] = bool(n1c[0])
                else:
                    item['status'] = 'symbolic-coupling'
            item['nz'] = nz
            stw, model = SV.satisfiable(z2, pc, 10000)
            item['witness'] = stw; item['model'] = model
        out['queries'] = z2.queries; out['solver_s'] = z2.solver_time
        return out

    chk.log('%d exploration jobs' % len(jobs))
    results = par.pmap(work, len(jobs))
    natives = {}
    for (cm, (t1, t2), order), res in zip(jobs, results):
        tag = 'model %d/%s node vs %s face/%s' % (cm, TYPES[t1], TYPES[t2], 'adhesion cut-off larger' if order == 0 else 'repulsion cut-off larger')
        chk.functions |= res['functions']; chk.queries += res['queries']; chk.solver_s += res['solver_s']; chk.paths += len(res['paths'])
        if not res['exhausted']: chk.fail_closed.append(tag + ': path budget exhausted %r' % (res['stats'],))
        kinds = set()
        for item in res['paths']:
            ptag = tag + '/path ' + item['key']
            if item['status'] != 'ok':
                chk.fail_closed.append(ptag + ': ' + item['status'] + ' ' + item.get('error', '')); continue
            if item['witness'] == 'sat': chk.witnesses += 1
            elif item['witness'] == 'unsat': continue
            kinds.add(('force' if item['nz'] else 'no-force', item.get('coupled')))
            for (name, what) in item['concrete']:
                rep = replay(builds, natives, cm, (t1, t2), item.get('model'))
                chk.ob(ptag + '/' + name, 'violated', True, 0, detail=what)
                chk.violation('C07/model %d/%s' % (cm, name), '%s: %s' % (ptag, what), rep)
            for (name, stt, model, dt, core, trivial) in item['obs']:
                nm = ptag + '/' + name
                if stt == 'violated':
                    rep = replay(builds, natives, cm, (t1, t2), model, name)
                    chk.ob(nm, 'violated' if rep['reproduced'] else 'unknown', core, dt, detail=rep, sample={'obligation': nm, 'model': {k: model[k] for k in list(model)[:10]}})
                    if rep['reproduced']:
                        chk.violation('C07/model %d/%s' % (cm, name.split(':')[0]), '%s: %s' % (nm, rep['what']), rep)
                else:
                    chk.ob(nm, stt, core, dt, sample={'obligation': nm, 'status': stt} if len(chk.samples) < 8 else None)
        if not any(k[0] == 'force' for k in kinds):
            chk.fail_closed.append(tag + ': no explored path applies a force (vacuity)')
    for n in natives.values(): n.close()
    same_cell_part(chk, quick)
    chk.finish(level='other', explanation=(
        'resolve_contact / apply_contact_forces of the compiled contact model is executed on one node-face pair with all geometry, normals, curvatures, cut-offs and strengths symbolic, '
        'for each listed pair of cell types; the kernel is replaced by its contract. Per feasible path z3 proves: forces on the node and on the three face nodes cancel and no other node is touched; '
        'a force exists only below the largest cut-off and (coupling models) only when the node is on the forbidden side, which is inverted for epithelial-vs-ECM and nucleus-vs-epithelial pairs; '
        'the node is pushed toward the surface point and the reaction toward the node; couplings are mutual, epithelial-only and within the adhesion cut-off.'))

def same_cell_part(chk, quick):
    """no contact between elements of the same cell, and contacts of different cells are not lost, when the persistent cell ids differ from the
    list positions (the state after removals / divisions): the whole run() of the model on the two-cell tissue of C06 with the query node symbolic,
    persistent ids = positions + 1; the hand-over log must contain no same-cell pair and every withheld pair must be outside the cut-off box"""
    from checks import c06
    SC = c06.scenarios(True)[0]
    jobs = []
    for cm in ((1,) if quick else (1, 2, 0)):
        for (lo, hi) in c06.split_box(SC.lo, SC.hi, 2):
            jobs.append((cm, lo, hi))
    outs = par.pmap(lambda i: c06.run_box(jobs[i][0], SC, jobs[i][1], jobs[i][2], 10000, 1500, 1, 1), len(jobs), procs=12)
    natives = {}
    for (cm, lo, hi), o in zip(jobs, outs):
        chk.paths += o['paths']; chk.queries += o['queries']; chk.solver_s += o['solver_s']; chk.functions |= set(o['functions'])
        for m_ in o['fail']: chk.fail_closed.append(m_)
        for (name, status, core, t, detail) in o['obs']:
            if status != 'cand-dup': chk.ob('whole run, ids ahead of positions/' + name, status, core, t, detail)
        for cand in o['cands']:
            p = [cand['model'].get(v, (lo[k] + hi[k]) / 2) for k, v in enumerate(c06.PV)]
            if cm not in natives:
                natives[cm] = api.Native(build.build_native(['h_broad.cpp'], contact=cm))
            rep = {'contact model': cm, 'p': p, 'pair': {'node (cell, index)': cand['node'], 'face (cell, index)': cand['face']}, 'din': SC.din(p), 'iin': SC.iin(1, 1, 1),
                   'how': 'harness h_c06_broad (/verif/harness/h_broad.cpp) with persistent cell ids = list positions + 1'}
            if cand.get('same'):
                # native confirmation: with ids ahead of positions the forces differ from the run with ids = positions (same tissue, same model)
                q1 = natives[cm].call(c06.ENTRY, SC.din(p), SC.iin(0, 1, 1)); q0 = natives[cm].call(c06.ENTRY, SC.din(p), SC.iin(0, 1, 0))
                differ = q1.get('status') == 0 and q0.get('status') == 0 and (q1['d'] != q0['d'] or q1['i'] != q0['i'])
                rep['native'] = 'forces/couplings with ids = positions + 1 %s those with ids = positions' % ('differ from' if differ else 'equal')
                chk.ob(cand['ob'], 'violated' if differ else 'unknown', True, 0, rep)
                if differ:
                    chk.violation('C07/model %d/contact between elements of the same cell' % cm, 'node %r is handed to face %r of its own cell when the persistent ids are ahead of the list positions (p=%r); %s' % (cand['node'], cand['face'], p, rep['native']), rep)
            else:
                diff = c06.native_loss(natives[cm], SC, p, 1, 1)
                chk.ob(cand['ob'], 'violated' if diff else 'unknown', False, 0, {'p': p, 'native': diff})
                if diff:
                    chk.violation('C07/model %d/contact of different cells lost when ids are ahead of positions' % cm, 'node %r / face %r withheld at p=%r: %s' % (cand['node'], cand['face'], p, diff), rep)
    for n_ in natives.values(): n_.close()

def rand_din(rng):
    return ([0.3 + rng.uniform(-.3, .3), 0.3 + rng.uniform(-.3, .3), rng.uniform(-.2, .4)] + [c + rng.uniform(-.05, .05) for c in (0, 0, 0, 1, 0, 0, 0, 1, 0)] +
            [rng.uniform(0.1, 0.5), rng.uniform(0.1, 0.5), 0.1, 1.3, 2.1] + [rng.uniform(-1, 1) for _ in range(12)] + [rng.uniform(0, 1) for _ in range(4)] + [0.6])

def replay(builds, natives, cm, types, model, name=''):
    if not model: return {'reproduced': False, 'what': 'no model'}
    if cm not in natives: natives[cm] = api.Native(builds[cm][1])
    din = [float(Fraction(model.get(n, 1 if n in ('cut_adh', 'cut_rep', 'lmin', 'k_adh', 'k_rep') else 0))) for n in DN]
    iin = [types[0], types[1], 1, 3, 3, 1, 0]
    q = natives[cm].call('h_c07_pair', din, iin)
    if q['status'] != 0 or len(q['d']) < 32: return {'reproduced': False, 'what': 'native run failed', 'din': din, 'iin': iin}
    d = q['d']
    F = [d[8 + 3 * k:11 + 3 * k] for k in range(8)]
    fn = q['i'][0:3]
    d2, u, v, w = d[0:4]
    a, b, c = din[3:6], din[6:9], din[9:12]; n = din[0:3]
    qpt = [u * a[k] + v * b[k] + w * c[k] for k in range(3)]
    r = [n[k] - qpt[k] for k in range(3)]
    fmax = max([abs(x) for f in F for x in f] + [1e-300])
    probs = []
    tot = [F[1][k] + sum(F[4 + j][k] for j in fn) for k in range(3)]
    if max(abs(x) for x in tot) > 1e-9 * fmax: probs.append('forces of the pair do not cancel: %r' % (tot,))
    cut = max(din[12], din[13])
    if fmax > 1e-290 and d2 >= cut * cut * (1 + 1e-12): probs.append('force applied at squared distance %r beyond the cut-off %r' % (d2, cut))
    if fmax > 1e-290:
        toward = sum(F[1][k] * (-r[k]) for k in range(3))
        if toward < -1e-12 * fmax * (abs(d2) ** 0.5 + 1e-300): probs.append('force on the node points away from the surface point (F.(q-n)=%r)' % toward)
        if cm != 0:
            Nf = d[4:7]; side = sum(r[k] * Nf[k] for k in range(3))
            flip = types in ((0, 1), (3, 0))
            forb = side > 0 if flip else side < 0
            if not forb and abs(side) > 1e-12: probs.append('repulsion although the node is on the allowed side (r.N=%r, types %r)' % (side, types))
    elif cm != 0 and types != (0, 0):
        Nf = d[4:7]; side = sum(r[k] * Nf[k] for k in range(3))
        flip = types in ((0, 1), (3, 0))
        forb = side > 0 if flip else side < 0
        if forb and 0 < d2 < cut * cut * (1 - 1e-9) and abs(side) > 1e-9 and d[7] > 0: probs.append('node on the forbidden side within range but no force (r.N=%r d2=%r)' % (side, d2))
    return {'reproduced': bool(probs), 'what': '; '.join(probs) if probs else 'native run satisfies the claim at the model point', 'din': din, 'iin': iin}

if __name__ == '__main__':
    run_check('C07', main)
