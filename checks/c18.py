#!/usr/bin/env python3
"""C18 — parameter wiring and validation.  The real parameter_reader (read_numerical_parameters, read_biomechanical_parameters,
read_cell_type_parameters, read_face_type_parameters, get_string_value, lower_string, the std::stod/stoi wrappers) is executed from
the LLVM IR on parameter files whose *structure* is concrete (number of cell/face types, which tag or section is missing, where INF
is written) and whose numeric contents are symbolic.  tinyxml2's tree navigation and libc's strtod/strtol are the environment: they
are answered from a table (harness/h_params.cpp) in which the text of tag T is a marker and strtod(marker) is the symbol named after T.
Every path ends either in an accepted parameter set or in an exception; z3 decides per path
    accept  =>  every documented constraint holds  and  every field equals the symbol of the tag it is named after,
    reject  =>  some documented constraint is violated (or the omitted tag / section is the reason),
and every model of a failed obligation is replayed through the native build: a real XML file, real tinyxml2, real strtod."""
import os
import re
import sys
import time
from fractions import Fraction

sys.path.insert(0, os.path.dirname(os.path.dirname(os.path.abspath(__file__))))
from checks.framework import run_check, VERIF
from irsym import api, build, sym as S, solver as SV, par

IBASE = 8
NSLOT = 16 + 64 * 4
NUM_TAGS = ['input_mesh_file_path', 'output_mesh_folder_path', 'damping_coefficient', 'perform_initial_triangulation', 'simulation_duration',
            'time_step', 'sampling_period', 'min_edge_length', 'contact_cutoff_adhesion', 'contact_cutoff_repulsion', 'enable_edge_swap_operation']
NUM_KIND = 'ssdidddddddi'[:11]
NUM_KIND = ['s', 's', 'd', 'i', 'd', 'd', 'd', 'd', 'd', 'd', 'i']
CELL_TAGS = ['cell_type_name', 'global_cell_id', 'cell_mass_density', 'cell_bulk_modulus', 'max_inner_pressure', 'area_elasticity_modulus',
             'avg_division_volume', 'std_division_volume', 'avg_growth_rate', 'std_growth_rate', 'target_isoperimetric_ratio',
             'angle_regularization_factor', 'min_vol', 'surface_coupling_max_curvature']
CELL_KIND = ['s', 'i'] + ['d'] * 12
FACE_TAGS = ['face_type_name', 'global_face_id', 'surface_tension', 'adherence_strength', 'repulsion_strength', 'bending_modulus']
FACE_KIND = ['s', 'i', 'd', 'd', 'd', 'd']
# field of the parameter structures that each tag is documented to fill (include/custom_structures.hpp, doc/parameter_file_doc.md)
NUM_FIELD = ['input_mesh_path_', 'output_folder_path_', 'damping_coefficient_', 'perform_initial_triangulation_', 'simulation_duration_', 'time_step_',
             'sampling_period_', 'min_edge_len_', 'contact_cutoff_adhesion_', 'contact_cutoff_repulsion_', 'enable_edge_swap_operation_']
# the order in which the harness prints the numerical fields (strings, then by declaration of the outputs)
NUM_DOUT = [2, 4, 5, 6, 7, 8, 9]
# documented constraints: (tag, relation to 0), from the reader's own messages ("must be strictly positive", "is negative")
NUM_POS = {2: 'gt', 4: 'gt', 5: 'gt', 6: 'gt', 7: 'gt', 8: 'gt', 9: 'gt'}
CELL_POS = {10: 'gt', 13: 'gt'}
FACE_POS = {2: 'ge', 3: 'ge', 4: 'ge', 5: 'ge'}
SHORT_MAX = 32767

def cell_slot(ct, k): return 16 + 64 * ct + k
def face_slot(ct, ft, k): return 16 + 64 * ct + 16 + 8 * ft + k

def slot_name(slot):
    if slot < 16: return NUM_TAGS[slot]
    ct, r = divmod(slot - 16, 64)
    if r < 16: return 'cell_type[%d]/%s' % (ct, CELL_TAGS[r])
    ft, k = divmod(r - 16, 8)
    return 'cell_type[%d]/face_type[%d]/%s' % (ct, ft, FACE_TAGS[k])

def generic_name(slot):
    """tag name without the cell/face index (keys of findings must not depend on which cell type exposes them)"""
    return re.sub(r'\[\d+\]', '', slot_name(slot))

class Scenario:
    def __init__(self, name, nct, nfts, omitted=-1, inf=0, seed=0):
        self.name = name; self.nct = nct; self.nfts = list(nfts) + [0] * (4 - len(nfts)); self.omitted = omitted; self.inf = inf; self.seed = seed
    def inf_mode(self, ct, k):
        if k not in (4, 6): return 0
        return (self.inf >> (4 * ct + (2 if k == 6 else 0))) & 3
    def control(self):
        return [self.nct] + self.nfts + [self.omitted, self.inf, self.seed]
    def used_slots(self):
        """(slot, kind) of every tag present in the file"""
        out = []
        if self.omitted != -2:
            out += [(k, NUM_KIND[k]) for k in range(11)]
        if self.omitted != -3:
            for ct in range(self.nct):
                out += [(cell_slot(ct, k), CELL_KIND[k]) for k in range(14) if not self.inf_mode(ct, k)]
                if self.omitted != -(10 + ct):
                    for ft in range(self.nfts[ct]):
                        out += [(face_slot(ct, ft, k), FACE_KIND[k]) for k in range(6)]
        return [(s, kd) for (s, kd) in out if s != self.omitted]
    def complete(self):
        """does the file contain everything the documentation requires?"""
        return self.omitted == -1 and self.nct >= 1 and all(n >= 1 for n in self.nfts[:self.nct])

D = [S.var('d%d' % k) for k in range(NSLOT)]
IV = [S.ivar('i%d' % k, 64) for k in range(NSLOT)]
HALF = 1 << 63

def fits_int(v):
    return S.bor(S.cmp('le', v, S.iconst(2 ** 31 - 1, 64)), S.cmp('ge', v, S.iconst(2 ** 64 - 2 ** 31, 64)))

def signed_of(u):
    return u - (1 << 64) if u >= HALF else u

def constraints(sc):
    """[(slot, claim node)] the documented admissibility conditions of the values present in the file"""
    out = []
    def rel(slot, op): return (slot, S.cmp(op, D[slot], S.ZERO))
    for k, op in NUM_POS.items(): out.append(rel(k, op))
    out.append((6, S.cmp('ge', D[6], D[5])))
    for ct in range(sc.nct):
        for k, op in CELL_POS.items(): out.append(rel(cell_slot(ct, k), op))
        # representable identifiers (short): the value must arrive intact, so anything that does not fit cannot be accepted
        cid = IV[cell_slot(ct, 1)]
        out.append((cell_slot(ct, 1), S.bor(S.cmp('le', cid, S.iconst(SHORT_MAX, 64)), S.cmp('ge', cid, S.iconst(2 ** 64 - 32768, 64)))))
        for ft in range(sc.nfts[ct]):
            for k, op in FACE_POS.items(): out.append(rel(face_slot(ct, ft, k), op))
            out.append((face_slot(ct, ft, 1), S.cmp('le', IV[face_slot(ct, ft, 1)], S.iconst(SHORT_MAX, 64))))     # 0 <= id <= 32767 (unsigned representative)
    return out

def expected_outputs(sc, part):
    """(iout, dout) the accepted structures must show: each entry is an int, a Node, math.inf or ('bool', Node)"""
    inf = float('inf')
    io = [part, 0 if part == 0 else 1]
    do = []
    def s_of(slot): return [len('s%d' % slot)] + [ord(c) for c in 's%d' % slot]
    io += s_of(0) + s_of(1)
    do += [D[k] for k in NUM_DOUT[:1]]
    io.append(('bool', IV[3]))
    do += [D[k] for k in NUM_DOUT[1:]]
    io.append(('bool', IV[10]))
    if part == 0:
        io.append(sc.nct)
        for ct in range(sc.nct):
            io += s_of(cell_slot(ct, 0)); io.append(('id', IV[cell_slot(ct, 1)]))
            for k in range(2, 14):
                do.append(inf if sc.inf_mode(ct, k) else D[cell_slot(ct, k)])
            io.append(sc.nfts[ct])
            for ft in range(sc.nfts[ct]):
                io += s_of(face_slot(ct, ft, 0)); io.append(('id', IV[face_slot(ct, ft, 1)]))
                do += [D[face_slot(ct, ft, k)] for k in range(2, 6)]
    return io, do

def what_of_iout(sc, part):
    """names of the entries of expected_outputs (for messages)"""
    names = ['part', 'class'] + ['input_mesh_file_path'] * (1 + len('s0')) + ['output_mesh_folder_path'] * (1 + len('s1')) + ['perform_initial_triangulation', 'enable_edge_swap_operation']
    dn = [NUM_TAGS[k] for k in NUM_DOUT]
    if part == 0:
        names.append('number of cell types')
        for ct in range(sc.nct):
            names += [slot_name(cell_slot(ct, 0))] * (1 + len('s%d' % cell_slot(ct, 0))) + [slot_name(cell_slot(ct, 1))]
            dn += [slot_name(cell_slot(ct, k)) for k in range(2, 14)]
            names.append('number of face types of cell type %d' % ct)
            for ft in range(sc.nfts[ct]):
                names += [slot_name(face_slot(ct, ft, 0))] * (1 + len('s%d' % face_slot(ct, ft, 0))) + [slot_name(face_slot(ct, ft, 1))]
                dn += [slot_name(face_slot(ct, ft, k)) for k in range(2, 6)]
    return names, dn

def generic(nm):
    import re
    return re.sub(r'\[\d+\]', '', nm)

# --------------------------------------------------------------------------------------------------------------------------------
def concrete_inputs(sc, model, default_seed=0):
    """doubles/ints for the native run from a solver model (missing symbols get admissible defaults)"""
    din = [0.0] * NSLOT; iin = sc.control() + [0] * NSLOT
    for slot in range(NSLOT):
        din[slot] = 1.0 + 0.001 * slot
        iin[IBASE + slot] = slot % 5
    din[6] = 2.0; din[5] = 1.0
    for k, v in (model or {}).items():
        if k[0] == 'd' and k[1:].isdigit(): din[int(k[1:])] = float(Fraction(v))
        if k[0] == 'i' and k[1:].isdigit(): iin[IBASE + int(k[1:])] = signed_of(int(v))
    return din, iin

def admissible_concrete(sc, din, iin):
    """the documented constraints, evaluated on the doubles that are actually written to the file; returns list of violated slots"""
    bad = []
    ops = {'gt': lambda x: x > 0, 'ge': lambda x: x >= 0}
    used = dict(sc.used_slots())
    def chk(slot, op):
        if slot in used and not ops[op](din[slot]): bad.append(slot)
    for k, op in NUM_POS.items(): chk(k, op)
    if 5 in used and 6 in used and not din[6] >= din[5]: bad.append(6)
    for ct in range(sc.nct):
        for k, op in CELL_POS.items(): chk(cell_slot(ct, k), op)
        s = cell_slot(ct, 1)
        if s in used and not (-32768 <= iin[IBASE + s] <= 32767): bad.append(s)
        for ft in range(sc.nfts[ct]):
            for k, op in FACE_POS.items(): chk(face_slot(ct, ft, k), op)
            s = face_slot(ct, ft, 1)
            if s in used and not (0 <= iin[IBASE + s] <= 32767): bad.append(s)
    return bad

def native_outcome(native, sc, din, iin):
    """run the real reader on a real file; returns dict(accepted, cls, mismatches=[(name, written, got)])"""
    q = native.call('h_c18_read', din, iin)
    if q.get('status') != 0 or len(q['i']) < 2:
        return {'status': q.get('status'), 'accepted': None, 'mismatches': []}
    part, cls = q['i'][0], q['i'][1]
    out = {'status': 0, 'part': part, 'cls': cls, 'accepted': part == 0, 'mismatches': []}
    if part == 1: return out
    eio, edo = expected_outputs(sc, part)
    names, dn = what_of_iout(sc, part)
    env = {}
    for slot in range(NSLOT):
        env['d%d' % slot] = din[slot]; env['i%d' % slot] = iin[IBASE + slot]
    for k, (e, g) in enumerate(zip(eio[2:], q['i'][2:]), 2):
        if type(e) is tuple:
            v = env[e[1].args[0]]
            want = (1 if v != 0 else 0) if e[0] == 'bool' else v
        else: want = e
        if want != g: out['mismatches'].append((names[k] if k < len(names) else '?', want, g))
    for k, (e, g) in enumerate(zip(edo, q['d'])):
        want = e if type(e) is float else din[int(e.args[0][1:])]
        if not api.same_double(want, g): out['mismatches'].append((dn[k] if k < len(dn) else '?', want, g))
    if len(q['i']) != len(eio) or len(q['d']) != len(edo):
        out['mismatches'].append(('shape of the returned structures', (len(eio), len(edo)), (len(q['i']), len(q['d']))))
    return out

# --------------------------------------------------------------------------------------------------------------------------------
def run_scenario(ir, sc, tmo_ms):
    """explore one file structure; returns picklable dict of obligations and candidate violations"""
    t0 = time.time()
    z = SV.Z3Ctx()
    used = sc.used_slots()
    din = list(D)
    iin = sc.control() + list(IV)
    pre = [fits_int(IV[s]) for (s, kd) in used if kd == 'i']
    sess = api.Session(ir, mode='real')
    ctl, res = sess.explore('h_c18_read', din, iin, assumptions=pre, zctx=z, max_paths=600, branch_timeout_ms=tmo_ms)
    out = {'name': sc.name, 'obs': [], 'cands': [], 'fail': [], 'paths': ctl.paths_done, 'functions': set(sess.functions_called), 'witness': 0, 'accepts': 0, 'rejects': 0}
    if not ctl.exhausted: out['fail'].append('%s: path budget exhausted' % sc.name)
    cons = constraints(sc)
    usedset = {s for s, _ in used}
    cons = [(s, c) for (s, c) in cons if s in usedset and (s != 6 or 5 in usedset)]
    allc = S.TRUE
    for _, c in cons: allc = S.band(allc, c)
    def ob(name, status, detail=None, core=True, t=0.0):
        out['obs'].append((sc.name + '/' + name, status, core, t, detail))
    for (tr, pc, r) in res:
        st = getattr(r, 'status', None)
        if st == 'pathend': continue
        if st != 'ok' or len(r.iout) < 2 or not all(type(v) is int for v in r.iout[:2]):
            if st == 'exception':
                # an exception that is not a std::exception left the reader
                out['cands'].append(('escape', 'an exception of type %s escapes the reader' % getattr(r, 'exception', '?'), None, pc and SV.satisfiable(z, pc, tmo_ms)[1]))
            else:
                out['fail'].append('%s: path ended with %s %r' % (sc.name, st, getattr(r, 'error', None)))
            continue
        part, cls = r.iout[0], r.iout[1]
        key = 'path %s' % ''.join('T' if d.taken else 'F' for d in tr)[-24:]
        if cls in (2, 3):
            stw, model = SV.satisfiable(z, pc, tmo_ms)
            if stw == 'sat':
                out['cands'].append(('escape', 'an exception that is not parameter_reader_exception leaves the reader (class %d)' % cls, None, model))
                ob(key + '/only parameter_reader_exception leaves the reader', 'violated', {'model': model})
            continue
        if part == 0:
            out['accepts'] += 1
            if not sc.complete():
                stw, model = SV.satisfiable(z, pc, tmo_ms)
                if stw != 'unsat':
                    what = slot_name(sc.omitted) if sc.omitted >= 0 else sc.name
                    out['cands'].append(('missing-accepted', 'the file lacks %s and is accepted' % what, generic(what), model))
                    ob(key + '/incomplete file is rejected', 'violated' if stw == 'sat' else 'unknown', {'model': model})
                continue
            stw, model = SV.satisfiable(z, pc, tmo_ms)
            if stw == 'sat': out['witness'] += 1
            # (a) every documented constraint is implied by acceptance
            for (slot, c) in cons:
                t = time.time()
                stc, m = SV.prove(z, pc, c, tmo_ms)
                ob(key + '/accepted => %s admissible' % slot_name(slot), stc, {'model': m} if m else None, True, time.time() - t)
                if stc == 'violated':
                    out['cands'].append(('accepts', 'a value of %s outside its documented range is accepted' % slot_name(slot), generic_name(slot), m))
            # (b) every field carries the symbol of its own tag
            eio, edo = expected_outputs(sc, 0)
            names, dn = what_of_iout(sc, 0)
            if len(r.iout) != len(eio) or len(r.dout) != len(edo):
                out['cands'].append(('shape', 'the accepted structures have %d/%d entries, the file describes %d/%d' % (len(r.iout), len(r.dout), len(eio), len(edo)), None, model))
                ob(key + '/number and order of cell types and face types preserved', 'violated')
                continue
            wrong = check_outputs(z, pc, r, eio, edo, names, dn, tmo_ms, ob, key, out, model)
        else:
            out['rejects'] += 1
            if cls != 1:
                out['fail'].append('%s: reject path with class %r' % (sc.name, cls)); continue
            if part == 2:
                eio, edo = expected_outputs(sc, 2)
                names, dn = what_of_iout(sc, 2)
                if len(r.iout) == len(eio) and len(r.dout) == len(edo):
                    check_outputs(z, pc, r, eio, edo, names, dn, tmo_ms, ob, key + ' (numerical part)', out, None)
            if sc.complete():
                # (c) a complete file is rejected only for a documented reason
                t = time.time()
                stc, m = SV.prove(z, pc, S.bnot(allc), tmo_ms)
                ob(key + '/rejected => some documented constraint is violated', stc, {'model': m} if m else None, True, time.time() - t)
                if stc == 'violated':
                    out['cands'].append(('rejects-valid', 'a complete file with admissible values is rejected', None, m))
    if sc.complete() and not out['witness']:
        out['fail'].append('%s: no satisfiable accept path (vacuous)' % sc.name)
    if not sc.complete():
        ob('every path of the incomplete file ends in parameter_reader_exception', 'proved' if (ctl.exhausted and not out['accepts'] and out['rejects']) else ('violated' if out['accepts'] else 'unknown'))
    out['queries'] = z.queries; out['solver_s'] = z.solver_time; out['wall'] = time.time() - t0
    out['functions'] = sorted(out['functions'])
    return out

def check_outputs(z, pc, r, eio, edo, names, dn, tmo_ms, ob, key, out, model):
    wrong = 0
    # doubles: the output node must be the symbol itself (hash-consed DAG: identity), otherwise ask the solver
    for k, (e, g) in enumerate(zip(edo, r.dout)):
        if type(e) is float:
            ok = type(g) is float and g == e
            ob(key + '/%s = +infinity (INF)' % dn[k], 'proved' if ok else 'violated')
            if not ok: out['cands'].append(('value', '%s: INF is not mapped to +infinity (got %r)' % (dn[k], S.show(g, 3) if isinstance(g, S.Node) else g), generic(dn[k]), model)); wrong += 1
            continue
        if g is e:
            ob(key + '/field of %s = value written' % dn[k], 'proved'); continue
        if not isinstance(g, S.Node):
            stc, m = 'violated', model
        else:
            stc, m = SV.prove(z, pc, S.cmp('eq', g, e), tmo_ms)
        ob(key + '/field of %s = value written' % dn[k], stc, {'got': S.show(g, 3) if isinstance(g, S.Node) else g})
        if stc == 'violated':
            out['cands'].append(('value', 'the field of %s holds %s' % (dn[k], S.show(g, 3) if isinstance(g, S.Node) else g), generic(dn[k]), m or model)); wrong += 1
    for k, (e, g) in enumerate(zip(eio, r.iout)):
        if type(e) is tuple:
            kind, sym = e
            if kind == 'bool':
                claim = S.cmp('eq', S.I(g, 64), S.ite(S.cmp('ne', sym, S.iconst(0, 64)), S.iconst(1, 64), S.iconst(0, 64)))
            else:
                claim = S.cmp('eq', S.I(g, 64), sym)
            stc, m = SV.prove(z, pc, claim, tmo_ms)
            ob(key + '/field of %s = value written' % names[k], stc, {'model': m} if m else None)
            if stc == 'violated':
                out['cands'].append(('value', 'the field of %s differs from the value written' % names[k], generic(names[k]), m)); wrong += 1
        else:
            if g != e:
                ob(key + '/%s as written' % names[k], 'violated', {'want': e, 'got': g if type(g) is int else S.show(g, 3)})
                out['cands'].append(('value', '%s: expected %r, got %r' % (names[k], e, g if type(g) is int else S.show(g, 3)), generic(names[k]), model)); wrong += 1
    ob(key + '/names, counts and order of cell types and face types as written', 'proved' if not wrong else 'violated')
    return wrong

# --------------------------------------------------------------------------------------------------------------------------------
def scenarios(quick):
    out = []
    shapes = [(1, [1]), (2, [2, 1]), (3, [1, 3, 2])] if quick else [(1, [1]), (2, [2, 1]), (3, [1, 3, 2]), (4, [2, 2, 2, 2]), (2, [6, 1]), (4, [1, 1, 1, 3])]
    for (nct, nf) in shapes:
        out.append(Scenario('complete %dx%r' % (nct, nf), nct, nf))
    # INF / inf / Inf in the two documented places, every cell type
    out.append(Scenario('complete 2x[2, 1] INF,inf / Inf,number', 2, [2, 1], inf=0b00111001))
    out.append(Scenario('complete 3x[1, 1, 1] number,INF / inf,Inf / INF,INF', 3, [1, 1, 1], inf=0b010111100100))
    base = (2, [2, 1])
    for k in range(11): out.append(Scenario('missing %s' % NUM_TAGS[k], *base, omitted=k))
    for ct in ((1,) if quick else (0, 1)):
        for k in range(14): out.append(Scenario('missing %s' % slot_name(cell_slot(ct, k)), *base, omitted=cell_slot(ct, k)))
    for (ct, ft) in (((0, 1),) if quick else ((0, 0), (0, 1), (1, 0))):
        for k in range(6): out.append(Scenario('missing %s' % slot_name(face_slot(ct, ft, k)), *base, omitted=face_slot(ct, ft, k)))
    out.append(Scenario('missing section numerical_parameters', *base, omitted=-2))
    out.append(Scenario('missing section cell_types', *base, omitted=-3))
    out.append(Scenario('missing section face_types of cell type 0', *base, omitted=-10))
    out.append(Scenario('missing section face_types of cell type 1', *base, omitted=-11))
    out.append(Scenario('no cell type', 0, []))
    out.append(Scenario('cell type 1 without face type', 2, [1, 0]))
    return out

def wire_part(chk, quick):
    """consumer side of "the values then govern the run they are named after": the real solver constructor with the global parameters symbolic.
    What it hands to the mesh refiner, the time integrator and the contact model, and the initial target volume it derives from
    initial_pressure and bulk_modulus, must be the named parameters (edge length band [l_min, 3 l_min] as documented)."""
    from irsym import envstubs
    from fractions import Fraction
    ir = build.build_ir(['h_num.cpp']); nat = build.build_native(['h_num.cpp'])
    native = api.Native(nat)
    ov = {}
    ov.update(envstubs.fs_stubs()); ov.update(envstubs.writer_stubs())
    def setup(it): it.strict_undef = False
    names = ['w_dt', 'w_damping', 'w_lmin', 'w_cut_adh', 'w_cut_rep', 'w_p0', 'w_K']
    V = [S.var(n) for n in names]
    dt, damp, lmin, ca, cr, p0, K = V
    pre = [S.cmp('gt', v, S.ZERO) for v in (dt, damp, lmin, ca, cr, K)]
    # validation
    sc = api.Session(ir, mode='ieee', overrides=ov, setup=setup)
    for k, din in enumerate(([1e-3, 2.0, 0.3, 0.25, 0.125, 0.5, 10.0], [0.5, 0.25, 1.5, 0.0625, 0.75, -2.0, 3.0])):
        r = sc.run('h_c18_wire', din, [k % 2]); q = native.call('h_c18_wire', din, [k % 2])
        chk.validation['inputs'] += 1
        if r.status != 'ok' or q.get('status') != 0 or r.iout != q['i'] or not all(api.same_double(a, b) for a, b in zip(r.dout, q['d'])):
            chk.validation['mismatches'] += 1; chk.note('wire part: validation mismatch %r: %r' % (din, (r.status, getattr(r, 'error', None))))
    chk.validation['programs'] += 1
    chk.functions |= sc.functions_called
    z = SV.Z3Ctx()
    sess = api.Session(ir, mode='real', overrides=ov, setup=setup)
    for swap in (0, 1):
        ctl, res = sess.explore('h_c18_wire', V, [swap], assumptions=pre, zctx=z, max_paths=16, branch_timeout_ms=5000)
        chk.paths += ctl.paths_done
        done = [(tr, pc, r) for (tr, pc, r) in res if getattr(r, 'status', None) != 'pathend']
        if not ctl.exhausted or not done:
            chk.fail_closed.append('wire part: exploration incomplete'); continue
        for (tr, pc, r) in done:
            tag = 'solver constructor, edge swap %s/path %s' % ('on' if swap else 'off', ''.join('T' if d.taken else 'F' for d in tr) or '-')
            if r.status != 'ok':
                chk.fail_closed.append('wire part: %s ended with %s %r' % (tag, r.status, getattr(r, 'error', None))); continue
            o = [S.R(x) if not isinstance(x, S.Node) else x for x in r.dout]
            vol = o[8]
            mx = S.ite(S.cmp('gt', cr, ca), cr, ca)
            claims = [('the refiner gets l_min = min_edge_length', S.cmp('eq', o[0], lmin)), ('the refiner gets l_max = 3 min_edge_length', S.cmp('eq', o[1], S.mul(S.const(3), lmin))),
                      ('the integrator gets the time step', S.cmp('eq', o[2], dt)), ('the integrator gets the damping coefficient', S.cmp('eq', o[3], damp)),
                      ('the contact model gets the adhesion cut-off', S.cmp('eq', o[4], ca)), ('the contact model gets the repulsion cut-off', S.cmp('eq', o[5], cr)),
                      ('face boxes are padded by the larger cut-off', S.cmp('eq', o[6], mx)),
                      ('grid voxel = 3 min_edge_length + 2 paddings', S.cmp('eq', o[7], S.add(S.mul(S.const(3), lmin), S.mul(S.const(2), mx)))),
                      ('initial target volume = V exp(initial_pressure / bulk_modulus)', S.cmp('eq', o[9], S.mul(vol, S.uf('exp', S.div(p0, K)))))]
            sw = r.iout[0]
            ok_sw = (not isinstance(sw, S.Node)) and (sw != 0) == bool(swap)
            chk.ob(tag + '/the refiner gets the edge swap switch', 'proved' if ok_sw else 'violated', True, 0)
            bad = [] if ok_sw else [('the refiner gets the edge swap switch', None)]
            for (nm, cl) in claims:
                st, m = SV.prove(z, list(pc), cl, 10000)
                chk.queries += 1
                chk.ob(tag + '/' + nm, st, True, 0)
                if st == 'violated': bad.append((nm, m))
            chk.witnesses += 1
            for (nm, m) in bad[:1]:
                g = lambda n_, d_: float(Fraction((m or {}).get(n_, d_)))
                din = [g('w_dt', 0.001), g('w_damping', 2.0), g('w_lmin', 0.3), g('w_cut_adh', 0.25), g('w_cut_rep', 0.125), g('w_p0', 0.5), g('w_K', 10.0)]
                q = native.call('h_c18_wire', din, [swap])
                probs = []
                if q.get('status') == 0:
                    d = q['d']; mxn = max(din[3], din[4])
                    import math
                    exp = [din[2], 3 * din[2], din[0], din[1], din[3], din[4], mxn, 3 * din[2] + 2 * mxn, None, d[8] * math.exp(din[5] / din[6]), None]
                    lab = ['l_min', 'l_max', 'integrator time step', 'integrator damping', 'adhesion cut-off', 'repulsion cut-off', 'box padding', 'voxel size', '', 'initial target volume', '']
                    for a, b, l in zip(d, exp, lab):
                        if b is not None and abs(a - b) > 1e-9 * max(1.0, abs(b)): probs.append('%s is %r, the parameters give %r' % (l, a, b))
                    if (q['i'][0] != 0) != bool(swap): probs.append('edge swap switch %r for enable_edge_swap_operation = %r' % (q['i'][0], bool(swap)))
                rep = {'din': din, 'iin': [swap], 'problems': probs, 'how': 'harness h_c18_wire (/verif/harness/h_num.cpp), native build: real solver constructor, members read back'}
                if probs: chk.violation('C18/wiring/solver constructor/%s' % nm, '%s: %s' % (tag, '; '.join(probs[:3])), rep)
                else: chk.fail_closed.append('wire part: "%s" refuted by the solver, native run agrees with the parameters' % nm)
    chk.functions |= sess.functions_called
    native.close()

def main(chk):
    quick = chk.tier == 'quick'
    ir = build.build_ir(['h_params.cpp'], extra_flags=['-fno-pic'])
    nat = build.build_native(['h_params.cpp'])
    native = api.Native(nat)
    tmo = 20000 if quick else 60000
    chk.trusted += ['clang -O1 lowering of the reader, validated per run against the native build', 'irsym LLVM-IR interpreter; libstdc++ string members, C++ exception model',
                    'environment table of harness/h_params.cpp standing for tinyxml2 (FirstChildElement, NextSiblingElement, GetText) and libc strtod/strtol: validated per run by reading real files natively',
                    'z3 (linear real / integer arithmetic)']
    chk.assumptions += ['numeric texts parse to finite reals; integer texts fit int (otherwise std::stoi throws std::out_of_range, a C17 matter)',
                        '"documented sign constraints" are taken from the reader\'s own messages: strictly positive = > 0 for damping_coefficient, simulation_duration, time_step, sampling_period, min_edge_length, both cut-offs, target_isoperimetric_ratio, surface_coupling_max_curvature; sampling_period >= time_step; not negative = >= 0 for global_face_id, surface_tension, adherence_strength, repulsion_strength, bending_modulus',
                        'identifiers are stored in a short: a value outside the short range cannot arrive intact and is counted as inadmissible (it must not be accepted)',
                        'order of tags inside a section: the table answers by name, the native validation shuffles the tags of every section and the two sections']
    chk.bounds = {'file structures': '%s' % ('1-3 cell types x 1-3 face types' if quick else '1-4 cell types x 1-6 face types'),
                  'faults': 'every single omitted tag (numerical: all; cell type / face type: in %s), every omitted section, no cell type, no face type' % ('one cell/face type' if quick else 'each cell/face type of the 2x[2,1] file'),
                  'values': 'all finite reals / all 32-bit integers (symbolic)',
                  'outside': 'tinyxml2 itself, decimal parsing, two faults at once, non-numeric or empty text (C17), the use of the values by the solver ("govern the run")'}

    # ---- validation of translator and environment table: concrete files, irsym(table) vs native(real file, shuffled tags) -------
    import random
    rnd = random.Random(1234 + chk.seed)
    sc_all = scenarios(quick)
    sconc = api.Session(ir, mode='ieee')
    nval = mism = 0
    for sc in sc_all:
        for rep in range(2 if quick else 4):
            din = [0.0] * NSLOT; iin = sc.control() + [0] * NSLOT
            iin[7] = rnd.randrange(1, 1 << 30)
            for s in range(NSLOT):
                mag = 10.0 ** rnd.randrange(-12, 12)
                din[s] = rnd.random() * mag
                iin[IBASE + s] = rnd.choice([0, 1, 2, 5, 17, 300])
            din[6] = din[5] * (1 + rnd.random() * 50)
            if rep % 2 == 1:
                # one violated constraint somewhere
                s, kd = rnd.choice([u for u in sc.used_slots() if u[1] != 's'] or [(2, 'd')])
                if kd == 'd': din[s] = -din[s] if rnd.random() < 0.7 else 0.0
                else: iin[IBASE + s] = -rnd.choice([1, 7, 40000])
            r = sconc.run('h_c18_read', din, iin); q = native.call('h_c18_read', din, iin)
            nval += 1
            if r.status != 'ok' or q.get('status') != 0 or r.iout != q['i'] or len(r.dout) != len(q['d']) or not all(api.same_double(a, b) for a, b in zip(r.dout, q['d'])):
                mism += 1; chk.note('validation mismatch in %s: irsym %r %r / native %r %r' % (sc.name, r.status, r.iout[:8], q.get('status'), q['i'][:8]))
    chk.validation = {'programs': 1, 'inputs': nval, 'mismatches': mism}
    chk.functions |= sconc.functions_called
    chk.log('validation: %d files, %d mismatches' % (nval, mism))

    # ---- symbolic exploration per file structure -----------------------------------------------------------------------------------
    outs = par.pmap(lambda i: run_scenario(ir, sc_all[i], tmo), len(sc_all), procs=14)
    for sc, o in zip(sc_all, outs):
        chk.paths += o['paths']; chk.queries += o['queries']; chk.solver_s += o['solver_s']; chk.witnesses += o['witness']
        chk.functions |= set(o['functions'])
        for m in o['fail']: chk.fail_closed.append(m)
        for (name, status, core, t, detail) in o['obs']:
            chk.ob(name, status, core, t, detail)
        if len(chk.samples) < 8 and o['obs']:
            chk.samples.append({'scenario': sc.name, 'paths': o['paths'], 'accept paths': o['accepts'], 'reject paths': o['rejects'], 'first obligation': o['obs'][0][0]})
        for (kind, what, gname, model) in o['cands']:
            din, iin = concrete_inputs(sc, model)
            iin[7] = 77
            nat_out = native_outcome(native, sc, din, iin)
            bad = admissible_concrete(sc, din, iin)
            rep = {'scenario': sc.name, 'kind': kind, 'what': what, 'control': sc.control(), 'values': {slot_name(s): (din[s] if kd == 'd' else iin[IBASE + s]) for (s, kd) in sc.used_slots() if kd != 's'},
                   'native': nat_out, 'inadmissible tags': [slot_name(s) for s in bad],
                   'how': 'harness h_c18_read in /verif/harness/h_params.cpp (native build): writes the XML file described by control+values, reads it with parameter_reader'}
            confirmed = False
            if kind == 'accepts': confirmed = nat_out.get('accepted') is True and bool(bad)
            elif kind == 'value': confirmed = bool(nat_out.get('mismatches'))
            elif kind == 'shape': confirmed = bool(nat_out.get('mismatches'))
            elif kind == 'rejects-valid': confirmed = nat_out.get('accepted') is False and not bad
            elif kind == 'missing-accepted': confirmed = nat_out.get('accepted') is True
            elif kind == 'escape': confirmed = nat_out.get('cls') in (2, 3) or nat_out.get('status') not in (0,)
            if confirmed:
                key = 'C18/%s/%s' % (kind, gname or generic(sc.name))
                chk.violation(key, '%s [%s]; native: accepted=%r class=%r mismatches=%r' % (what, sc.name, nat_out.get('accepted'), nat_out.get('cls'), nat_out.get('mismatches')[:3]), rep)
            else:
                chk.fail_closed.append('%s: solver model for "%s" did not reproduce natively (%r)' % (sc.name, what, {k: nat_out.get(k) for k in ('accepted', 'cls', 'status')}))
    native.close()
    wire_part(chk, quick)
    chk.finish(level='other', explanation=(
        'Per file structure the real reader is executed symbolically (values of all numeric tags are symbols, tinyxml2 navigation and strtod/strtol are an environment table); every path is an accept or a reject. '
        'z3 proves: accept => each documented constraint; accept => every field equals the symbol of its own tag (doubles by DAG identity, integers and booleans by query), names/counts/order as written, INF -> +infinity; '
        'reject of a complete file => a documented constraint is violated; an incomplete file has no accept path. Models of failed obligations are replayed on real XML files through the native reader.'))

if __name__ == '__main__':
    run_check('C18', main)
