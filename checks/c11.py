#!/usr/bin/env python3
"""C11 — remeshing is physically neutral, selective and terminates (see refine_check.py)."""
import os, sys
sys.path.insert(0, os.path.dirname(os.path.dirname(os.path.abspath(__file__))))
from checks.framework import run_check
from checks import refine_check

def main(chk):
    refine_check.main(chk, 'C11')
    chk.finish(level='other', explanation=(
        'Split, merge and swap on every edge of the catalogue meshes and bounded refinement passes run from the LLVM IR with symbolic coordinates, momenta and length band. '
        'z3 proves per path: total momentum conserved, new nodes at edge midpoints, surviving nodes untouched, merged node carries the summed momentum, split keeps volume '
        '(and parent areas), labels are inherited (concrete), the pass changes the mesh only if an edge is outside the band and leaves a conforming mesh bit-for-bit unchanged; '
        'every explored path of refine_mesh returns or throws mesh_integrity_exception.'))

if __name__ == '__main__':
    run_check('C11', main)
