#!/usr/bin/env python3
"""C19 — output numbering law (the part of C19 that is arithmetic): the real solver::save_mesh and the time advance of
time_integration_scheme::update_nodes_positions are executed from the LLVM IR over histories of k iterations with symbolic
time step and sampling period.  Exact-real obligations are proved with z3; the bit-precise (IEEE) search for gaps is done by
cbmc on the expression DAG.  File contents, CSV shape and statistics values are outside this check."""
import os
import sys
import time
from fractions import Fraction

sys.path.insert(0, os.path.dirname(os.path.dirname(os.path.abspath(__file__))))
from checks.framework import run_check, VERIF
from irsym import api, build, envstubs, sym as S, solver as SV, fpsym as FS, cemit, par
from irsym.interp import ReturnFrom

SAVE = '_ZN6solver9save_meshEv'
MCONS = '_ZNSt7__cxx1112basic_stringIcSt11char_traitsIcESaIcEE12_M_constructEmc'

def main(chk):
    quick = chk.tier == 'quick'
    ir = build.build_ir(['h_num.cpp'])
    nat = build.build_native(['h_num.cpp'])
    native = api.Native(nat)
    work = os.path.join(VERIF, '_work', 'cbmc'); os.makedirs(work, exist_ok=True)
    kreal = 6 if quick else 12
    kfp = 4 if quick else 6
    chk.trusted += ['clang lowering validated per run', 'irsym; mesh_writer::write replaced by an empty body; in the bit-precise runs the file-name formatting tail of save_mesh is cut after the file number has been stored',
                    'z3 (mixed integer/real arithmetic with to_int) for the exact-real law; cbmc --floatbv for IEEE counterexample search']
    chk.assumptions += ['0 < dt <= S (documented S >= dt), exact-real runs: S <= 8 dt (keeps the set of rounded ratios finite), all values finite; bit-precise search: 1e-9 <= dt <= S <= 1e6',
                        '"K within one of T/S+1" is read as |K - (T/S + 1)| < 2: the mesh is saved at the start of an iteration, so the state reached at t >= T is never written and the literal reading fails by up to dt/S for every non-commensurable ratio']
    chk.bounds = {'history (exact real)': '%d iterations' % kreal, 'history (bit-precise)': '%d iterations' % kfp, 'cbmc limit per obligation': '%ds' % (120 if quick else 300),
                  'statistics cadence': 'real solver::run on one static cell, every iteration count 1..%d' % (60 if quick else 160), 'outside': 'file contents, pairing of cell/face files on disk, CSV shape and values, populations changing during the run'}

    # ---- translator validation -----------------------------------------------------------------------
    ev = []
    sc = api.Session(ir, mode='ieee', overrides=envstubs.writer_stubs(ev))
    mism = 0; nval = 0
    for din in ([0.1, 0.1], [0.1, 0.25], [1e-3, 3e-3], [0.15, 0.1 * 1.5], [7e-7, 2.1e-6], [0.3, 0.3], [1.0, 3.14159]):
        r = sc.run('h_c19_numbering', din, [30]); q = native.call('h_c19_numbering', din, [30])
        nval += 1
        if r.status != 'ok' or r.iout != q['i'] or not all(api.same_double(a, b) for a, b in zip(r.dout, q['d'])):
            mism += 1; chk.note('validation mismatch %r: %r / %r' % (din, r.iout[:10], q['i'][:10]))
    chk.validation = {'programs': 1, 'inputs': nval, 'mismatches': mism}
    chk.functions |= sc.functions_called
    names_seen = [e[1] for e in ev if e[0] == 'mesh_write'][:3]
    chk.note('file names produced by the real save_mesh in the concrete run: %r' % (names_seen,))

    # ---- exact-real law -------------------------------------------------------------------------------
    z = SV.Z3Ctx()
    dt, Sp = S.var('dt'), S.var('S')
    pre = [S.cmp('gt', dt, S.ZERO), S.cmp('le', dt, Sp), S.cmp('le', Sp, S.mul(S.const(8), dt))]
    sess = api.Session(ir, mode='real', overrides=envstubs.writer_stubs([]))
    ctl, res = sess.explore('h_c19_numbering', [dt, Sp], [kreal], assumptions=pre, zctx=z, max_paths=3000, branch_timeout_ms=3000, eager_ints=True)
    chk.absorb(session=sess, ctl=ctl)
    chk.log('exact-real: %d paths (%s)' % (len(res), ctl.stats))
    if not ctl.exhausted: chk.fail_closed.append('exact-real: path budget exhausted')
    npaths = 0
    seen_seq = set()
    for (tr, pc, r) in res:
        st = getattr(r, 'status', None)
        if st == 'pathend': continue
        if st != 'ok':
            chk.fail_closed.append('exact-real path: %s %r' % (st, getattr(r, 'error', None))); continue
        stw, model = SV.satisfiable(z, pc, 20000)
        if stw == 'unsat': continue
        if stw == 'sat': chk.witnesses += 1
        npaths += 1
        nums = r.iout
        if not all(type(v) is int for v in nums):
            chk.fail_closed.append('exact-real: symbolic file number in the output'); continue
        seen_seq.add(tuple(nums))
        tag = 'exact-real/file numbers %r' % (nums,)
        probs = []
        if nums[0] != 1: probs.append(('first-number', 'first file number is %d' % nums[0]))
        for a, b in zip(nums, nums[1:]):
            if b < a: probs.append(('decreasing', 'file number decreases %d -> %d' % (a, b)))
            if b > a + 1: probs.append(('gap', 'file number jumps %d -> %d' % (a, b)))
        # K within (less than two of) T/S + 1, T = k*dt
        K = nums[-1]
        ideal = S.add(S.div(S.mul(S.const(kreal), dt), Sp), S.ONE)
        stK, mK = SV.prove(z, pc, S.band(S.cmp('lt', S.sub(S.const(K), ideal), S.const(2)), S.cmp('lt', S.sub(ideal, S.const(K)), S.const(2))), 20000)
        if stK == 'violated': probs.append(('count', 'K=%d but T/S+1 can be %r' % (K, mK)))
        # simulated time after j iterations is j*dt
        cl = S.TRUE
        for j, tv in enumerate(r.dout):
            cl = S.band(cl, S.cmp('eq', S.R(tv), S.mul(S.const(j + 1), dt)))
        stT, mT = SV.prove(z, pc, cl, 20000)
        chk.ob(tag + '/simulated time advances by exactly one time step per iteration', stT, True, 0)
        if not probs:
            chk.ob(tag + '/starts at 1, never decreases, no gap, K within two of T/S+1', 'proved' if stK == 'proved' else stK, True, 0,
                   sample={'obligation': tag, 'model': {k: float(v) for k, v in (model or {}).items()}} if len(chk.samples) < 6 else None)
        else:
            m = mK if (probs[0][0] == 'count' and mK) else model
            din = [float(Fraction(m.get('dt', 1))), float(Fraction(m.get('S', 1)))] if m else [1.0, 1.0]
            rep = replay(native, din, kreal)
            chk.ob(tag + '/starts at 1, never decreases, no gap, K within two of T/S+1', 'violated' if rep['problems'] else 'unknown', True, 0, detail={'problems': probs, 'replay': rep})
            for (kind, what) in probs:
                if any(p[0] == kind for p in rep['problems']):
                    chk.violation('C19/exact-real/%s' % kind, '%s: %s; native: %s' % (tag, what, [p[1] for p in rep['problems'] if p[0] == kind][0]), rep)
    if not npaths: chk.fail_closed.append('exact-real: no feasible path')
    chk.note('exact-real: %d distinct feasible numbering sequences over %d iterations' % (len(seen_seq), kreal))

    # ---- bit-precise search (IEEE doubles) -----------------------------------------------------------------
    def cut_tail(it, a):
        n = a[1]
        if type(n) is not int:
            raise ReturnFrom(SAVE)
        return it.externals[MCONS](it, a)
    ov = envstubs.writer_stubs([]); ov[MCONS] = cut_tail
    Vd, Vs = FS.fvar('dt'), FS.fvar('S')
    pre_fp = [FS.fcmp('oge', Vd, 1e-9), FS.fcmp('ole', Vd, Vs), FS.fcmp('ole', Vs, 1e6)]
    sfp = api.Session(ir, mode='fp', overrides=ov)
    c2 = SV.FPPathController(400)
    c2.cut_function = SAVE
    def digit_count_test(cond):
        # std::to_string counts decimal digits by comparing the (symbolic) file number with 10, 100, 1000, 10000
        if cond.op in ('lt', 'le', 'gt', 'ge') and any(getattr(x, 'op', None) == 'iconst' and x.args[0] in (9, 10, 99, 100, 999, 1000, 9999, 10000) for x in cond.args): return True
        return False
    c2.cut_predicate = digit_count_test
    res2 = c2.explore(lambda c: sfp.run('h_c19_numbering', [Vd, Vs], [kfp], pathctl=c))
    chk.paths += c2.paths_done
    chk.functions |= sfp.functions_called
    jobs = []
    for (tr, pc, r) in res2:
        if getattr(r, 'status', None) != 'ok':
            chk.fail_closed.append('bit-precise path: %r' % (getattr(r, 'error', r),)); continue
        nums = r.iout
        key = ''.join('T' if d.taken else 'F' for d in tr)
        I64 = lambda v: v if isinstance(v, S.Node) else S.iconst(v, 64)
        jobs.append(('bit-precise/path %s/first file number is 1' % key, pre_fp + pc, S.cmp('eq', I64(nums[0]), S.iconst(1, 64)), 'first-number', None))
        for j in range(len(nums) - 1):
            a, b = I64(nums[j]), I64(nums[j + 1])
            jobs.append(('bit-precise/path %s/file number does not decrease at iteration %d' % (key, j + 1), pre_fp + pc, S.cmp('ge', b, a), 'decreasing', None))
            jobs.append(('bit-precise/path %s/no gap at iteration %d' % (key, j + 1), pre_fp + pc, S.cmp('le', b, S.mk('iadd', (a, S.iconst(1, 64)), 'I', 64)), 'gap', None))
            # the same with the known finding's region excluded: S >= 2 dt
            jobs.append(('bit-precise/path %s/no gap at iteration %d (S >= 2 dt)' % (key, j + 1), pre_fp + pc + [FS.fcmp('oge', Vs, FS.fmul(2.0, Vd))], S.cmp('le', b, S.mk('iadd', (a, S.iconst(1, 64)), 'I', 64)), 'gap-far', None))
    chk.log('bit-precise: %d paths, %d cbmc obligations' % (c2.paths_done, len(jobs)))
    tmo = 120 if quick else 300
    outs = par.pmap(lambda i: cemit.run_cbmc(jobs[i][1], jobs[i][2], tmo, workdir=work), len(jobs), procs=8)
    for (nm, assumes, claim, kind, _), (st, model, dt_) in zip(jobs, outs):
        chk.solver_s += dt_; chk.queries += 1
        if st == 'violated':
            din = [model.get('dt', 1.0), model.get('S', 1.0)]
            rep = replay(native, din, kfp)
            hit = [p for p in rep['problems'] if p[0] == ('gap' if kind == 'gap-far' else kind)]
            ok_pre = din[0] > 0 and din[0] <= din[1] and (kind != 'gap-far' or din[1] >= 2 * din[0])
            chk.ob(nm, 'violated' if (hit and ok_pre) else 'unknown', kind != 'gap-far' and False, dt_, detail=rep, sample={'obligation': nm, 'dt': din[0], 'S': din[1], 'native numbers': rep.get('numbers')})
            if hit and ok_pre:
                if kind == 'gap':
                    chk.violation('C19/gap/file number jumps by two in one iteration (S within a few ulp of dt: the quotient t/S rounds below an integer, then above the next)',
                                  '%s: dt=%r S=%r native file numbers %r' % (nm, din[0], din[1], rep.get('numbers')), rep)
                else:
                    chk.violation('C19/bit-precise/%s' % kind, '%s: dt=%r S=%r native file numbers %r' % (nm, din[0], din[1], rep.get('numbers')), rep)
        else:
            # an IEEE proof is not required for the claim (the law is proved in exact reals); unknown = no counterexample within the time limit
            chk.ob(nm, st, False, dt_)
    stats_part(chk, ir, native, quick)
    native.close()
    chk.queries += z.queries
    chk.finish(level='other', explanation=(
        'save_mesh (file number = floor(t/S)+1) and the integrator\'s time advance are executed from the IR for k iterations with symbolic dt and S. Exact reals: every feasible numbering sequence is '
        'enumerated (z3 decides feasibility with to_int) and must start at 1, never decrease, have no gap and end within two of T/S+1; simulated time is proved to be j*dt. IEEE doubles: cbmc searches, per path, '
        'for a first number != 1, a decrease or a gap; counterexamples are replayed on the native build with the real mesh writer.'))

def stats_part(chk, ir, native, quick):
    """statistics cadence: the real solver::run() (constructor, main loop, final record) on one static cell with the duration T symbolic; every
    feasible iteration count N in the range is a path (z3 decides which T give which N). Claim per path: the statistics writer is called
    for the iterations 0, 50, 100, ... < N and for N (the state at the end), each once, in this order."""
    from fractions import Fraction
    dt = 2.0 ** -10
    nmax = 60 if quick else 160
    step = 10
    ranges = [(a, min(a + step, nmax)) for a in range(0, nmax, step)]
    def work(i):
        lo, hi = ranges[i]
        ev = []
        ov = {}; ov.update(envstubs.fs_stubs()); ov.update(envstubs.writer_stubs(ev))
        def setup(it): it.strict_undef = False
        z = SV.Z3Ctx()
        T = S.var('T')
        pre = [S.cmp('gt', T, S.const(Fraction(dt) * lo)), S.cmp('le', T, S.const(Fraction(dt) * hi))]
        sess = api.Session(ir, mode='real', overrides=ov, setup=setup)
        out = {'obs': [], 'bad': [], 'bad_term': [], 'fail': [], 'paths': 0, 'functions': [], 'seen': []}
        def run_path(c):
            del ev[:]
            r = sess.run('h_c19_stats', [dt, 16 * dt, T], [], pathctl=c)
            r.stats_events = [e[1] for e in ev if e[0] == 'stats_write']
            return r
        ctl = SV.PathController(z, 5000, 400)
        ctl.assumptions = list(pre)
        res = ctl.explore(run_path)
        out['paths'] = ctl.paths_done; out['functions'] = sorted(sess.functions_called); out['queries'] = z.queries; out['solver_s'] = z.solver_time
        if not ctl.exhausted: out['fail'].append('statistics cadence T in (%d dt, %d dt]: path budget exhausted' % (lo, hi))
        for (tr, pc, r) in res:
            st = getattr(r, 'status', None)
            if st == 'pathend': continue
            if st != 'ok' or type(r.iout[0]) is not int:
                out['fail'].append('statistics cadence: path ended with %s %r' % (st, getattr(r, 'error', None))); continue
            stw, m = SV.satisfiable(z, pc, 5000)
            if stw == 'unsat': continue
            N = r.iout[0]
            got = [int(x) if type(x) is int else None for x in r.stats_events]
            want = [k for k in range(0, N, 50)] + [N]
            out['seen'].append(N)
            ok = got == want
            out['obs'].append(('statistics cadence/run of %d iterations/records for the iterations %r (every 50th and the last)' % (N, want), 'proved' if ok else 'violated', {'recorded': got}))
            if not ok:
                out['bad'].append({'N': N, 'T': float(Fraction(m['T'])) if m and 'T' in m else dt * N, 'recorded': got, 'expected': want})
            # termination: "until T is reached" -- on this path the loop ran N times, so the final time N dt must have reached T and the
            # time before the last iteration must not have (the run neither stops early nor goes on after T)
            for (nm, claim) in (('the final time N dt has reached T', S.cmp('ge', S.const(Fraction(dt) * N), T)),
                                ('the time before the last iteration was still below T', S.cmp('lt', S.const(Fraction(dt) * (N - 1)), T))):
                st_t, m_t = SV.prove(z, list(pc), claim, 5000)
                out['obs'].append(('termination/run of %d iterations/%s' % (N, nm), st_t, {}))
                if st_t == 'violated':
                    out['bad_term'].append({'N': N, 'T': float(Fraction(m_t['T'])) if m_t and 'T' in m_t else None, 'claim': nm})
        return out
    outs = par.pmap(work, len(ranges), procs=12)
    seen = []
    for o in outs:
        chk.paths += o['paths']; chk.queries += o.get('queries', 0); chk.solver_s += o.get('solver_s', 0); chk.functions |= set(o['functions'])
        for m_ in o['fail']: chk.fail_closed.append(m_)
        seen += o['seen']
        for (name, status, detail) in o['obs']: chk.ob(name, status, True, 0, detail)
        for b in o['bad'][:1]:
            q = native.call('h_c19_stats', [dt, 16 * dt, b['T']], [])
            rows = q['i'][1:] if q.get('status') == 0 else None
            Nn = q['i'][0] if q.get('status') == 0 and q['i'] else None
            wantn = ([k for k in range(0, Nn, 50)] + [Nn]) if Nn is not None else None
            rep = {'dt': dt, 'duration': b['T'], 'irsym': b, 'native iterations': Nn, 'native statistics rows (iteration numbers)': rows, 'expected': wantn,
                   'how': 'harness h_c19_stats (/verif/harness/h_num.cpp), native build: real solver::run with the in-memory statistics writer, rows parsed from get_simulation_statistics()'}
            if rows is not None and rows != wantn:
                chk.violation('C19/statistics/records are not "every 50th iteration and the last"', 'run of %d iterations: statistics recorded for iterations %r, expected %r; native rows %r' % (b['N'], b['recorded'], b['expected'], rows), rep)
            else:
                chk.fail_closed.append('statistics cadence: irsym run of %d iterations records %r, native rows %r' % (b['N'], b['recorded'], rows))
        for b in o['bad_term'][:1]:
            if b['T'] is None:
                chk.fail_closed.append('termination: refuted without a model for T (run of %d iterations)' % b['N']); continue
            q = native.call('h_c19_stats', [dt, 16 * dt, b['T']], [])
            Nn = q['i'][0] if q.get('status') == 0 and q['i'] else None
            tf = q['d'][0] if q.get('status') == 0 and q['d'] else None
            rep = {'dt': dt, 'duration': b['T'], 'irsym': b, 'native iterations': Nn, 'native final time': tf,
                   'how': 'harness h_c19_stats (/verif/harness/h_num.cpp), native build: real solver::run, final iteration count and simulation time'}
            if tf is not None and (tf < b['T'] or (Nn is not None and Nn >= 1 and tf - dt >= b['T'])):
                chk.violation('C19/termination/the run does not stop exactly when T is reached', 'T = %r, dt = %r: the run makes %r iterations and ends at t = %r (%s)' % (
                    b['T'], dt, Nn, tf, 'before T' if tf < b['T'] else 'a whole step after T'), rep)
            else:
                chk.fail_closed.append('termination: irsym refutes "%s" for a run of %d iterations at T=%r, native ends at %r after %r iterations' % (b['claim'], b['N'], b['T'], tf, Nn))
    missing = [n for n in range(1, nmax + 1) if n not in seen]
    if missing: chk.fail_closed.append('statistics cadence: iteration counts %r were not reached by any path' % (missing[:10],))
    chk.witnesses += len(seen)

def replay(native, din, k):
    q = native.call('h_c19_numbering', din, [k])
    if q['status'] != 0 or not q['i']: return {'problems': [], 'what': 'native run failed %r' % (q.get('status'),), 'din': din}
    nums = q['i']
    probs = []
    if nums[0] != 1: probs.append(('first-number', 'first file number %d' % nums[0]))
    for a, b in zip(nums, nums[1:]):
        if b < a: probs.append(('decreasing', 'file number decreases %d -> %d' % (a, b)))
        if b > a + 1: probs.append(('gap', 'file number jumps %d -> %d (file %d is never written)' % (a, b, a + 1)))
    K = nums[-1]; ideal = k * din[0] / din[1] + 1
    if abs(K - ideal) >= 2: probs.append(('count', 'K=%d files for T/S+1=%.3f' % (K, ideal)))
    return {'problems': probs, 'numbers': nums, 'din': din, 'what': '; '.join(p[1] for p in probs) or 'native numbering is gap-free'}

if __name__ == '__main__':
    run_check('C19', main)
