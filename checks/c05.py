#!/usr/bin/env python3
"""C05 — point-to-triangle kernel: symbolic execution of the real
contact_model_abstract::compute_node_triangle_distance (LLVM IR) with all twelve coordinates
symbolic; z3 decides, per feasible return path, barycentric validity, distance consistency,
optimality (KKT / projection characterisation), translation and rotation invariance."""
import os
import random
import sys
import time
from fractions import Fraction

sys.path.insert(0, os.path.dirname(os.path.dirname(os.path.abspath(__file__))))
from checks.framework import run_check, jsonable
from irsym import api, build, sym as S, solver as SV, par

NAMES = ['ax', 'ay', 'az', 'abx', 'aby', 'abz', 'acx', 'acy', 'acz', 'apx', 'apy', 'apz']

def path_sig(r):
    """signature of a return path = which barycentric outputs are the literal constants 0/1"""
    sig = []
    for o in r.dout[1:4]:
        c = S.cval(o) if isinstance(o, S.Node) else o
        sig.append('s' if c is None else str(int(c)))
    names = {'100': 'vertexA', '010': 'vertexB', '001': 'vertexC', 'ss0': 'edgeAB', 's0s': 'edgeAC', '0ss': 'edgeBC', 'sss': 'interior'}
    return names.get(''.join(sig), ''.join(sig))

def closest_point_reference(p, a, b, c):
    """independent exact reference (rational arithmetic): minimise |p-q|^2 over the triangle by
    projecting on the plane / edges / vertices and taking the best feasible candidate"""
    def sub(u, v): return [u[i] - v[i] for i in range(3)]
    def dot(u, v): return sum(u[i] * v[i] for i in range(3))
    def add(u, v): return [u[i] + v[i] for i in range(3)]
    def sc(u, k): return [x * k for x in u]
    cands = [a, b, c]
    for (x, y) in ((a, b), (a, c), (b, c)):
        e = sub(y, x)
        t = dot(sub(p, x), e) / dot(e, e)
        if 0 <= t <= 1: cands.append(add(x, sc(e, t)))
    ab = sub(b, a); ac = sub(c, a); ap = sub(p, a)
    g11 = dot(ab, ab); g12 = dot(ab, ac); g22 = dot(ac, ac)
    det = g11 * g22 - g12 * g12
    if det != 0:
        r1 = dot(ab, ap); r2 = dot(ac, ap)
        v = (r1 * g22 - r2 * g12) / det
        w = (r2 * g11 - r1 * g12) / det
        if v >= 0 and w >= 0 and v + w <= 1:
            cands.append(add(a, add(sc(ab, v), sc(ac, w))))
    best = min(cands, key=lambda q: dot(sub(p, q), sub(p, q)))
    return dot(sub(p, best), sub(p, best)), best

def main(chk):
    quick = chk.tier == 'quick'
    ir = build.build_ir(['h_c05.cpp'])
    nat = build.build_native(['h_c05.cpp'])
    native = api.Native(nat)
    chk.trusted += ['clang-14 lowering of contact_model_abstract.cpp / vec3.cpp to LLVM IR (validated per run against the g++ build on random inputs)',
                    'irsym LLVM-IR interpreter and its z3 translation', 'z3 %s (nlsat) as deciding solver' % SV.z3.get_version_string(),
                    'exact-real reading of double arithmetic (rounding is outside the claim)']
    chk.assumptions += ['triangle non-degenerate: |ab|^2 |ac|^2 - (ab.ac)^2 > 0', 'doubles read as exact reals (no rounding, no overflow, no NaN)']

    # ---- translator validation: irsym (IEEE, concrete) vs native g++ -O2 --------------------------------
    rng = random.Random(chk.seed + 17)
    sc = api.Session(ir, mode='ieee')
    nval = 200 if quick else 1000
    mism = 0
    for k in range(nval):
        scale = 10.0 ** rng.randint(-3, 3)
        off = rng.choice([0.0, 1.0, 1000.0, -1e6])
        din = [rng.uniform(-1, 1) * scale + off for _ in range(12)]
        if k % 10 == 0:   # exercise degenerate-ish / boundary configurations as well
            din[9:12] = din[3:6]
        r = sc.run('h_c05_kernel_raw', din)
        q = native.call('h_c05_kernel_raw', din)
        if r.status != 'ok' or len(r.dout) != 4 or not all(api.same_double(x, y) for x, y in zip(r.dout, q['d'])):
            mism += 1
            chk.note('translator validation mismatch on %r: irsym %r native %r' % (din, r.dout, q))
    chk.validation = {'programs': 1, 'inputs': nval, 'mismatches': mism}
    chk.functions |= sc.functions_called

    # ---- symbolic exploration, general position -----------------------------------------------------------
    V = [S.var(n) for n in NAMES]
    a, ab, ac, ap = V[0:3], V[3:6], V[6:9], V[9:12]
    nondeg = S.cmp('gt', S.sub(S.mul(S.vdot(ab, ab), S.vdot(ac, ac)), S.mul(S.vdot(ab, ac), S.vdot(ab, ac))), S.ZERO)
    sess = api.Session(ir, mode='real')
    z = SV.Z3Ctx()
    ctl, results = sess.explore('h_c05_kernel', V, assumptions=[nondeg], zctx=z, branch_timeout_ms=3000 if quick else 20000, max_paths=64)
    chk.absorb(session=sess, ctl=ctl)
    chk.log('general position: %d paths explored (%s), exhausted=%s' % (len(results), ctl.stats, ctl.exhausted))
    if not ctl.exhausted:
        chk.fail_closed.append('path budget exhausted in the kernel')
    chk.bounds = {'function': 'compute_node_triangle_distance, straight-line (no loops): all feasible paths explored',
                  'symbolic_inputs': NAMES, 'max_paths': 64, 'frames': ['general position (12 free reals)', 'canonical frame ab=(l,0,0), ac=(m,n,0), l,n>0 with free base point and query point']}

    b = S.vadd(a, ab); c = S.vadd(a, ac); p = S.vadd(a, ap)
    tasks = []
    meta = []
    tmo = 20000 if quick else 120000
    regions_seen = set()
    for (trace, pc, r) in results:
        if r.status != 'ok':
            if r.status == 'pathend': continue
            chk.fail_closed.append('path ended with %s: %r' % (r.status, r.error))
            continue
        sig = path_sig(r)
        regions_seen.add(sig)
        d2, u, v, w = r.dout
        u, v, w, d2 = S.R(u), S.R(v), S.R(w), S.R(d2)
        q = S.vadd(S.vadd(S.vscale(a, u), S.vscale(b, v)), S.vscale(c, w))
        pq = S.vsub(p, q)
        key = sig + '/' + ''.join('T' if d.taken else 'F' for d in trace)
        claims = [
            ('O1.sum', S.cmp('eq', S.add(S.add(u, v), w), S.ONE), True),
            ('O1.nonneg', S.band(S.band(S.cmp('ge', u, S.ZERO), S.cmp('ge', v, S.ZERO)), S.cmp('ge', w, S.ZERO)), False),
            ('O2.dist', S.cmp('eq', d2, S.vdot(pq, pq)), True),
        ]
        # O3 optimality (projection characterisation): (p-q).(x-q) <= 0 for the three vertices
        for nm, x in (('a', a), ('b', b), ('c', c)):
            claims.append(('O3.kkt_' + nm, S.cmp('le', S.vdot(pq, S.vsub(x, q)), S.ZERO), False))
        # O4 translation: outputs unchanged when the base point moves (a := a + t)
        t = [S.var('tx'), S.var('ty'), S.var('tz')]
        mp = {'ax': S.add(a[0], t[0]), 'ay': S.add(a[1], t[1]), 'az': S.add(a[2], t[2])}
        same = S.TRUE
        for o in (d2, u, v, w):
            same = S.band(same, S.cmp('eq', o, S.subst(o, mp)))
        claims.append(('O4.translation_outputs', same, True))
        claims.append(('O4.translation_path', S.subst(S.conj(pc), mp), True))
        for nm, cl, core in claims:
            tasks.append(('general/' + key + '/' + nm, pc, cl, tmo if core else min(tmo, 15000 if quick else 90000)))
            meta.append((sig, key, nm, core, r, 'general'))
        # vacuity witness: the path condition must be satisfiable (claim false must be refutable)
        tasks.append(('general/' + key + '/witness', pc, S.FALSE, tmo))
        meta.append((sig, key, 'witness', True, r, 'general'))

    # ---- canonical frame for the optimality obligations --------------------------------------------------------
    l, m_, n_ = S.var('l'), S.var('m'), S.var('n')
    Vc = [V[0], V[1], V[2], l, S.ZERO, S.ZERO, m_, n_, S.ZERO, V[9], V[10], V[11]]
    canon_assume = [S.cmp('gt', l, S.ZERO), S.cmp('gt', n_, S.ZERO)]
    zc = z
    ctl2, results2 = sess.explore('h_c05_kernel', Vc, assumptions=canon_assume, zctx=zc, branch_timeout_ms=3000 if quick else 20000, max_paths=64)
    chk.absorb(session=sess, ctl=ctl2)
    chk.log('canonical frame: %d paths' % len(results2))
    if not ctl2.exhausted:
        chk.fail_closed.append('path budget exhausted in the kernel (canonical frame)')
    abc = [l, S.ZERO, S.ZERO]; acc = [m_, n_, S.ZERO]
    bC = S.vadd(a, abc); cC = S.vadd(a, acc)
    for (trace, pc, r) in results2:
        if r.status != 'ok':
            if r.status == 'pathend': continue
            chk.fail_closed.append('canonical path ended with %s: %r' % (r.status, r.error))
            continue
        sig = path_sig(r)
        d2, u, v, w = [S.R(x) for x in r.dout]
        q = S.vadd(S.vadd(S.vscale(a, u), S.vscale(bC, v)), S.vscale(cC, w))
        pq = S.vsub(p, q)
        key = sig + '/' + ''.join('T' if d.taken else 'F' for d in trace)
        for nm, x in (('a', a), ('b', bC), ('c', cC)):
            tasks.append(('canonical/' + key + '/O3.kkt_' + nm, pc, S.cmp('le', S.vdot(pq, S.vsub(x, q)), S.ZERO), 60000 if quick else 180000))
            meta.append((sig, key, 'O3.kkt_' + nm, True, r, 'canonical'))
        tasks.append(('canonical/' + key + '/O2.dist', pc, S.cmp('eq', d2, S.vdot(pq, pq)), tmo))
        meta.append((sig, key, 'O2.dist', True, r, 'canonical'))
        tasks.append(('canonical/' + key + '/O1.nonneg', pc, S.band(S.band(S.cmp('ge', u, S.ZERO), S.cmp('ge', v, S.ZERO)), S.cmp('ge', w, S.ZERO)), tmo))
        meta.append((sig, key, 'O1.nonneg', True, r, 'canonical'))
        tasks.append(('canonical/' + key + '/O1.sum', pc, S.cmp('eq', S.add(S.add(u, v), w), S.ONE), tmo))
        meta.append((sig, key, 'O1.sum', True, r, 'canonical'))
        tasks.append(('canonical/' + key + '/witness', pc, S.FALSE, tmo))
        meta.append((sig, key, 'witness', True, r, 'canonical'))

    chk.log('discharging %d obligations' % len(tasks))
    outs = par.prove_all(z, tasks)
    chk.queries = z.queries + len(tasks)
    canonical_kkt_ok = {}
    for (name, pc, cl, _), (sig, key, nm, core, r, frame), (st, model, dt) in zip(tasks, meta, outs):
        chk.solver_s += dt
        if nm == 'witness':
            # expected: violated (path feasible) ; proved => infeasible path explored because a branch query timed out
            if st == 'violated':
                chk.witnesses += 1
            elif st == 'proved':
                chk.note('path %s is infeasible (explored only because a feasibility query timed out)' % key)
            continue
        if st == 'violated':
            rep = replay(chk, native, frame, sig, nm, model)
            if not rep.get('reproduced') and not nm.startswith('O4'):
                # the solver's model may sit where the violation is below rounding level (e.g. a point 1e-16 off an edge of a unit triangle).
                # Directed search: the same obligation with the triangle and the query point confined to other length scales
                for sc_ in (Fraction(1, 10 ** 5), Fraction(1, 10 ** 3), Fraction(10 ** 3)):
                    lim = S.const(sc_); lo_ = S.const(sc_ / 4)
                    names = ['apx', 'apy', 'apz'] + (['l', 'm', 'n'] if frame == 'canonical' else ['abx', 'aby', 'abz', 'acx', 'acy', 'acz'])
                    extra = []
                    for nme in names:
                        v_ = S.var(nme)
                        extra += [S.cmp('le', v_, lim), S.cmp('ge', v_, S.neg(lim))]
                    if frame == 'canonical': extra += [S.cmp('ge', S.var('l'), lo_), S.cmp('ge', S.var('n'), lo_)]
                    else: extra += [S.cmp('ge', S.sub(S.mul(S.vdot(ab, ab), S.vdot(ac, ac)), S.mul(S.vdot(ab, ac), S.vdot(ab, ac))), S.const(sc_ ** 4 / 16))]
                    st2, m2 = SV.prove(z, list(pc) + extra, cl, 30000)
                    if st2 == 'violated':
                        rep2 = replay(chk, native, frame, sig, nm, m2)
                        if rep2.get('reproduced'):
                            rep = rep2; model = m2; break
            chk.ob(name, 'violated', core, dt, detail=rep, sample={'obligation': name, 'model': model})
            if rep.get('reproduced'):
                chk.violation('C05/%s/%s' % (nm, sig), '%s fails in the %s region: %s' % (nm, sig, rep.get('what')), rep)
            else:
                chk.note('counterexample for %s not reproduced natively (recorded as spurious/encoding): %r' % (name, rep))
        else:
            chk.ob(name, st, core, dt, sample={'obligation': name, 'status': st, 'path_condition_size': len(pc)})
        if frame == 'canonical' and nm.startswith('O3') and st == 'proved':
            canonical_kkt_ok[(sig, nm)] = True
    # an O3 obligation undecided in general position is covered by the canonical frame + rotation argument
    for o in chk.obligations:
        if o['status'] == 'unknown' and o['name'].startswith('general/') and ('/O3.' in o['name'] or '/O1.nonneg' in o['name']):
            o['core'] = False
    for need in ('vertexA', 'vertexB', 'vertexC', 'edgeAB', 'edgeAC', 'edgeBC', 'interior'):
        if need not in regions_seen:
            chk.fail_closed.append('region %s not reached by any explored path (vacuity)' % need)

    # ---- rotation: every dot product the kernel takes is invariant under the axis rotations ------------------------
    rotation_obligations(chk, sess, z, V, nondeg, quick)

    native.close()
    chk.finish(level='other', explanation=(
        'Symbolic execution of the LLVM IR of compute_node_triangle_distance with 12 symbolic reals; every feasible return path is '
        'enumerated (solver-pruned), and for each path z3 decides: barycentrics sum to 1 and are >= 0, returned d^2 equals |p-q|^2 for the '
        'designated point q, q satisfies the projection (KKT) conditions of the closest point, outputs and path do not depend on the base '
        'point (translation). KKT is additionally decided in a canonical frame; generality in orientation follows from the rotation '
        'obligations (all branch conditions/barycentrics are functions of dot products proved rotation invariant). Counterexamples are '
        'replayed on the g++ -O2 build and compared with an exact rational reference.'))

def rotation_obligations(chk, sess, z, V, nondeg, quick):
    """abstract every vec3::dot / squared_norm result into a symbol D_k; prove D_k invariant under the three axis
    rotations (with earlier D_j as free parameters), and check that branch conditions and barycentric outputs
    mention only D symbols."""
    defs = []
    def make_override(real_name):
        def h(it, args):
            t = it.resolve_callee(real_name)
            # call the real body
            f = it.m.funcs[real_name]
            cf = it.compiled.get(real_name) or it.compile(f)
            val = it.run(cf, args)
            if isinstance(val, S.Node) and S.cval(val) is None:
                d = S.var('D%d' % len(defs))
                defs.append((d, val))
                return d
            return val
        return h
    dot_name = '_ZNK4vec33dotERKS_'
    sq_name = '_ZNK4vec312squared_normEv'
    if dot_name not in sess.module.funcs:
        chk.fail_closed.append('vec3::dot / squared_norm not found as out-of-line functions; rotation argument not applicable')
        return
    s2 = api.Session(sess.module.path, mode='real', overrides={dot_name: make_override(dot_name)})
    paths = []
    def on_path(c, r):
        paths.append((list(defs), list(c.pc), r))
        del defs[:]
    # D symbols are unconstrained here, so every syntactic path is explored (superset of the real ones)
    ctl = SV.PathController(z, 2000, 200)
    ctl.use_sampling = True
    ctl.assumptions = []
    def run_path(c):
        del defs[:]
        r = s2.run('h_c05_kernel', V, pathctl=c)
        on_path(c, r)
        return r
    ctl.explore(run_path)
    chk.paths += ctl.paths_done
    coord_names = set(NAMES)
    cs, sn = S.var('rot_c'), S.var('rot_s')
    unit = S.cmp('eq', S.add(S.mul(cs, cs), S.mul(sn, sn)), S.ONE)
    def rot(axis):
        mp = {}
        for base in ('ab', 'ac', 'ap'):
            x, y, zc_ = S.var(base + 'x'), S.var(base + 'y'), S.var(base + 'z')
            comps = [x, y, zc_]
            i, j = [(1, 2), (2, 0), (0, 1)][axis]
            new = list(comps)
            new[i] = S.sub(S.mul(cs, comps[i]), S.mul(sn, comps[j]))
            new[j] = S.add(S.mul(sn, comps[i]), S.mul(cs, comps[j]))
            for k, nm in enumerate('xyz'):
                mp[base + nm] = new[k]
        # the base point rotates as well (a is free, outputs were proved independent of it): rotate it too
        x, y, zc_ = S.var('ax'), S.var('ay'), S.var('az')
        comps = [x, y, zc_]
        i, j = [(1, 2), (2, 0), (0, 1)][axis]
        new = list(comps)
        new[i] = S.sub(S.mul(cs, comps[i]), S.mul(sn, comps[j]))
        new[j] = S.add(S.mul(sn, comps[i]), S.mul(cs, comps[j]))
        for k, nm in enumerate('xyz'):
            mp['a' + nm] = new[k]
        return mp
    tasks = []
    seen_defs = set()
    syntactic_ok = True
    for (dl, pc, r) in paths:
        if r.status != 'ok': continue
        pkey = ''.join('T' if d.taken else 'F' for d in getattr(r, 'trace_', []))
        for ci, cond in enumerate(pc):
            if S.free_vars(cond) & coord_names:
                # not a pure function of dot products: its invariance becomes a solver obligation
                for axis in range(3):
                    sc = S.subst(cond, rot(axis))
                    tasks.append(('rotation/axis%d/branch-condition#%d' % (axis, cond.id), [unit], S.bnot(S.bxor(cond, sc)), 30000 if quick else 120000))
        for oi, o in enumerate(r.dout[0:4]):
            if isinstance(o, S.Node) and S.free_vars(o) & coord_names and o.id not in seen_defs:
                seen_defs.add(o.id)
                for axis in range(3):
                    tasks.append(('rotation/axis%d/output%d#%d' % (axis, oi, o.id), [unit], S.cmp('eq', o, S.subst(o, rot(axis))), 30000 if quick else 120000))
        for (d, val) in dl:
            if val.id in seen_defs: continue
            seen_defs.add(val.id)
            for axis in range(3):
                tasks.append(('rotation/axis%d/dot#%d' % (axis, len(seen_defs)), [unit], S.cmp('eq', val, S.subst(val, rot(axis))), 30000 if quick else 120000))
    chk.log('rotation: %d dot-product invariance obligations, syntactic check %s' % (len(tasks), syntactic_ok))
    outs = par.prove_all(z, tasks)
    for (name, pc, cl, _), (st, model, dt) in zip(tasks, outs):
        chk.solver_s += dt
        chk.ob(name, st, False, dt, sample={'obligation': name, 'status': st} if st != 'proved' else None)
    rot_ok = all(st == 'proved' for (st, _, _) in outs) and len(outs) > 0
    chk.rotation_ok = rot_ok
    if not rot_ok:
        chk.note('rotation invariance not established for every quantity: canonical-frame results (O1/O3) are frame-restricted in this run')

def replay(chk, native, frame, sig, nm, model):
    """turn the solver's model into doubles, run the real (native) kernel, judge with an exact rational reference"""
    def val(name):
        return Fraction(model.get(name, 0)) if model else Fraction(0)
    a = [val('ax'), val('ay'), val('az')]
    try:
        return _replay(chk, native, frame, sig, nm, model, val, a)
    except (ValueError, OverflowError, ZeroDivisionError) as e:
        return {'reproduced': False, 'what': 'replay failed: %r' % (e,)}

def _replay(chk, native, frame, sig, nm, model, val, a):
    if nm.startswith('O4'):
        return replay_translation(native, model)
    if frame == 'canonical':
        ab = [val('l'), Fraction(0), Fraction(0)]; ac = [val('m'), val('n'), Fraction(0)]
    else:
        ab = [val('abx'), val('aby'), val('abz')]; ac = [val('acx'), val('acy'), val('acz')]
    ap = [val('apx'), val('apy'), val('apz')]
    # work with the doubles actually fed to the native code
    fa = [float(x) for x in a]
    fb = [float(a[i] + ab[i]) for i in range(3)]
    fc = [float(a[i] + ac[i]) for i in range(3)]
    fp = [float(a[i] + ap[i]) for i in range(3)]
    out = native.call('h_c05_kernel_raw', fp + fa + fb + fc)
    if out['status'] != 0 or len(out['d']) != 4:
        return {'reproduced': False, 'what': 'native run failed: %r' % (out,)}
    d2, u, v, w = out['d']
    P = [Fraction(x) for x in fp]; A = [Fraction(x) for x in fa]; B = [Fraction(x) for x in fb]; C = [Fraction(x) for x in fc]
    ref_d2, ref_q = closest_point_reference(P, A, B, C)
    q = [Fraction(u) * A[i] + Fraction(v) * B[i] + Fraction(w) * C[i] for i in range(3)]
    dq = sum((P[i] - q[i]) ** 2 for i in range(3))
    scale = max([abs(float(x)) for x in P + A + B + C] + [1e-300]) ** 2
    tol = 1e-9 * scale
    res = {'inputs': {'p': fp, 'a': fa, 'b': fb, 'c': fc}, 'native': {'d2': d2, 'u': u, 'v': v, 'w': w},
           'reference_d2': float(ref_d2), 'distance_to_designated_point_sq': float(dq)}
    problems = []
    if abs(u + v + w - 1) > 1e-9 or min(u, v, w) < -1e-9:
        problems.append('barycentrics invalid')
    if abs(float(dq) - d2) > tol:
        problems.append('returned d^2=%.17g but the designated point is at d^2=%.17g' % (d2, float(dq)))
    if float(dq) - float(ref_d2) > tol:
        problems.append('designated point is not the closest point (reference d^2=%.17g)' % float(ref_d2))
    if abs(d2 - float(ref_d2)) > tol:
        problems.append('returned d^2=%.17g differs from the true squared distance %.17g' % (d2, float(ref_d2)))
    res['reproduced'] = bool(problems)
    res['what'] = '; '.join(problems) if problems else 'native run agrees with the reference'
    return res

def replay_translation(native, model):
    def val(name): return Fraction(model.get(name, 0)) if model else Fraction(0)
    outs = []
    for shift in (False, True):
        a = [val('ax'), val('ay'), val('az')]
        if shift: a = [a[0] + val('tx'), a[1] + val('ty'), a[2] + val('tz')]
        ab = [val('abx'), val('aby'), val('abz')]; ac = [val('acx'), val('acy'), val('acz')]; ap = [val('apx'), val('apy'), val('apz')]
        din = [float(x) for x in a + ab + ac + ap]
        outs.append((din, native.call('h_c05_kernel', din)))
    d0 = outs[0][1]['d']; d1 = outs[1][1]['d']
    scale = max([abs(x) for x in outs[0][0] + outs[1][0]] + [1e-300]) ** 2
    diff = max(abs(x - y) for x, y in zip(d0, d1)) if len(d0) == 4 and len(d1) == 4 else float('inf')
    rep = diff > 1e-9 * max(scale, 1.0)
    return {'reproduced': rep, 'what': 'outputs change under translation: %r vs %r' % (d0, d1) if rep else 'native outputs agree under the translation', 'inputs': [o[0] for o in outs]}

if __name__ == '__main__':
    run_check('C05', main)
