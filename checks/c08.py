#!/usr/bin/env python3
"""C08 — identities and cross-references stay valid as the population changes: the real solver constructor and
run_iteration (contact phase, polarisation, forces, integrator, removal, cell_divider::run with divide_cell replaced by
its contract) run in irsym on small tissues over histories of removals (enumerated schedule) and divisions (decided
symbolically through per-cell division volumes).  After every iteration an oracle checks list indices, id uniqueness,
couplings, owner pointers and face-type indices; irsym's memory monitors check every dereference in between."""
import itertools
import os
import random
import sys

sys.path.insert(0, os.path.dirname(os.path.dirname(os.path.abspath(__file__))))
from checks.framework import run_check
from irsym import api, build, envstubs, sym as S, solver as SV, par
from checks.c10 import valgrind_replay

def parse_population(d, i, dp, ip, contact=1):
    nc = i[ip]; ip += 1
    cells = []
    for c in range(nc):
        cid, lid, typ, nn, nf = i[ip:ip + 5]; ip += 5
        vol, tv, pr, ar = d[dp:dp + 4]; dp += 4
        nodes = []
        for n in range(nn):
            used = i[ip]; ip += 1
            pos = d[dp:dp + 3]; dp += 3
            if contact == 1:
                cp = tuple(i[ip:ip + 3]); ip += 3
            else:
                cp = (0, -1, -1)        # only contact model 1 stores (cell, node) couplings in the nodes
            fzero = i[ip]; ip += 1
            nodes.append({'used': used, 'pos': pos, 'coupled': cp, 'force_zero': fzero})
        faces = []
        for f in range(nf):
            used, ft, owner_id, owner_ok = i[ip:ip + 4]; ids = tuple(i[ip + 4:ip + 7]); ip += 7
            faces.append({'used': used, 'type': ft, 'owner_id': owner_id, 'owner_ok': owner_ok, 'ids': ids})
        cells.append({'id': cid, 'local_id': lid, 'type': typ, 'nodes': nodes, 'faces': faces, 'volume': vol})
    return cells, dp, ip

def population_problems(cells, nft_of_type, seen_ids, step, check_couplings=True):
    probs = []
    ids = [c['id'] for c in cells]
    if len(set(ids)) != len(ids): probs.append('duplicate persistent cell ids %r' % (ids,))
    for k, c in enumerate(cells):
        if c['local_id'] != k: probs.append('cell at list position %d carries index %d' % (k, c['local_id']))
        if step >= 1 and c['type'] not in (1, 4):        # ECM and static cells are not integrated and keep their forces
            left = [n for n, nd in enumerate(c['nodes']) if nd['used'] and not nd.get('force_zero', 1)]
            if left: probs.append('%d node(s) of cell %d (e.g. node %d) still carry a force after the iteration: they were not integrated (a coupling designated the wrong cell or no cell)' % (len(left), k, left[0]))
        for n, nd in enumerate(c['nodes']):
            if not nd['used']: continue
            has, pc, pn = nd['coupled']
            if has and check_couplings:
                if not (0 <= pc < len(cells)): probs.append('node %d of cell %d coupled to cell index %d (population size %d)' % (n, k, pc, len(cells)))
                elif not (0 <= pn < len(cells[pc]['nodes'])) or not cells[pc]['nodes'][pn]['used']:
                    probs.append('node %d of cell %d coupled to non-existent/dead node %d of cell %d' % (n, k, pn, pc))
                else:
                    back = cells[pc]['nodes'][pn]['coupled']
                    if pc == k: probs.append('node %d of cell %d coupled to its own cell' % (n, k))
                    elif not back[0] or (back[1], back[2]) != (k, n): probs.append('coupling of node %d of cell %d to (%d,%d) is not mutual (partner says %r)' % (n, k, pc, pn, back))
        for f, fc in enumerate(c['faces']):
            if not fc['used']: continue
            if not fc['owner_ok']: probs.append('face %d of cell %d has owner pointer to another cell (id %d)' % (f, k, fc['owner_id']))
            lim = nft_of_type.get(c['type'])
            if lim is not None and fc['type'] >= lim: probs.append('face %d of cell %d has face-type index %d but the cell type has %d face types' % (f, k, fc['type'], lim))
    for cid in ids:
        pass
    return probs

def main(chk):
    quick = chk.tier == 'quick'
    ir = build.build_ir(['h_sim.cpp'])
    nat = build.build_native(['h_sim.cpp'])
    native = api.Native(nat)
    ir0 = build.build_ir(['h_sim.cpp'], contact=0)
    nat0 = build.build_native(['h_sim.cpp'], contact=0)
    native0 = api.Native(nat0)
    chk.trusted += ['clang lowering validated per run (whole iterations, bitwise)', 'irsym incl. OpenMP runtime model (sequential semantics) and std::string / filesystem / writer stubs',
                    'cell_divider::divide_cell replaced by its contract (two fresh cells of the mother\'s class or none); the real divide_cell is the subject of C09']
    chk.assumptions += ['tissue geometry concrete (tetrahedra / octahedra in a row so that neighbouring epithelial cells couple)', 'removals follow an enumerated schedule (a chosen cell falls below its minimum volume in a chosen iteration); divisions are decided by symbolic division volumes']
    nsteps = 3
    base_dyn = [0.001, 1.0, 0.3, 0.25, 0.25, 0.01, 1.0, 0, 0, 0]
    def tissue(nc, nft, kinds=None, classes=None, gap=1.15):
        din = list(base_dyn)
        for c in range(nc):
            din += [1.0, gap * c, 0.05 * c, 0.0, 0.001, 1e9, 0.0]
        return din, (kinds or [0] * nc), (classes or [0] * nc), [nft] * nc
    scenarios = []
    # removal histories: which cell (initial numbering) disappears in which iteration
    for nc in ([3] if quick else [3, 4]):
        for victim in range(nc):
            for it_ in ([0] if quick else [0, 1]):
                sched = [[1 if (k == it_ and c == victim) else 0 for c in range(nc)] for k in range(nsteps)]
                scenarios.append({'name': '%d epithelial cells, cell %d removed in iteration %d' % (nc, victim, it_), 'nc': nc, 'nft': 2, 'sched': sched, 'sym_div': False})
    scenarios.append({'name': '3 epithelial cells, no event (control)', 'nc': 3, 'nft': 2, 'sched': [[0] * 3 for _ in range(nsteps)], 'sym_div': False})
    scenarios.append({'name': '3 epithelial cells with a single face type, no event', 'nc': 3, 'nft': 1, 'sched': [[0] * 3 for _ in range(nsteps)], 'sym_div': False})
    # face-type indices written by the polarisation rules of epithelial cells (0 apical, 1 lateral, 2 basal) against the number of face types of the cell type
    scenarios.append({'name': 'epithelial tetrahedron with two face types overlapping an ECM octahedron, no event', 'nc': 2, 'nft': 2, 'sched': [[0] * 2 for _ in range(nsteps)], 'sym_div': False,
                      'kinds': [0, 1], 'classes': [0, 1], 'gap': 0.3})
    scenarios.append({'name': 'contact model 0: epithelial tetrahedron with two face types overlapping an ECM octahedron, no event', 'nc': 2, 'nft': 2, 'sched': [[0] * 2 for _ in range(nsteps)], 'sym_div': False,
                      'kinds': [0, 1], 'classes': [0, 1], 'gap': 0.3, 'contact': 0})
    scenarios.append({'name': 'contact model 0: epithelial tetrahedron with three face types overlapping an ECM octahedron, no event', 'nc': 2, 'nft': 3, 'sched': [[0] * 2 for _ in range(nsteps)], 'sym_div': False,
                      'kinds': [0, 1], 'classes': [0, 1], 'gap': 0.3, 'contact': 0})
    scenarios.append({'name': 'epithelial tetrahedron with three face types overlapping an ECM octahedron, no event', 'nc': 2, 'nft': 3, 'sched': [[0] * 2 for _ in range(nsteps)], 'sym_div': False,
                      'kinds': [0, 1], 'classes': [0, 1], 'gap': 0.3})
    scenarios.append({'name': '2 epithelial cells, symbolic division volumes (every subset of divisions in iteration 0)', 'nc': 2, 'nft': 2, 'sched': [[0] * 2 for _ in range(nsteps)], 'sym_div': True})
    if not quick:
        scenarios.append({'name': '3 epithelial cells, symbolic division volumes, cell 1 removed in iteration 0', 'nc': 3, 'nft': 2, 'sched': [[0, 1, 0]] + [[0] * 3] * (nsteps - 1), 'sym_div': True})
    chk.bounds = {'scenarios': [s['name'] for s in scenarios], 'iterations': nsteps, 'cells': '<= 4 (plus daughters)', 'contact model': 1,
                  'outside': 'real divisions (stubbed), more than 4 cells, histories longer than 3 iterations, contact models 0 and 2'}
    ov = {}
    ov.update(envstubs.fs_stubs()); ov.update(envstubs.writer_stubs()); ov.update(envstubs.divide_stub())
    def setup(it): it.strict_undef = False

    # translator validation on the control scenario
    sc = api.Session(ir, mode='ieee', overrides=ov, setup=setup)
    din, kinds, classes, nfts = tissue(3, 2)
    iin = [3, 2] + kinds + classes + nfts + [0] * 6
    r = sc.run('h_sim', din, iin); q = native.call('h_sim', din, iin)
    ok = r.status == 'ok' and r.iout == q['i'] and len(r.dout) == len(q['d']) and all(api.same_double(a, b) for a, b in zip(r.dout, q['d']))
    chk.validation = {'programs': 1, 'inputs': 1, 'mismatches': 0 if ok else 1}
    if not ok: chk.note('translator validation mismatch on the control scenario: %r' % ((r.status, r.error),))
    chk.functions |= sc.functions_called

    def work(si):
        sce = scenarios[si]
        nc = sce['nc']
        din, kinds, classes, nfts = tissue(nc, sce['nft'], sce.get('kinds'), sce.get('classes'), sce.get('gap', 1.15))
        iin = [nc, nsteps] + kinds + classes + nfts + [v for row in sce['sched'] for v in row]
        out = {'paths': []}
        if sce['sym_div']:
            dv = [S.var('divvol%d' % c) for c in range(nc)]
            for c in range(nc): din[10 + 7 * c + 5] = dv[c]
            s2 = api.Session(ir, mode='real', overrides=ov, setup=setup); z2 = SV.Z3Ctx()
            ctl, res = s2.explore('h_sim', din, iin, assumptions=[S.cmp('gt', v, S.ZERO) for v in dv], zctx=z2, max_paths=40, branch_timeout_ms=3000)
            out['exhausted'] = ctl.exhausted
        else:
            s2 = api.Session(ir0 if sce.get('contact') == 0 else ir, mode='ieee', overrides=ov, setup=setup)
            r = s2.run('h_sim', din, iin)
            res = [([], [], r)]
            out['exhausted'] = True
            z2 = None
        for (tr, pc, r) in res:
            st = getattr(r, 'status', None)
            if st == 'pathend': continue
            item = {'key': ''.join('T' if d.taken else 'F' for d in tr if not d.forced) or '-', 'status': st, 'reports': [], 'problems': []}
            reps = list(getattr(r, 'mem_reports', []))
            if st == 'memory': reps.append(r.error)
            item['reports'] = [(k, m, w) for (k, m, w) in reps]
            if st not in ('ok', 'memory'):
                item['error'] = repr(getattr(r, 'error', None))[:300]
            model = None
            if z2 is not None:
                stt, model = SV.satisfiable(z2, pc, 10000)
                item['witness'] = stt
            item['din'] = [float(model.get('divvol%d' % c, 1)) if (model and isinstance(x, S.Node)) else (1.0 if isinstance(x, S.Node) else x) for c, x in [(0, v) for v in din]] if False else None
            dd = list(din)
            for c in range(nc):
                if isinstance(dd[10 + 7 * c + 5], S.Node):
                    dd[10 + 7 * c + 5] = float(model.get('divvol%d' % c, 1.0)) if model else 1.0
            item['din'] = dd; item['iin'] = iin
            if st in ('ok', 'memory') and all(type(v) is int for v in r.iout):
                dp = ip = 0
                step = 0
                seen = set()
                nft_of_type = {t: sce['nft'] for t in range(5)}
                try:
                    prev_n = None
                    while ip < len(r.iout):
                        cells, dp, ip = parse_population(r.dout, r.iout, dp, ip, sce.get('contact', 1))
                        # couplings written by the contact phase of an iteration whose removal step dropped a cell are dangling until the
                        # next contact phase resets them and are never dereferenced in between (the memory monitors watch every dereference):
                        # they are examined at the dump only if the population did not shrink in that iteration
                        shrunk = prev_n is not None and len(cells) < prev_n
                        # a removal scheduled for the iteration that produced this dump (divisions in the same iteration can hide the shrinkage)
                        if step >= 1 and step - 1 < len(sce['sched']) and any(sce['sched'][step - 1]): shrunk = True
                        prev_n = len(cells)
                        for p in population_problems(cells, nft_of_type, seen, step, check_couplings=not shrunk):
                            item['problems'].append((step, p))
                        ids = {c['id'] for c in cells}
                        item.setdefault('id_history', []).append(sorted(ids))
                        step += 1
                except Exception as e:
                    item['parse_error'] = repr(e)
                # ids never reused: an id that disappeared must not come back
                hist = item.get('id_history', [])
                gone = set()
                for a, b in zip(hist, hist[1:]):
                    gone |= set(a) - set(b)
                    back = gone & set(b)
                    if back: item['problems'].append((0, 'persistent ids %r reappear after having left the population' % sorted(back)))
                item['ncells'] = [len(h) for h in hist]
            out['paths'].append(item)
        out['functions'] = s2.functions_called
        return out

    results = par.pmap(work, len(scenarios))
    for sce, res in zip(scenarios, results):
        chk.functions |= res['functions']
        if not res.get('exhausted', True): chk.fail_closed.append(sce['name'] + ': path budget exhausted')
        if not res['paths']: chk.fail_closed.append(sce['name'] + ': no path')
        for item in res['paths']:
            chk.paths += 1
            tag = '%s/path %s' % (sce['name'], item['key'])
            if item.get('witness') == 'unsat': continue
            if item.get('witness') == 'sat' or 'witness' not in item: chk.witnesses += 1
            if item['status'] not in ('ok', 'memory'):
                chk.fail_closed.append(tag + ': ' + item['status'] + ' ' + item.get('error', '')); continue
            probs = item['problems']; reps = item['reports']
            nm = tag + '/indices = list positions, ids unique and never reused, couplings/owners/face-type indices designate live objects (populations %r)' % (item.get('ncells'),)
            if not probs and not reps:
                chk.ob(nm, 'proved', True, 0, sample={'obligation': nm, 'status': 'oracle and memory monitors found nothing'} if len(chk.samples) < 6 else None)
                continue
            rep = replay(native0, nat0, item, sce) if sce.get('contact') == 0 else replay(native, nat, item, sce)
            what = '; '.join(['iteration %d: %s' % p for p in probs[:3]] + ['%s: %s (%s)' % (k, m, (w or '')[:120]) for (k, m, w) in reps[:2]])
            chk.ob(nm, 'violated' if rep['reproduced'] else 'unknown', True, 0, detail={'problems': probs[:5], 'memory_reports': reps[:3], 'replay': rep})
            if rep['reproduced']:
                ft_native = 'face-type index' in (rep.get('what') or '')
                kind = 'stale-list-index' if any('list position' in p[1] for p in probs) else ('face-type-index' if (ft_native or any('face-type index' in p[1] for p in probs)) else ('memory' if reps else 'cross-reference'))
                if kind == 'face-type-index': kind = 'face-type-index/epithelial face labelled basal (2) or lateral (1) although its cell type has fewer face types'
                chk.violation('C08/%s' % kind, '%s: %s' % (tag, what), rep)
    native.close(); native0.close()
    chk.finish(level='other', explanation=(
        'The real solver (constructor, run_iteration x3: division pass with the divide_cell contract, refinement, contact model 1, polarisation, internal forces, integrator, removal) is executed '
        'by irsym on row tissues of 2-4 epithelial tetrahedra. Removal histories are enumerated; which cells divide is decided by z3 through symbolic division volumes. After each iteration an oracle '
        'checks list index = position, id uniqueness/no reuse, mutual couplings to live nodes of existing cells, owner pointers, face-type index < number of face types; the memory monitors check every dereference in between. '
        'Findings are replayed on the native build (oracle on its dump, valgrind for invalid reads).'))

def replay(native, nat, item, sce):
    q = native.call('h_sim', item['din'], item['iin'])
    probs = []
    if q['status'] == 'crash':
        probs.append('native run crashed (rc %r)' % q.get('rc'))
    elif q['status'] == 0 and q['i']:
        dp = ip = 0; step = 0
        try:
            prev_n = None
            while ip < len(q['i']):
                cells, dp, ip = parse_population(q['d'], q['i'], dp, ip, sce.get('contact', 1))
                shrunk = prev_n is not None and len(cells) < prev_n
                if step >= 1 and step - 1 < len(sce['sched']) and any(sce['sched'][step - 1]): shrunk = True
                prev_n = len(cells)
                probs += ['iteration %d: %s' % (step, p) for p in population_problems(cells, {t: sce['nft'] for t in range(5)}, set(), step, check_couplings=not shrunk)]
                step += 1
        except Exception as e:
            probs.append('native dump unreadable: %r' % (e,))
    vg = None
    if not probs and item['reports']:
        vg = valgrind_replay(nat, 'h_sim', item['din'], item['iin'])
        if vg.get('kinds'): probs.append('valgrind: ' + vg.get('first', ''))
    return {'reproduced': bool(probs), 'what': '; '.join(probs[:3]) if probs else 'native run passes the oracle', 'din': item['din'], 'iin': item['iin'], 'valgrind': vg}

if __name__ == '__main__':
    run_check('C08', main)
