#!/usr/bin/env python3
"""C09 — the deterministic kernels of cell division.  End-to-end divide_cell (clock-seeded Poisson sampling, Delaunay triangulation,
remeshing of the daughters) is not encodable within reach; what is decided, on the real code from the LLVM IR in exact reals with z3:
  K1 find_edge_plane_intersection: a returned point lies on the plane and on the segment; 'no intersection' is returned only when the
     end points are not strictly on opposite sides of the plane (every edge/plane position, plane through an end point included);
  K3 add_point_to_face + divide_faces on two triangles sharing a cut edge, with symbolic (distinct) node ids and every structure of the
     cut (stored rotation of each face, which second edge is cut, insertion order): the six triangles tile the two cut triangles, keep
     the orientation, share the new diagonals in opposite directions, and the shared cut edge stays shared;
  K2 map_points_to_xy_plane + map_points_to_division_plane as divide_cell composes them, for EVERY unit division axis (axis-aligned
     directions in both senses are separate paths or special points of the same formulas): the rotation is orthonormal and takes the
     axis to +z, in-plane distances of the interface points are preserved, the round trip restores the interface points, and points
     created in the xy plane (z = 0, as triangulate_division_interface creates them) come back INTO the division plane through the
     interface centroid with their in-plane distances preserved.
The axis (0,0,-1) makes the quaternion (0,0,0,0): reported as an observation (division by zero on that path), see DESIGN.md.
Population bookkeeping of cell_divider::run (mother replaced by two cells, fresh ids, list indices) is decided in C08 with divide_cell
replaced by its contract."""
import os
import sys
import time
from fractions import Fraction

sys.path.insert(0, os.path.dirname(os.path.dirname(os.path.abspath(__file__))))
from checks.framework import run_check
from irsym import api, build, sym as S, solver as SV, par

def vsub(a, b): return [S.sub(x, y) for x, y in zip(a, b)]
def vdot(a, b):
    r = S.ZERO
    for x, y in zip(a, b): r = S.add(r, S.mul(x, y))
    return r
def R_(x): return S.R(x)

def main(chk):
    quick = chk.tier == 'quick'
    ir = build.build_ir(['h_divide.cpp'])
    nat = build.build_native(['h_divide.cpp'])
    native = api.Native(nat)
    tmo = 30000 if quick else 120000
    chk.trusted += ['clang -O1 lowering (validated per run)', 'irsym', 'z3 (nonlinear real arithmetic, sqrt as algebraic definition), polynomial normaliser']
    chk.assumptions += ['K2: |axis| = 1; the interface points lie in one plane orthogonal to the axis (what add_intersection_points produces, K1); axis != (0,0,-1)',
                        'exact reals (rounding outside the claim)']
    chk.bounds = {'K1': 'all reals', 'K2': '%s interface points, %s new points' % ('2-3' if quick else '2-4', '1' if quick else '1-2'),
                  'outside': 'Poisson sampling, Delaunay triangulation of the interface, create_daughter_cells, the no-throw guarantee of divide_cell, daughter quality; population bookkeeping is C08'}
    # ---- validation ------------------------------------------------------------------------------------------------------------------
    import random, math
    rnd = random.Random(17 + chk.seed)
    sc = api.Session(ir, mode='ieee')
    nval = mism = 0
    for k in range(60 if quick else 200):
        d = [rnd.uniform(-2, 2) for _ in range(12)]
        if k % 5 == 0: d[9:12] = [0.0, 0.0, 1.0]
        if k % 7 == 0: d[3:6] = [d[0], d[1], d[2] + 1.0]
        r = sc.run('h_c09_edge', d, []); q = native.call('h_c09_edge', d, [])
        nval += 1
        if r.status != 'ok' or r.iout != q['i'] or not all(api.same_double(a, b) for a, b in zip(r.dout, q['d'])): mism += 1
    for k in range(40 if quick else 120):
        n = [rnd.gauss(0, 1) for _ in range(3)]
        if k % 6 == 0: n = [0.0, 0.0, 1.0]
        if k % 6 == 1: n = [1.0, 0.0, 0.0]
        if k % 6 == 2: n = [0.0, -1.0, 0.0]
        nn = math.sqrt(sum(x * x for x in n)); n = [x / nn for x in n]
        K = rnd.choice([2, 3, 4]); M = rnd.choice([0, 1, 2])
        d = n + [rnd.uniform(-3, 3) for _ in range(3 * K + 2 * M)]
        r = sc.run('h_c09_map', d, [K, M]); q = native.call('h_c09_map', d, [K, M])
        nval += 1
        if r.status != 'ok' or len(r.dout) != len(q['d']) or not all(api.same_double(a, b) for a, b in zip(r.dout, q['d'])):
            mism += 1; chk.note('validation mismatch h_c09_map n=%r: %r' % (n, (r.status, getattr(r, 'error', None))))
    chk.validation = {'programs': 2, 'inputs': nval, 'mismatches': mism}
    chk.functions |= sc.functions_called

    # ---- K1 ----------------------------------------------------------------------------------------------------------------------------
    z = SV.Z3Ctx()
    V = [S.var(nm) for nm in ('e1x', 'e1y', 'e1z', 'e2x', 'e2y', 'e2z', 'px', 'py', 'pz', 'nx', 'ny', 'nz')]
    e1, e2, p, n = V[0:3], V[3:6], V[6:9], V[9:12]
    sess = api.Session(ir, mode='real')
    ctl, res = sess.explore('h_c09_edge', V, [], zctx=z, max_paths=20, branch_timeout_ms=10000)
    chk.absorb(session=sess, ctl=ctl)
    if not ctl.exhausted: chk.fail_closed.append('K1: path budget exhausted')
    s1 = vdot(n, vsub(e1, p)); s2 = vdot(n, vsub(e2, p))
    jobs = []
    for (tr, pc, r) in res:
        if getattr(r, 'status', None) == 'pathend': continue
        if r.status != 'ok': chk.fail_closed.append('K1 path: %s %r' % (r.status, getattr(r, 'error', None))); continue
        key = 'K1 find_edge_plane_intersection/path ' + ''.join('T' if d.taken else 'F' for d in tr)
        if r.iout[0] == 1:
            x = [R_(v) for v in r.dout[:3]]
            onplane = S.cmp('eq', vdot(n, vsub(x, p)), S.ZERO)
            d1 = vsub(x, e1); d2 = vsub(x, e2); ed = vsub(e2, e1)
            cr = S.vcross(d1, ed)
            online = S.band(S.band(S.cmp('eq', cr[0], S.ZERO), S.cmp('eq', cr[1], S.ZERO)), S.cmp('eq', cr[2], S.ZERO))
            between = S.cmp('le', vdot(d1, d2), S.ZERO)
            jobs.append((key + '/returned point lies on the plane', pc, onplane, tmo, 'edge', 'point off the plane'))
            jobs.append((key + '/returned point lies on the line of the edge', pc, online, tmo, 'edge', 'point off the edge line'))
            jobs.append((key + '/returned point lies between the end points', pc, between, tmo, 'edge', 'point outside the segment'))
            chk.witnesses += 1
        else:
            jobs.append((key + '/no intersection is reported only if the end points are not strictly on opposite sides', pc, S.bnot(S.cmp('lt', S.mul(s1, s2), S.ZERO)), tmo, 'edge', 'crossing edge reported as not intersecting'))

    # ---- K2 ----------------------------------------------------------------------------------------------------------------------------
    N = [S.var('n%d' % k) for k in range(3)]
    unit = S.cmp('eq', vdot(N, N), S.ONE)
    shapes = [(2, 1), (3, 1)] if quick else [(2, 1), (3, 1), (3, 2), (4, 1)]
    for (K, M) in shapes:
        PT = [[S.var('q%d_%d' % (i, k)) for k in range(3)] for i in range(K)]
        NW = [[S.var('w%d_%d' % (j, k)) for k in range(2)] for j in range(M)]
        inplane = [S.cmp('eq', vdot(N, vsub(PT[i], PT[0])), S.ZERO) for i in range(1, K)]
        pre = [unit] + inplane + [S.cmp('ne', S.add(S.ONE, N[2]), S.ZERO)]
        din = N + [c for q_ in PT for c in q_] + [c for w in NW for c in w]
        sess2 = api.Session(ir, mode='real')
        ctl2, res2 = sess2.explore('h_c09_map', din, [K, M], assumptions=pre, zctx=z, max_paths=20, branch_timeout_ms=10000)
        chk.absorb(session=sess2, ctl=ctl2)
        if not ctl2.exhausted: chk.fail_closed.append('K2 (%d,%d): path budget exhausted' % (K, M))
        for (tr, pc, r) in res2:
            if getattr(r, 'status', None) == 'pathend': continue
            if r.status != 'ok': chk.fail_closed.append('K2 path: %s %r' % (r.status, getattr(r, 'error', None))); continue
            stw, _m = SV.satisfiable(z, pc, 10000)
            if stw == 'unsat': continue
            if stw == 'sat': chk.witnesses += 1
            cond = ' and '.join(S.show(c, 3) for c in pc[len(pre):]) or 'always'
            key = 'K2 map to xy plane and back, %d interface + %d new points/axis case [%s]' % (K, M, cond)
            d = [R_(v) for v in r.dout]
            tl = d[0:3]; Rm = [d[3:6], d[6:9], d[9:12]]
            XY = [d[12 + 3 * i:15 + 3 * i] for i in range(K)]
            BK = [d[12 + 3 * K + 3 * i:15 + 3 * K + 3 * i] for i in range(K + M)]
            rest = d[12 + 3 * K + 3 * (K + M):]
            cen = [S.div(sum_(PT, k), S.const(K)) for k in range(3)]
            # O1 rotation orthonormal, axis -> +z
            cl = S.TRUE
            for a in range(3):
                for b in range(a, 3):
                    cl = S.band(cl, S.cmp('eq', vdot(Rm[a], Rm[b]), S.ONE if a == b else S.ZERO))
            jobs.append((key + '/rotation matrix is orthonormal', pc, cl, tmo, 'map', 'rotation not orthonormal'))
            Rn = [vdot(Rm[a], N) for a in range(3)]
            jobs.append((key + '/rotation takes the division axis to +z', pc, S.band(S.band(S.cmp('eq', Rn[0], S.ZERO), S.cmp('eq', Rn[1], S.ZERO)), S.cmp('eq', Rn[2], S.ONE)), tmo, 'map', 'axis not mapped to +z'))
            # O2 flattened and isometric on the interface
            cl = S.TRUE
            for i in range(K): cl = S.band(cl, S.cmp('eq', XY[i][2], S.ZERO))
            jobs.append((key + '/interface points land in z = 0', pc, cl, tmo, 'map', 'interface not flattened'))
            for i in range(K):
                for j in range(i + 1, K):
                    dd = vsub(PT[i], PT[j])
                    cl = S.cmp('eq', S.add(S.mul(S.sub(XY[i][0], XY[j][0]), S.sub(XY[i][0], XY[j][0])), S.mul(S.sub(XY[i][1], XY[j][1]), S.sub(XY[i][1], XY[j][1]))), vdot(dd, dd))
                    jobs.append((key + '/distance of interface points %d and %d preserved in the xy plane' % (i, j), pc, cl, tmo, 'map', 'interface distorted by the mapping', K == 2))
            # O3 round trip
            cl = S.TRUE
            for i in range(K):
                for k in range(3): cl = S.band(cl, S.cmp('eq', BK[i][k], PT[i][k]))
            jobs.append((key + '/mapping back restores the interface points', pc, cl, tmo, 'map', 'round trip moves the interface points'))
            # O4 / O5 new points
            for j in range(M):
                b = BK[K + j]
                jobs.append((key + '/new point %d created in the xy plane comes back into the division plane through the interface centroid' % j, pc, S.cmp('eq', vdot(N, vsub(b, cen)), S.ZERO), tmo, 'map', 'new interface point off the division plane'))
                for i in range(K):
                    dd = vsub(b, PT[i])
                    dx = S.sub(NW[j][0], XY[i][0]); dy = S.sub(NW[j][1], XY[i][1])
                    cl = S.cmp('eq', vdot(dd, dd), S.add(S.mul(dx, dx), S.mul(dy, dy)))
                    jobs.append((key + '/new point %d keeps its distance to interface point %d' % (j, i), pc, cl, tmo, 'map', 'new interface point displaced within the plane', K == 2))
            cl = S.band(S.band(S.cmp('eq', rest[0], S.const(11)), S.cmp('eq', rest[1], S.const(12))), S.cmp('eq', rest[2], S.const(13)))
            jobs.append((key + '/points that are not on the interface are not touched', pc, cl, tmo, 'map', 'non-interface point moved'))
    # ---- K3: add_point_to_face + divide_faces on two triangles sharing the cut edge, symbolic ids ------------------------------------
    k3(chk, ir, native, z, quick)
    # ---- K4: orchestration of divide_cell around its (stubbed) stages -----------------------------------------------------------------
    k4(chk, ir, z, quick)
    # ---- K5: cell_divider::run on a population, every subset of ready cells and of successful divisions --------------------------------
    k5(chk, ir, native, z, quick)
    chk.log('%d obligations' % len(jobs))
    outs = par.prove_all(z, jobs, procs=14)
    for job, (st, model, dt) in zip(jobs, outs):
        name, pc, claim, _t, kind, what = job[:6]
        core = job[6] if len(job) > 6 else True
        if kind == 'map' and ' 4 interface' in name: core = False      # four and more interface points: extra instances of the identities decided with two and three points   # with three or more interface points the distance identities (already decided for two points, the translation cancels in differences) are extra
        chk.ob(name, st, core, dt, sample={'obligation': name, 'status': st} if len(chk.samples) < 8 else None)
        if st == 'violated':
            rep = replay(native, kind, name, model)
            if rep.get('confirmed'):
                chk.violation('C09/%s/%s' % (kind, what), '%s: %s; native: %s' % (name, what, rep.get('what')), rep)
            else:
                chk.fail_closed.append('%s: solver model not reproduced natively (%s)' % (name, rep.get('what')))
    # observation: the antipodal axis
    q = native.call('h_c09_map', [0.0, 0.0, -1.0, 1, 2, 3, 2, 1, 3, 0.5, 0.5], [2, 1])
    chk.note('axis (0,0,-1): quaternion (0,0,0,0); native rotation matrix entries %r (outside the claim: divide_cell then fails inside its try block and returns "no division")' % (q['d'][3:6],))
    native.close()
    chk.queries += z.queries; chk.solver_s += z.solver_time
    chk.finish(level='other', explanation=(
        'Kernels of cell division from the LLVM IR in exact reals: edge/plane intersection (point on plane and segment; no missed crossing) and the map-to-xy-plane / map-back pair for every unit axis (orthonormal rotation taking the axis to +z, '
        'isometry on the interface, exact round trip, new z=0 points return into the division plane through the interface centroid). z3 decides each obligation per path; models are replayed natively.'))

def k3(chk, ir, native, z, quick):
    """ids are symbolic (distinct, mesh nodes below the threshold, cut points at or above it); the structure of the cut is enumerated:
    rotation of each stored face, which second edge is cut in each face, order of insertion.  After divide_faces the six triangles must
    tile the two original triangles: three distinct ids each, no directed edge twice, every interior directed edge has its opposite,
    and the unmatched directed edges are exactly the original boundary with the cut points inserted (orientation preserved)."""
    names = ['thr', 'a', 'b', 'c', 'd', 'P', 'Q', 'R']
    V = [S.ivar(n, 64, 0, 2 ** 31 - 1) for n in names]
    thr, a, b, c, d, P, Q, R = V
    pre = [S.cmp('lt', x, thr) for x in (a, b, c, d)] + [S.cmp('ge', x, thr) for x in (P, Q, R)]
    ids = [a, b, c, d, P, Q, R]
    for i in range(7):
        for j in range(i + 1, 7): pre.append(S.cmp('ne', ids[i], ids[j]))
    def nm(v):
        while isinstance(v, S.Node) and v.op == 'irew': v = v.args[0]
        return v.args[0] if isinstance(v, S.Node) and v.op == 'ivar' else None
    sess = api.Session(ir, mode='real')
    # validation on concrete ids
    sc = api.Session(ir, mode='ieee'); mism = 0; nval = 0
    for r0 in range(3):
        for r1 in range(3):
            for e0 in (0, 1):
                for e1 in (0, 1):
                    for od in (0, 1):
                        cfg = [r0, r1, e0, e1, od]
                        for conc in ([4, 0, 1, 2, 3, 4, 5, 6], [10, 7, 3, 9, 0, 12, 10, 11]):
                            r = sc.run('h_c09_split', [], conc + cfg); q = native.call('h_c09_split', [], conc + cfg)
                            nval += 1
                            if r.status != 'ok' or r.iout != q['i']: mism += 1
                        ctl, res = sess.explore('h_c09_split', [], V + cfg, assumptions=pre, zctx=z, max_paths=20, branch_timeout_ms=5000)
                        chk.paths += ctl.paths_done
                        key = 'K3 add_point_to_face + divide_faces/rotations %d,%d second cut edges %s,%s %s' % (r0, r1, ('bc', 'ca')[e0], ('ad', 'db')[e1], ('shared point first', 'shared point last')[od])
                        real = [(tr, pc, r) for (tr, pc, r) in res if getattr(r, 'status', None) != 'pathend']
                        if len(real) != 1 or not ctl.exhausted or real[0][2].status != 'ok':
                            chk.fail_closed.append(key + ': %d paths / %r' % (len(real), [getattr(x[2], 'error', None) for x in real][:2])); continue
                        r = real[0][2]
                        probs = []
                        if r.iout[0] != 0: probs.append('exception class %r' % r.iout[0])
                        else:
                            nf = r.iout[1]; p_ = 2; faces = []
                            for f in range(nf):
                                k = r.iout[p_]; p_ += 1
                                faces.append([nm(v) for v in r.iout[p_:p_ + k]]); p_ += k
                            if nf != 6: probs.append('%d faces' % nf)
                            de = {}
                            for f in faces:
                                if len(f) != 3 or None in f or len(set(f)) != 3: probs.append('face %r' % (f,)); continue
                                for x, y in ((f[0], f[1]), (f[1], f[2]), (f[2], f[0])):
                                    de[(x, y)] = de.get((x, y), 0) + 1
                            if any(v > 1 for v in de.values()): probs.append('a directed edge appears twice: %r' % [e for e, v in de.items() if v > 1][:3])
                            boundary = {e for e in de if (e[1], e[0]) not in de}
                            exp = set()
                            exp |= {('b', 'Q'), ('Q', 'c'), ('c', 'a')} if e0 == 0 else {('b', 'c'), ('c', 'Q'), ('Q', 'a')}
                            exp |= {('a', 'R'), ('R', 'd'), ('d', 'b')} if e1 == 0 else {('a', 'd'), ('d', 'R'), ('R', 'b')}
                            if boundary != exp: probs.append('boundary of the six triangles is %r, the cut pentagons have %r' % (sorted(boundary), sorted(exp)))
                        chk.ob(key + '/six triangles tile the two cut triangles with the original orientation', 'proved' if not probs else 'violated', True, 0, {'problems': probs} if probs else None)
                        chk.witnesses += 1
                        if probs:
                            q = native.call('h_c09_split', [], [4, 0, 1, 2, 3, 4, 5, 6] + cfg)
                            chk.violation('C09/split/triangles do not tile the cut faces', '%s: %s; native (ids a..d = 0..3, P,Q,R = 4..6): %r' % (key, '; '.join(probs[:2]), q['i'][:26]), {'cfg': cfg, 'problems': probs, 'native': q['i']})
    chk.validation['inputs'] += nval; chk.validation['mismatches'] += mism; chk.validation['programs'] += 1
    chk.functions |= sess.functions_called | sc.functions_called

def k4(chk, ir, z, quick):
    """the real body of cell_divider::divide_cell with every stage replaced by a stand-in that either succeeds or throws one of the exceptions
    the real stage throws: on success both daughters are of the mother's class and get half of the mother's TARGET volume (symbolic,
    independent of her volume); a failure at any stage with any std-derived exception yields 'no division', no exception escapes (the function
    is noexcept: an escaping exception would terminate) and the mother's surface is untouched."""
    import subprocess
    mod = api.load_module(ir)
    names = list(mod.funcs)
    dem = subprocess.run(['c++filt'], input='\n'.join(names), capture_output=True, text=True).stdout.split('\n')
    def sym(prefix):
        hits = [n for n, d in zip(names, dem) if d.startswith(prefix)]
        if len(hits) != 1: raise RuntimeError('symbol for %r: %r' % (prefix, hits))
        return hits[0]
    MAP = {'cell_divider::add_intersection_points(': 'k4_add_intersection_points(', 'cell_divider::divide_faces(': 'k4_divide_faces(', 'initial_triangulation::coarse_triangulation(': 'k4_coarse_triangulation(',
           'cell_divider::map_points_to_xy_plane(': 'k4_map_points_to_xy_plane(', 'cell_divider::triangulate_division_interface(': 'k4_triangulate_division_interface(',
           'cell_divider::map_points_to_division_plane(': 'k4_map_points_to_division_plane(', 'cell_divider::create_daughter_cells(': 'k4_create_daughter_cells(', 'local_mesh_refiner::refine_mesh(': 'k4_refine_mesh('}
    ov = {}
    for real, stub in MAP.items():
        r_, s_ = sym(real), sym(stub)
        ov[r_] = (lambda it, a, s_=s_: it.call_function(s_, a))
    # the normal distribution draw is environment (as in C04): mean + stddev * Z
    ND = [n for n, d in zip(names, dem) if d.startswith('double std::normal_distribution<double>::operator()<')]
    for n in ND:
        def nd_stub(it, args):
            from irsym.interp import K_DOUBLE
            p_ = args[2]
            mean = it.load(p_, 8, K_DOUBLE); sd = it.load(p_ + 8, 8, K_DOUBLE)
            return mean if (type(sd) is float and sd == 0.0) else S.add(S.R(mean), S.mul(S.R(sd), S.var('Z')))
        ov[n] = nd_stub
    Vt = S.var('Vt')
    pre = [S.cmp('gt', Vt, S.ZERO)]
    CL = ['epithelial', 'ecm', 'lumen', 'nucleus', 'static']
    KN = ('division_exception', 'mesh_integrity_exception', 'intialization_exception', 'std::bad_alloc')
    stages = {1: 'add_intersection_points', 2: 'divide_faces', 5: 'triangulate_division_interface', 7: 'create_daughter_cells', 8: 'refine_mesh'}
    sess = api.Session(ir, mode='real', overrides=ov)
    ref = None
    for cls in ((0,) if quick else range(5)):
        for stage in [0] + sorted(stages):
            for kind in ((0,) if stage == 0 else ((0, 3) if quick else (0, 1, 2, 3))):
                ctl, res = sess.explore('h_c09_orchestrate', [Vt], [cls, stage, kind], assumptions=pre, zctx=z, max_paths=20, branch_timeout_ms=5000)
                chk.paths += ctl.paths_done
                tag = 'K4 divide_cell orchestration/%s mother/%s' % (CL[cls], 'all stages succeed' if stage == 0 else 'stage %s throws %s' % (stages[stage], KN[kind]))
                real = [(tr, pc, r) for (tr, pc, r) in res if getattr(r, 'status', None) != 'pathend']
                if not ctl.exhausted or not real:
                    chk.fail_closed.append(tag + ': exploration incomplete'); continue
                for (tr, pc, r) in real:
                    if r.status != 'ok':
                        what = '%s %r' % (r.status, getattr(r, 'error', getattr(r, 'exception', None)))
                        chk.ob(tag + '/no exception escapes and the run completes', 'violated', True, 0, {'status': what})
                        chk.violation('C09/orchestration/an exception of a stage escapes divide_cell', '%s: %s' % (tag, what[:300]), {'class': cls, 'stage': stage, 'kind': kind, 'status': what,
                                      'how': 'harness h_c09_orchestrate (/verif/harness/h_divide.cpp) with the stages of divide_cell mapped to the k4_* stand-ins'})
                        continue
                    divided = r.iout[0]
                    mother_i = r.iout[4:] if divided else r.iout[2:]
                    mother_d = r.dout[2:] if divided else r.dout
                    if stage == 0 and cls == 0 and ref is None: ref = (mother_i, [v for v in mother_d[:-2]])
                    if stage == 0:
                        ok_cls = divided == 1 and r.iout[2] == cls and r.iout[3] == cls
                        chk.ob(tag + '/division succeeds with two daughters of the class of the mother', 'proved' if ok_cls else 'violated', True, 0, {'iout': r.iout[:4]})
                        if not ok_cls:
                            chk.violation('C09/orchestration/daughters are not two cells of the mother class', '%s: %r' % (tag, r.iout[:4]), {'class': cls, 'iout': r.iout[:4]})
                            continue
                        half = S.div(Vt, S.const(2))
                        st1, m1 = SV.prove(z, pc, S.band(S.cmp('eq', S.R(r.dout[0]), half), S.cmp('eq', S.R(r.dout[1]), half)), 20000)
                        show = lambda v: S.show(v, 3) if isinstance(v, S.Node) else v
                        chk.ob(tag + '/each daughter inherits half of the target volume of the mother', st1, True, 0, {'d1': show(r.dout[0])})
                        chk.witnesses += 1
                        if st1 == 'violated':
                            chk.violation('C09/orchestration/daughter target volume is not half of the mother target volume', '%s: daughters get %s and %s for a mother with target volume Vt (volume %r)' % (
                                tag, show(r.dout[0]), show(r.dout[1]), mother_d[-1]), {'class': cls, 'model': m1,
                                'how': 'real divide_cell body with stubbed stages (harness h_c09_orchestrate); natively: divide a cell whose target volume differs from its volume'})
                    else:
                        same = divided == 0
                        chk.ob(tag + '/the failure is converted into "no division"', 'proved' if same else 'violated', True, 0, {'iout': r.iout[:2]})
                        if not same: chk.violation('C09/orchestration/failed stage still yields a division', tag, {'class': cls, 'stage': stage, 'kind': kind})
                    # mother untouched: same node/face counts, coordinates and triangles as after construction (target volume is still Vt)
                    if ref is not None and cls == 0:
                        unchanged = mother_i == ref[0] and all((a is b) or (a == b) for a, b in zip(mother_d[:-2], ref[1])) and (mother_d[-2] is Vt)
                        chk.ob(tag + '/the surface and the target volume of the mother are untouched', 'proved' if unchanged else 'violated', True, 0)
                        if not unchanged: chk.violation('C09/orchestration/mother modified by divide_cell', tag, {'class': cls, 'stage': stage, 'kind': kind})
    chk.functions |= sess.functions_called

def build_native_k5():
    """native replay binary for K5: the repository objects with cell_divider::divide_cell weakened in the object that defines it, linked with the
    harness compiled with -DK5_NATIVE_OVERRIDE (which defines that symbol as a call of the contract stand-in). Rebuilt whenever librepo.a is."""
    import hashlib, shutil, subprocess
    lib = build.build_native_lib()
    hfiles = [os.path.join(build.VERIF, 'harness', f) for f in ('h_divide.cpp', 'common.hpp', 'native_main.cpp')]
    h = hashlib.sha1()
    h.update(lib.encode()); h.update(str(os.path.getmtime(lib)).encode())
    for f in hfiles: h.update(open(f, 'rb').read())
    d = os.path.join(build.CACHE, 'k5nat_' + h.hexdigest()[:20])
    out = os.path.join(d, 'replay')
    with build.Lock(d + '.lock'):
        if os.path.exists(out): return out
        tmp = d + '.tmp%d' % os.getpid()
        shutil.rmtree(tmp, ignore_errors=True); os.makedirs(tmp)
        lib2 = os.path.join(tmp, 'librepo_k5.a')
        shutil.copy(lib, lib2)
        members = subprocess.run(['ar', 't', lib2], capture_output=True, text=True, check=True).stdout.split()
        mem = [m for m in members if m.endswith('cell_divider.o')]
        if len(mem) != 1: raise RuntimeError('cell_divider object not found in %s: %r' % (lib, mem))
        subprocess.run(['ar', 'x', lib2, mem[0]], cwd=tmp, check=True)
        syms = subprocess.run(['nm', '--defined-only', os.path.join(tmp, mem[0])], capture_output=True, text=True, check=True).stdout.split('\n')
        dem = subprocess.run(['c++filt'], input='\n'.join(x.split()[-1] if x.split() else '' for x in syms), capture_output=True, text=True).stdout.split('\n')
        target = [x.split()[-1] for x, dd in zip(syms, dem) if dd.startswith('cell_divider::divide_cell(') and '.' not in x.split()[-1]]
        if len(target) != 1: raise RuntimeError('divide_cell symbol: %r' % (target,))
        subprocess.run(['objcopy', '--weaken-symbol=' + target[0], os.path.join(tmp, mem[0])], check=True)
        subprocess.run(['ar', 'r', lib2, mem[0]], cwd=tmp, check=True, capture_output=True)
        inc = build.include_flags()
        objs = []
        for src in hfiles:
            if src.endswith('.hpp'): continue
            o = os.path.join(tmp, os.path.basename(src).replace('.cpp', '.o'))
            build.run([build.GXX] + build.GXX_FLAGS + ['-DIRSYM_NATIVE', '-DK5_NATIVE_OVERRIDE'] + inc + ['-c', src, '-o', o]); objs.append(o)
        build.run([build.GXX, '-fopenmp', '-o', os.path.join(tmp, 'replay')] + objs + [lib2, '-lstdc++fs'])
        for f in objs + [lib2, os.path.join(tmp, mem[0])]: os.remove(f)
        os.rename(tmp, d)
        return out

def k5_eval(iout, n, off):
    """expected outcome of cell_divider::run from its own call log: returns (problems, called, divided)"""
    it = list(iout)
    nc = it[0]; calls = [(it[1 + 2 * k], it[2 + 2 * k]) for k in range(nc)]
    q = 1 + 2 * nc
    max_id, size = it[q], it[q + 1]
    rows = [tuple(it[q + 2 + 5 * j: q + 7 + 5 * j]) for j in range(size)]
    called = [m for m, _ in calls]
    divided = sorted(m for m, ok in calls if ok)
    probs = []
    if len(set(called)) != len(called): probs.append(('a cell is divided more than once in one call', 'divide_cell calls %r' % (calls,)))
    if size != n + len(divided): probs.append(('population size', '%d cells after %d of %d divided (expected %d)' % (size, len(divided), n, n + len(divided))))
    if max_id != off + n + 2 * len(divided): probs.append(('id counter', 'next id %d after %d divisions (was %d)' % (max_id, len(divided), off + n)))
    present = [r[2] for r in rows if r[2] >= 0]
    for i in range(n):
        k = present.count(i)
        if i in divided and k: probs.append(('the mother stays in the population', 'cell %d divided but is still in the list (%d faces left)' % (i, [r[4] for r in rows if r[2] == i][0])))
        if i not in divided and k != 1: probs.append(('a cell that did not divide is dropped or duplicated', 'cell %d did not divide and appears %d times in the list' % (i, k)))
    if present != sorted(present): probs.append(('order of the cells that did not divide', 'originals now in the order %r' % (present,)))
    for i in range(n):
        k = sum(1 for r in rows if r[3] == i)
        if k != (2 if i in divided else 0): probs.append(('the mother is not replaced by exactly two daughters', '%d daughters of cell %d in the list (%s)' % (k, i, 'divided' if i in divided else 'did not divide')))
    ids = [r[0] for r in rows]
    if len(set(ids)) != len(ids): probs.append(('ids not unique', 'ids %r' % (ids,)))
    for j, r in enumerate(rows):
        if r[1] != j: probs.append(('local id is not the list position', 'cell at position %d has local id %d' % (j, r[1])))
        if r[2] >= 0 and r[0] != off + r[2]: probs.append(('id of a cell that did not divide changed', 'cell %d now has id %d (was %d)' % (r[2], r[0], off + r[2])))
        if r[2] < 0 and r[3] < 0: probs.append(('unknown cell in the population', 'position %d' % j))
        if r[3] >= 0 and not (off + n <= r[0] < max_id): probs.append(('daughter id not fresh', 'daughter of %d has id %d' % (r[3], r[0])))
        if r[4] < 4: probs.append(('emptied cell left in the population', 'cell at position %d (id %d) has %d faces' % (j, r[0], r[4])))
    return probs, called, divided

def k5(chk, ir, native, z, quick):
    """the real cell_divider::run on n epithelial cells; divide_cell replaced by its contract (k5_divide_cell). The volume of every cell and a
    success selector per cell are symbolic, so every subset of ready cells and every subset of successful divisions is a feasible path."""
    import subprocess
    mod = api.load_module(ir)
    names = list(mod.funcs)
    dem = subprocess.run(['c++filt'], input='\n'.join(names), capture_output=True, text=True).stdout.split('\n')
    real = [n_ for n_, d in zip(names, dem) if d.startswith('cell_divider::divide_cell(')]
    stub = [n_ for n_, d in zip(names, dem) if d.startswith('k5_divide_cell(')]
    if len(real) != 1 or len(stub) != 1:
        chk.fail_closed.append('K5: divide_cell / k5_divide_cell symbols not found (%r, %r)' % (real, stub)); return
    ov = {real[0]: (lambda it, a, s_=stub[0]: it.call_function(s_, a))}
    sess = api.Session(ir, mode='real', overrides=ov)
    chk.assumptions += ['K5: divide_cell replaced by its contract (two fresh cells of the class of the mother or nothing; K1-K4 are about the real one); the OpenMP loop of '
                        'cell_divider::run is executed by one thread in list order (C15 decides the completion orders)']
    cases = [(1, 0), (2, 0), (3, 5)] if quick else [(1, 0), (2, 0), (3, 5), (4, 2)]
    k5nat = [None]
    for (n, off) in cases:
        Vs = [S.var('k5v%d' % i) for i in range(n)]; Ss = [S.var('k5s%d' % i) for i in range(n)]
        ctl, res = sess.explore('h_c09_run', Vs + Ss, [n, off], assumptions=[], zctx=z, max_paths=3 ** n + 8, branch_timeout_ms=5000)
        chk.paths += ctl.paths_done
        tag = 'K5 cell_divider::run/%d cells, ids ahead of positions by %d' % (n, off)
        done = [(tr, pc, r) for (tr, pc, r) in res if getattr(r, 'status', None) != 'pathend']
        if not ctl.exhausted or not done:
            chk.fail_closed.append(tag + ': exploration incomplete'); continue
        subsets = set()
        for (tr, pc, r) in done:
            if r.status != 'ok':
                chk.fail_closed.append(tag + ': path ended with %s %r' % (r.status, getattr(r, 'error', None))); continue
            iout = []
            bad = False
            for v in r.iout:
                if isinstance(v, S.Node):
                    w = None
                    for cand in (1, 0):
                        st_, _ = SV.prove(z, list(pc), S.cmp('eq', v, S.iconst(cand, v.width)) if v.sort == 'I' else (v if cand else S.bnot(v)), 5000)
                        if st_ == 'proved': w = cand; break
                    if w is None: bad = True; break
                    iout.append(w)
                else: iout.append(v)
            if bad:
                chk.fail_closed.append(tag + ': an output is not determined by the path'); continue
            probs, called, divided = k5_eval(iout, n, off)
            sub = (tuple(sorted(called)), tuple(divided)); subsets.add(sub)
            name = tag + '/ready %r, divisions that succeed %r' % (sorted(called), divided)
            # the path condition is what made these cells ready and these divisions succeed
            law = S.TRUE
            for i in range(n):
                law = S.band(law, S.bnot(S.bxor(S.TRUE if i in called else S.FALSE, S.cmp('ge', Vs[i], S.const(1)))))
                if i in called: law = S.band(law, S.bnot(S.bxor(S.TRUE if i in divided else S.FALSE, S.cmp('gt', Ss[i], S.ZERO))))
            st1, m1 = SV.prove(z, list(pc), law, 10000)
            chk.ob(name + '/divide_cell is called exactly for the cells with V >= V_div', st1, True, 0)
            stw, mw = SV.satisfiable(z, list(pc), 5000)
            model = m1 if st1 == 'violated' else mw
            chk.ob(name + '/mothers replaced by two daughters each, the other cells kept, ids unique and fresh, local ids = positions', 'violated' if probs else 'proved', True, 0,
                   {'problems': [p_[1] for p_ in probs][:6]})
            if probs or st1 == 'violated':
                g = lambda nm_, d_: float(Fraction((model or {}).get(nm_, d_)))
                din = [g('k5v%d' % i, 2.0 if i in called else 0.5) for i in range(n)] + [g('k5s%d' % i, 1.0 if i in divided else -1.0) for i in range(n)]
                if k5nat[0] is None: k5nat[0] = api.Native(build_native_k5())
                q = k5nat[0].call('h_c09_run', din, [n, off])
                if q.get('status') == 0 and q['i']:
                    nprobs, ncalled, ndiv = k5_eval(q['i'], n, off)
                    want_called = [i for i in range(n) if din[i] >= 1.0]
                    if sorted(ncalled) != want_called: nprobs.append(('divide_cell not called exactly for the cells with V >= V_div', 'called for %r, ready %r' % (sorted(ncalled), want_called)))
                    if nprobs:
                        chk.violation('C09/run/%s' % nprobs[0][0], '%s: %s' % (name, '; '.join(p_[1] for p_ in nprobs[:4])),
                                      {'din': din, 'iin': [n, off], 'native iout': q['i'], 'how': 'harness h_c09_run (/verif/harness/h_divide.cpp); native build: the compiled cell_divider::run of the repository, with the divide_cell symbol weakened in its object and the contract stand-in k5_divide_cell linked in its place'})
                    else:
                        chk.fail_closed.append(name + ': irsym reports %r, native run agrees with the expectation' % ([p_[1] for p_ in probs][:2],))
                else:
                    chk.fail_closed.append(name + ': native replay failed (%r)' % (q.get('status'),))
        want = 3 ** n
        if len(subsets) != want:
            chk.fail_closed.append(tag + ': %d of %d (ready, successful) subsets reached' % (len(subsets), want))
        chk.witnesses += len(subsets)
    if k5nat[0] is not None: k5nat[0].close()
    chk.functions |= sess.functions_called

def sum_(PT, k):
    r = S.ZERO
    for q_ in PT: r = S.add(r, q_[k])
    return r

def replay(native, kind, name, model):
    import math
    m = {k: float(Fraction(v)) for k, v in (model or {}).items()}
    if kind == 'edge':
        d = [m.get(nm, 0.0) for nm in ('e1x', 'e1y', 'e1z', 'e2x', 'e2y', 'e2z', 'px', 'py', 'pz', 'nx', 'ny', 'nz')]
        q = native.call('h_c09_edge', d, [])
        e1, e2, p, n = d[0:3], d[3:6], d[6:9], d[9:12]
        s1 = sum(n[k] * (e1[k] - p[k]) for k in range(3)); s2 = sum(n[k] * (e2[k] - p[k]) for k in range(3))
        if q['i'][0] == 0:
            return {'confirmed': s1 * s2 < 0, 'what': 'no intersection reported, end point sides %r %r' % (s1, s2), 'din': d}
        x = q['d'][:3]
        off = abs(sum(n[k] * (x[k] - p[k]) for k in range(3)))
        t = sum((x[k] - e1[k]) * (x[k] - e2[k]) for k in range(3))
        return {'confirmed': off > 1e-9 * (1 + max(abs(v) for v in d)) or t > 1e-9, 'what': 'returned %r: distance to plane %r, (x-e1).(x-e2)=%r' % (x, off, t), 'din': d}
    # map: rebuild inputs from the model (K, M from the obligation name)
    import re
    mm = re.search(r'(\d+) interface \+ (\d+) new', name)
    K, M = int(mm.group(1)), int(mm.group(2))
    n = [m.get('n%d' % k, 0.0) for k in range(3)]
    nn = math.sqrt(sum(x * x for x in n)) or 1.0
    n = [x / nn for x in n]
    PT = [[m.get('q%d_%d' % (i, k), 0.0) for k in range(3)] for i in range(K)]
    # project the interface points into the plane through PT[0] (the model is rational, the axis was renormalised)
    for i in range(1, K):
        dd = sum(n[k] * (PT[i][k] - PT[0][k]) for k in range(3))
        PT[i] = [PT[i][k] - dd * n[k] for k in range(3)]
    NW = [[m.get('w%d_%d' % (j, k), 0.3 + 0.1 * j) for k in range(2)] for j in range(M)]
    d = n + [c for q_ in PT for c in q_] + [c for w in NW for c in w]
    q = native.call('h_c09_map', d, [K, M])
    if q.get('status') != 0: return {'confirmed': False, 'what': 'native run failed'}
    out = q['d']
    BK = [out[12 + 3 * K + 3 * i:15 + 3 * K + 3 * i] for i in range(K + M)]
    cen = [sum(PT[i][k] for i in range(K)) / K for k in range(3)]
    probs = []
    scale = 1 + max(abs(v) for v in d)
    for i in range(K):
        if max(abs(BK[i][k] - PT[i][k]) for k in range(3)) > 1e-9 * scale: probs.append('interface point %d comes back at %r instead of %r' % (i, BK[i], PT[i]))
    for j in range(M):
        off = sum(n[k] * (BK[K + j][k] - cen[k]) for k in range(3))
        if abs(off) > 1e-9 * scale: probs.append('new point %d comes back %r off the division plane' % (j, off))
    Rm = [out[3:6], out[6:9], out[9:12]]
    for a in range(3):
        for b in range(3):
            v = sum(Rm[a][k] * Rm[b][k] for k in range(3))
            if abs(v - (1.0 if a == b else 0.0)) > 1e-9: probs.append('rotation rows %d.%d = %r' % (a, b, v))
    return {'confirmed': bool(probs), 'what': '; '.join(probs[:3]) or 'native mapping is consistent', 'din': d, 'iin': [K, M]}

if __name__ == '__main__':
    run_check('C09', main)
