"""Shared by C01 and C11: parsing of the h_refine state dump, independent oracles on it, exploration helpers."""
from fractions import Fraction

from checks import meshes as M
from irsym import sym as S

OPS = {0: 'split', 1: 'merge', 2: 'swap', 3: 'refine_mesh', 4: 'refine;rebase;move;refine;rebase', 5: 'rebase', 6: 'merge-then-split (slot reuse)', 7: 'merge-then-split-then-rebase'}

class State:
    pass

def parse_state(d, i, dp=0, ip=0):
    """returns (State, dp, ip) from the dump_cell layout"""
    st = State()
    nslots, fslots = i[ip], i[ip + 1]; st.nb_nodes, st.nb_faces = i[ip + 2], i[ip + 3]; ip += 4
    st.nodes = []
    for k in range(nslots):
        used, lid = i[ip], i[ip + 1]; ip += 2
        st.nodes.append({'used': used, 'id': lid, 'pos': d[dp:dp + 3], 'mom': d[dp + 3:dp + 6]}); dp += 6
    st.faces = []
    for k in range(fslots):
        used, lid, typ = i[ip], i[ip + 1], i[ip + 2]
        ids = tuple(i[ip + 3:ip + 6]); ip += 6
        st.faces.append({'used': used, 'id': lid, 'type': typ, 'ids': ids, 'normal': d[dp:dp + 3], 'area': d[dp + 3]}); dp += 4
    ne = i[ip]; ip += 1
    st.edges = []
    for k in range(ne):
        st.edges.append(tuple(i[ip:ip + 5])); ip += 5
    nfn = i[ip]; ip += 1
    st.free_nodes = list(i[ip:ip + nfn]); ip += nfn
    nff = i[ip]; ip += 1
    st.free_faces = list(i[ip:ip + nff]); ip += nff
    return st, dp, ip

def all_concrete_ints(i):
    return all(type(v) is int for v in i)

def live_faces(st):
    return [(k, f) for k, f in enumerate(st.faces) if f['used']]

def topology_problems(st):
    """C01 oracle on a dumped state: closed oriented genus-0 manifold + bookkeeping agreement (all concrete)"""
    probs = []
    lf = live_faces(st)
    fl = [f['ids'] for _, f in lf]
    live_nodes = [k for k, n in enumerate(st.nodes) if n['used']]
    probs += M.closed_manifold_report(fl, live_nodes)
    seen = {}
    for k, f in lf:
        key = tuple(sorted(f['ids']))
        if key in seen: probs.append('faces %d and %d have the same three nodes %r' % (seen[key], k, key))
        seen[key] = k
    for k, f in lf:
        for v in f['ids']:
            if v >= len(st.nodes) or not st.nodes[v]['used']:
                probs.append('live face %d refers to dead/non-existent node %d' % (k, v))
    # bookkeeping
    if st.nb_nodes != len(live_nodes): probs.append('get_nb_of_nodes()=%d but %d live nodes' % (st.nb_nodes, len(live_nodes)))
    if st.nb_faces != len(lf): probs.append('get_nb_of_faces()=%d but %d live faces' % (st.nb_faces, len(lf)))
    dead_nodes = sorted(k for k, n in enumerate(st.nodes) if not n['used'])
    dead_faces = sorted(k for k, f in enumerate(st.faces) if not f['used'])
    if sorted(st.free_nodes) != dead_nodes: probs.append('free node queue %r != unused node slots %r' % (sorted(st.free_nodes), dead_nodes))
    if sorted(st.free_faces) != dead_faces: probs.append('free face queue %r != unused face slots %r' % (sorted(st.free_faces), dead_faces))
    for k, n in enumerate(st.nodes):
        if n['used'] and n['id'] != k: probs.append('node slot %d carries local id %d' % (k, n['id']))
    for k, f in enumerate(st.faces):
        if f['used'] and f['id'] != k: probs.append('face slot %d carries local id %d' % (k, f['id']))
    # edge set vs recomputed adjacency
    want = {}
    for k, f in lf:
        a, b, c = f['ids']
        for (x, y) in ((a, b), (b, c), (c, a)):
            want.setdefault((min(x, y), max(x, y)), set()).add(k)
    got = {}
    for (n1, n2, man, f1, f2) in st.edges:
        if (n1, n2) in got: probs.append('edge (%d,%d) stored twice' % (n1, n2))
        got[(n1, n2)] = (man, {f1, f2})
        if n1 >= n2: probs.append('edge (%d,%d) not normalised' % (n1, n2))
    for e, fs in want.items():
        if e not in got: probs.append('edge %r missing from the edge set' % (e,))
        elif not got[e][0] or got[e][1] != fs: probs.append('edge %r stores faces %r, triangle list gives %r' % (e, sorted(got[e][1]), sorted(fs)))
    for e in got:
        if e not in want: probs.append('edge set contains %r which no live triangle has' % (e,))
    return probs

def cyc(t):
    """canonical cyclic rotation of an oriented triangle"""
    k = t.index(min(t))
    return tuple(t[k:] + t[:k])

def orientation_kept(pre, post, renumber=None):
    """faces present (same node set) before and after must keep their winding"""
    probs = []
    before = {tuple(sorted(f['ids'])): cyc(f['ids']) for _, f in live_faces(pre)}
    for k, f in live_faces(post):
        ids = f['ids']
        key = tuple(sorted(ids))
        if key in before and before[key] != cyc(ids):
            probs.append('face %r changed its winding (%r -> %r)' % (key, before[key], cyc(ids)))
    return probs

def R(x):
    return S.R(x)

def vecR(v):
    return [S.R(c) for c in v]

def normal_claims(st):
    """per live face: cached normal * (2*area) == cross product of its winding, area >= 0 (solver obligations)"""
    out = []
    for k, f in live_faces(st):
        a, b, c = f['ids']
        cr = S.vcross(S.vsub(vecR(st.nodes[b]['pos']), vecR(st.nodes[a]['pos'])), S.vsub(vecR(st.nodes[c]['pos']), vecR(st.nodes[a]['pos'])))
        ar = R(f['area'])
        cl = S.cmp('ge', ar, S.ZERO)
        for t in range(3):
            cl = S.band(cl, S.cmp('eq', S.mul(R(f['normal'][t]), S.mul(ar, S.const(2))), cr[t]))
        cl = S.band(cl, S.cmp('eq', S.mul(S.mul(ar, ar), S.const(4)), S.vdot(cr, cr)))
        out.append((k, cl))
    return out

def signed_volume6_state(st):
    coords = [vecR(n['pos']) for n in st.nodes]
    return M.signed_volume6(coords, [f['ids'] for _, f in live_faces(st)])

def total_momentum(st):
    tot = [S.ZERO] * 3
    for n in st.nodes:
        if n['used']:
            tot = [S.add(tot[k], R(n['mom'][k])) for k in range(3)]
    return tot

def band_filter(max_out_of_band, max_swaps=0):
    """path filter for refine_mesh: at most k length tests fall outside the band, at most s triangle-score tests trigger a swap.
    Returns fn(ctl, cond) -> (kind, event_outcome, allowed outcomes): event_outcome is the truth value of cond that means
    'out of band' / 'swap'."""
    FLIP = {'gt': 'lt', 'lt': 'gt', 'ge': 'le', 'le': 'ge'}
    def classify(cond):
        if cond.op not in FLIP: return None
        a, b = cond.args
        rel = cond.op
        fa = S.free_vars(a); fb = S.free_vars(b)
        if fa == {'lmin'} and fb and 'lmin' not in fb:
            a, b, fa, fb, rel = b, a, fb, fa, FLIP[rel]
        if fb == {'lmin'} and fa and 'lmin' not in fa:
            # coords REL f(lmin): strict relations are the code's "too long"/"too short" tests
            return ('band', rel in ('gt', 'lt'))
        ca, cb = S.cval(a), S.cval(b)
        if ca is not None and ca == Fraction(1, 5): a, b, ca, cb, rel = b, a, cb, ca, FLIP[rel]
        if cb is not None and cb == Fraction(1, 5) and ca is None:
            return ('score', rel == 'lt') if rel in ('lt', 'ge') else ('score', rel == 'le')
        return None
    def filt(ctl, cond):
        c = classify(cond)
        if c is None: return None
        kind, event = c
        limit = max_out_of_band if kind == 'band' else max_swaps
        n = sum(1 for (k, hit) in ctl.filter_log if k == kind and hit)
        allowed = {True, False} if n < limit else {not event}
        return kind, event, allowed
    return filt
