#!/usr/bin/env python3
"""C14 — translation invariance of whole iterations.  The real solver (constructor + run_iteration: face typing, remeshing, contact
detection with its re-anchored grid, forces, time integration, growth, removal) is executed from the LLVM IR on small tissues whose
input coordinates are c_i + t with c_i concrete and t = (t0,t1,t2) a symbolic real vector.  Every double that is a polynomial in t is
kept in exact canonical form (rational coefficients), so code that depends on coordinate differences only runs concretely, and
every decision or address that still mentions t is handed to z3 (feasible on both sides for some translations = the run depends on
the absolute position).  At the end of every iteration every node position must be (reference + t) and everything else (connectivity,
counts, couplings, volumes, areas, pressures) must be free of t.  Exact-real reading: rounding of the translated coordinates is outside
the claim (the property says 'to rounding accuracy').  Reports are confirmed by native runs at concrete translations."""
import os
import sys
import time
from fractions import Fraction

sys.path.insert(0, os.path.dirname(os.path.dirname(os.path.abspath(__file__))))
from checks.framework import run_check
from irsym import api, build, envstubs, sym as S, solver as SV, par

ENTRY = 'h_sim'
TVARS = ['t0', 't1', 't2']
PROBE_T = [(1000.0, -2000.0, 500.0), (-3.7, 0.41, 12.9), (-250.0, 130.0, 77.0), (0.6, 0.6, 0.6), (0.7, 0.0, 0.0), (0.0, -1.4, 0.0), (35.3, -71.9, 12.1), (-1.05, -1.05, -1.05), (5.5, 5.5, 5.5), (-900.0, -900.0, -900.0)]

# single-axis translations by fractions and multiples of the voxel size of the contact grid (3*l_min + 2*cut-off = 1.4 here)
for _k in range(3):
    for _m in (0.35, 0.7, 1.05, 1.4, 2.1, 2.8):
        for _s in (1.0, -1.0):
            _t = [0.0, 0.0, 0.0]; _t[_k] = _s * _m
            PROBE_T.append(tuple(_t))

def tissues():
    """name, kinds (0 T4, 1 T6), classes (0 epithelial 1 ecm 2 lumen 3 nucleus 4 static), per cell (scale, offset)"""
    return [
        ('one octahedral epithelial cell', [1], [0], [(1.0, (0.0137, -0.0211, 0.0059))]),
        ('two adhering tetrahedral epithelial cells', [0, 0], [0, 0], [(1.0, (0.0, 0.0, 0.0)), (1.0, (1.1531, 0.0517, 0.0093))]),
        ('tetrahedral epithelial cell overlapping an ECM octahedron', [0, 1], [0, 1], [(1.0, (0.2137, 0.1091, 0.0973)), (1.2171, (0.0113, -0.0071, 0.0039))]),
        ('three cells in a row straddling the origin (epithelial, epithelial, static)', [0, 0, 0], [0, 0, 4], [(1.0, (-1.2093, 0.0031, -0.0047)), (1.0, (-0.0511, 0.0213, 0.0017)), (1.0, (1.1077, 0.0419, 0.0123))]),
        ('nucleus inside an epithelial octahedron', [1, 0], [0, 3], [(2.0313, (0.0021, 0.0043, -0.0017)), (0.4127, (-0.1031, -0.0977, -0.1113))]),
    ]

def inputs(tis, nsteps, T):
    name, kinds, classes, geo = tis
    nc = len(kinds)
    din = [0.001, 1.0, 0.3, 0.25, 0.25, 0.01, 1.0] + list(T)
    for (sc, off) in geo:
        din += [sc, off[0], off[1], off[2], 0.001, 1e9, 0.0]
    iin = [nc, nsteps] + kinds + classes + [3] * nc + [0] * (nsteps * nc)
    return din, iin

def layout(iout, contact):
    """walk the dump of h_sim: returns list of (kind, axis) per dout entry, kind in 'scalar' / 'pos' / 'dead' (coordinates of an unused node slot)"""
    lay = []; ip = 0
    n = len(iout)
    while ip < n:
        nc = iout[ip]; ip += 1
        for c in range(nc):
            nn, nf = iout[ip + 3], iout[ip + 4]; ip += 5
            lay += [('scalar', None)] * 4
            for k in range(nn):
                used = iout[ip]; ip += 1
                lay += [('pos' if used else 'dead', 0), ('pos' if used else 'dead', 1), ('pos' if used else 'dead', 2)]
                if contact == 1: ip += 3
                ip += 1          # "force is zero" flag
            ip += 7 * nf
    return lay

def run_config(cfg, quick):
    contact, dynamic, ti, nsteps = cfg
    t0 = time.time()
    tis = tissues()[ti]
    ir = build.build_ir(['h_sim.cpp'], contact=contact, dynamic=dynamic)
    ov = {}
    ov.update(envstubs.fs_stubs()); ov.update(envstubs.writer_stubs()); ov.update(envstubs.divide_stub())
    name = 'contact model %d, dynamic model %d, %s, %d iterations' % (contact, dynamic, tis[0], nsteps)
    out = {'name': name, 'cfg': cfg, 'obs': [], 'cands': [], 'fail': [], 'paths': 0, 'queries': 0, 'solver_s': 0.0, 'functions': []}
    def ob(nm, st, detail=None): out['obs'].append((name + '/' + nm, st, True, 0.0, detail))
    # reference: the same harness, concrete, t = 0
    def setup_ref(it): it.strict_undef = False
    sref = api.Session(ir, mode='ieee', overrides=ov, setup=setup_ref)
    din0, iin = inputs(tis, nsteps, (0.0, 0.0, 0.0))
    ref = sref.run(ENTRY, din0, iin)
    if ref.status != 'ok':
        out['fail'].append('%s: reference run %s %r' % (name, ref.status, getattr(ref, 'error', None))); return out
    # symbolic translation
    def setup(it): it.strict_undef = False; it.poly_mode = True; it.poly_residue = Fraction(1, 10 ** 12)
    z = SV.Z3Ctx()
    T = [S.var(v) for v in TVARS]
    din, _ = inputs(tis, nsteps, T)
    box = [S.band(S.cmp('ge', v, S.const(-100)), S.cmp('le', v, S.const(100))) for v in T]
    sess = api.Session(ir, mode='real', overrides=ov, setup=setup)
    holder = {}
    def on_path(c, r):
        it = getattr(r, 'interp', None)
    ctl, res = sess.explore(ENTRY, din, iin, assumptions=box, zctx=z, max_paths=12, branch_timeout_ms=5000)
    out['paths'] = ctl.paths_done; out['queries'] = z.queries; out['solver_s'] = z.solver_time; out['functions'] = sorted(sess.functions_called)
    real = [(tr, pc, r) for (tr, pc, r) in res if getattr(r, 'status', None) != 'pathend']
    # translations proposed by the solver: models under which a t-dependent integer / decision takes different values
    out['probes'] = []
    ub = getattr(ctl, 'unbounded', None)
    if ub:
        for (val, m) in ub['witnesses']:
            out['probes'].append(tuple(float(m.get(v, 0)) for v in TVARS))
    if len(real) > 1:
        for (tr, pc, r) in real[:4]:
            stw, m = SV.satisfiable(z, pc, 5000)
            if stw == 'sat' and m: out['probes'].append(tuple(float(m.get(v, 0)) for v in TVARS))
    forks = [d for (tr, pc, r) in real for d in tr if not d.forced]
    ob('no decision and no address depends on the translation (single path, nothing left for the solver to split)', 'proved' if (len(real) == 1 and not forks and ctl.exhausted) else 'violated',
       {'paths': len(real), 'unforced decisions': len(forks)})
    if len(real) != 1 or forks or not ctl.exhausted:
        conds = []
        for (tr, pc, r) in real[:3]:
            conds += [S.show(c, 4) for c in pc[len(box):]][:3]
        out['cands'].append(('control flow or addressing depends on the absolute position', {'conditions': conds[:6], 'paths': len(real), 'statuses': [getattr(r, 'status', None) for (_, _, r) in real][:6],
                                                                                              'errors': [repr(getattr(r, 'error', None))[:200] for (_, _, r) in real if getattr(r, 'status', None) != 'ok'][:3]}))
    for (tr, pc, r) in real[:1]:
        if r.status != 'ok':
            err = repr(getattr(r, 'error', None))
            if r.status == 'unsupported' and ('feasible values' in err or 'cannot enumerate' in err):
                # an integer (voxel index, loop bound, address) that is a function of t with unboundedly many values
                if not out['cands']: out['cands'].append(('control flow or addressing depends on the absolute position', {'error': err[:300]}))
                ob('no integer value (index, address, count) depends on the translation', 'violated', {'error': err[:300]})
            elif not out['cands']:
                out['fail'].append('%s: symbolic run %s %s' % (name, r.status, err[:300]))
            continue
        # integers: identical to the reference
        same_i = len(r.iout) == len(ref.iout) and all(type(a) is int and a == b for a, b in zip(r.iout, ref.iout))
        ob('connectivity, cell count, identifiers, couplings and face labels identical to the untranslated run after every iteration', 'proved' if same_i else 'violated')
        if not same_i:
            bad = [k for k, (a, b) in enumerate(zip(r.iout, ref.iout)) if not (type(a) is int and a == b)][:5]
            out['cands'].append(('discrete state differs from the untranslated run', {'first differing integer outputs': bad, 'translated': [S.show(r.iout[k], 3) if isinstance(r.iout[k], S.Node) else r.iout[k] for k in bad], 'reference': [ref.iout[k] for k in bad]}))
            continue
        lay = layout(ref.iout, contact)
        if len(lay) != len(ref.dout) or len(r.dout) != len(ref.dout):
            out['fail'].append('%s: dump layout mismatch (%d / %d / %d)' % (name, len(lay), len(ref.dout), len(r.dout))); continue
        it = None
        npos = nsc = 0; badpos = []; badsc = []
        for k, ((kind, ax), v, w) in enumerate(zip(lay, r.dout, ref.dout)):
            if kind == 'dead': continue
            if kind == 'pos':
                npos += 1
                # v must be  c + t_ax  with c = reference (the reference is the rounded evaluation of the same expression):
                # v is a canonical polynomial of degree <= 3; it mentions t_ax only and agrees with c + x at five points
                c = None
                if isinstance(v, S.Node) and S.free_vars(v) <= {TVARS[ax]}:
                    vals = [Fraction(S.evaluate(v, {TVARS[ax]: Fraction(x)})) for x in (0, 1, -2, 7, Fraction(5, 3))]
                    if all(vals[j] - vals[0] == x for j, x in enumerate((0, 1, -2, 7, Fraction(5, 3)))): c = vals[0]
                if c is None or abs(float(c) - w) > 1e-9 * (1 + abs(w)):
                    badpos.append((k, S.show(v, 3) if isinstance(v, S.Node) else v, w))
            else:
                nsc += 1
                if isinstance(v, S.Node) or not (v == w or abs(v - w) <= 1e-9 * (1 + abs(w)) or (v != v and w != w)):
                    badsc.append((k, S.show(v, 3) if isinstance(v, S.Node) else v, w))
        ob('every node position equals the untranslated position plus t after every iteration (%d coordinates)' % npos, 'proved' if not badpos else 'violated', {'first': badpos[:3]} if badpos else None)
        ob('volumes, target volumes, pressures and areas do not mention t and equal the untranslated run (%d values)' % nsc, 'proved' if not badsc else 'violated', {'first': badsc[:3]} if badsc else None)
        if badpos: out['cands'].append(('a node position is not the translated reference position', {'first': badpos[:3]}))
        if badsc: out['cands'].append(('a cell scalar depends on the translation', {'first': badsc[:3]}))
    out['wall'] = time.time() - t0
    return out

def native_differential(cfg, extra=()):
    """native runs at t = 0 and at the probe translations; returns list of differences beyond rounding"""
    contact, dynamic, ti, nsteps = cfg
    nat = build.build_native(['h_sim.cpp'], contact=contact, dynamic=dynamic)
    native = api.Native(nat)
    tis = tissues()[ti]
    din0, iin = inputs(tis, nsteps, (0.0, 0.0, 0.0))
    q0 = native.call(ENTRY, din0, iin)
    diffs = []
    if q0.get('status') != 0:
        native.close(); return [{'t': None, 'what': 'native reference run failed: %r' % (q0.get('status'),)}]
    lay = layout(q0['i'], contact)
    for T in list(extra) + PROBE_T:
        din, _ = inputs(tis, nsteps, T)
        q = native.call(ENTRY, din, iin)
        if q.get('status') != 0:
            diffs.append({'t': T, 'what': 'translated native run ended with %r, the untranslated one returned' % (q.get('status'),)}); continue
        if q['i'] != q0['i']:
            k = next((k for k, (a, b) in enumerate(zip(q['i'], q0['i'])) if a != b), min(len(q['i']), len(q0['i'])))
            diffs.append({'t': T, 'what': 'discrete state differs (integer output %d: %r vs %r)' % (k, q['i'][k:k + 1], q0['i'][k:k + 1])}); continue
        tol = 1e-7 * (1 + max(abs(x) for x in T))
        for k, ((kind, ax), a, b) in enumerate(zip(lay, q['d'], q0['d'])):
            if kind == 'dead': continue
            want = b + (T[ax] if kind == 'pos' else 0.0)
            if not (abs(a - want) <= tol * (1 + abs(b)) or (a != a and b != b)):
                diffs.append({'t': T, 'what': '%s output %d is %r, expected %r' % (kind, k, a, want)}); break
    native.close()
    return diffs

def division_axis_part(chk):
    """the division axis (cell::get_cell_longest_axis, used by the real divide_cell, which the whole-iteration runs replace by its contract):
    the matrix handed to the 3x3 eigen-solver must not mention the translation"""
    import math
    from checks import meshes as M
    from irsym.interp import K_DOUBLE
    EIG = '_ZNK5mat3319eigen_decompositionEv'
    ir = build.build_ir(['h_cell.cpp'])
    nat = build.build_native(['h_cell.cpp'])
    native = api.Native(nat)
    T = [S.var(v) for v in TVARS]
    for name in ('T5', 'T6'):
        m = M.CATALOGUE[name]
        base = [[p[0] * 1.0 + 0.0371 * i, p[1] * 1.7 - 0.0213 * i, p[2] * 0.8 + 0.0127 * i * i] for i, p in enumerate(m['pts'])]
        mats = []
        def eig_stub(it, a, mats=mats):
            mats.append([it.load(a[1] + 8 * k, 8, K_DOUBLE) for k in range(9)])
            vals = (3.0, 2.0, 1.0)
            for k in range(3): it.store(a[0] + 8 * k, 8, vals[k])
            ident = (1.0, 0.0, 0.0, 0.0, 1.0, 0.0, 0.0, 0.0, 1.0)
            for k in range(9): it.store(a[0] + 24 + 8 * k, 8, ident[k])
            return None
        def setup(it): it.poly_mode = True; it.poly_residue = Fraction(1, 10 ** 12)
        sess = api.Session(ir, mode='real', overrides={EIG: eig_stub}, setup=setup)
        din = [S.add(S.const(Fraction(c)), T[k]) for p in base for k, c in enumerate(p)]
        z = SV.Z3Ctx()
        box = [S.band(S.cmp('ge', v, S.const(-100)), S.cmp('le', v, S.const(100))) for v in T]
        ctl, res = sess.explore('h_c12_axis', din, M.iin_of(m), assumptions=box, zctx=z, max_paths=8, branch_timeout_ms=5000)
        chk.paths += ctl.paths_done; chk.functions |= sess.functions_called
        real = [(tr, pc, r) for (tr, pc, r) in res if getattr(r, 'status', None) != 'pathend']
        tag = 'division axis/%s (stretched, generic offsets)' % name
        single = len(real) == 1 and ctl.exhausted and real[0][2].status == 'ok'
        tfree = bool(mats) and all(type(x) is float for x in mats[-1])
        chk.ob(tag + '/get_cell_longest_axis: single path, the matrix handed to the eigen-solver does not mention the translation', 'proved' if (single and tfree) else 'violated', True, 0,
               None if (single and tfree) else {'paths': len(real), 'entries': [S.show(x, 3) if isinstance(x, S.Node) else x for x in (mats[-1] if mats else [])][:9]})
        if not (single and tfree):
            # native differential of the axis itself
            q0 = native.call('h_c12_axis', [c for p in base for c in p], M.iin_of(m))
            diff = None
            for t in [(0.0, 0.7, 0.0), (35.3, -71.9, 12.1), (-3.7, 0.41, 12.9), (5.5, 5.5, 5.5), (-250.0, 130.0, 77.0)]:
                q = native.call('h_c12_axis', [c + t[k] for p in base for k, c in enumerate(p)], M.iin_of(m))
                if q.get('status') != 0 or q0.get('status') != 0: continue
                a0 = q0['d'][0:3]; a1 = q['d'][0:3]
                dot = abs(sum(x * y for x, y in zip(a0, a1)))
                if dot < 1 - 1e-6:
                    diff = 'native longest axis %r at t=0 and %r at t=%r (%.2f degrees apart)' % ([round(x, 6) for x in a0], [round(x, 6) for x in a1], t, math.degrees(math.acos(min(1.0, dot)))); break
            rep = {'mesh': name, 'coordinates': base, 'matrix entries': [S.show(x, 3) if isinstance(x, S.Node) else x for x in (mats[-1] if mats else [])], 'native': diff,
                   'how': 'harness h_c12_axis (/verif/harness/h_cell.cpp): cell::get_cell_longest_axis on the mesh translated by t'}
            if diff:
                chk.violation('C14/division axis depends on the absolute position', '%s: %s' % (tag, diff), rep)
            else:
                chk.fail_closed.append(tag + ': translation-dependent matrix reported symbolically, native axes agree at the probe translations')
    native.close()

def main(chk):
    quick = chk.tier == 'quick'
    nsteps = 3 if quick else 8
    cfgs = []
    for contact in (0, 1, 2):
        for dynamic in ((0,) if (quick and contact != 1) else (0, 1)):
            for ti in range(len(tissues())):
                if quick and contact != 1 and ti in (0, 3): continue
                cfgs.append((contact, dynamic, ti, nsteps))
    chk.trusted += ['clang -O1 lowering (validated per run on the untranslated tissue, bitwise against the native build)', 'irsym incl. OpenMP runtime model (sequential semantics), writer / filesystem stubs, cell_divider::divide_cell replaced by its contract',
                    'exact polynomial normal form in t (rational coefficients); z3 for every decision or address that still mentions t']
    chk.assumptions += ['exact-real reading of the translated coordinates: rounding of c_i + t is not modelled (the property allows differences "to rounding accuracy")', '|t_k| <= 100 for the solver decisions (the polynomial identities themselves hold for every t)',
                        'decisions that do not mention t are taken as in the untranslated floating-point run', 'coefficients of t below 1e-12 are rounding residue of factors that were evaluated in floating point (e.g. barycentric weights summing to 1 +- 1 ulp) and are dropped: with |t| <= 1e5 no value changes by more than 1e-7', 'tissue geometry, parameters and cell classes concrete (listed in bounds)']
    chk.bounds = {'tissues': [t[0] for t in tissues()], 'iterations': nsteps, 'contact models': '0, 1, 2', 'dynamic models': '0 (semi-implicit), 1 (overdamped)',
                  'outside': 'rounding effects of large translations (C20 covers the grid index arithmetic bit-precisely), trajectories longer than the bound, real cell division (stubbed), polarisation modes other than the default'}
    # translator validation (untranslated tissue, default configuration)
    ir1 = build.build_ir(['h_sim.cpp'], contact=1, dynamic=0)
    nat1 = build.build_native(['h_sim.cpp'], contact=1, dynamic=0)
    ov = {}
    ov.update(envstubs.fs_stubs()); ov.update(envstubs.writer_stubs()); ov.update(envstubs.divide_stub())
    def setup_ref(it): it.strict_undef = False
    sc = api.Session(ir1, mode='ieee', overrides=ov, setup=setup_ref)
    native = api.Native(nat1)
    mism = 0; nval = 0
    for ti in range(len(tissues())):
        for T in [(0.0, 0.0, 0.0), PROBE_T[1]]:
            din, iin = inputs(tissues()[ti], 2, T)
            r = sc.run(ENTRY, din, iin); q = native.call(ENTRY, din, iin)
            nval += 1
            if r.status != 'ok' or q.get('status') != 0 or r.iout != q['i'] or len(r.dout) != len(q['d']) or not all(api.same_double(a, b) for a, b in zip(r.dout, q['d'])):
                mism += 1; chk.note('validation mismatch on tissue %d, t=%r: %r' % (ti, T, (r.status, getattr(r, 'error', None))))
    native.close()
    chk.validation = {'programs': 1, 'inputs': nval, 'mismatches': mism}
    chk.functions |= sc.functions_called

    outs = par.pmap(lambda i: run_config(cfgs[i], quick), len(cfgs), procs=14)
    for cfg, o in zip(cfgs, outs):
        chk.paths += o['paths']; chk.queries += o['queries']; chk.solver_s += o['solver_s']
        chk.functions |= set(o['functions'])
        for m in o['fail']: chk.fail_closed.append(m)
        for (name, status, core, t, detail) in o['obs']: chk.ob(name, status, core, t, detail)
        if len(chk.samples) < 8 and o['obs']: chk.samples.append({'configuration': o['name'], 'paths': o['paths'], 'obligations': [(n.split('/')[-1][:80], s) for (n, s, _, _, _) in o['obs']]})
        if o['cands']:
            diffs = native_differential(cfg, o.get('probes', []))
            for (what, detail) in o['cands']:
                rep = {'configuration': o['name'], 'what': what, 'detail': detail, 'native differential (t = 0 against probe translations)': diffs,
                       'how': 'harness h_sim (/verif/harness/h_sim.cpp), din[7..9] = translation; contact/dynamic model selected with the guarded overrides'}
                if diffs:
                    chk.violation('C14/%s/contact model %d' % (what, cfg[0]), '%s [%s]; native: %s at t=%r' % (what, o['name'], diffs[0]['what'], diffs[0]['t']), rep)
                else:
                    chk.fail_closed.append('%s: "%s" reported symbolically but native runs at the probe translations agree with the untranslated run: undecided' % (o['name'], what))
    division_axis_part(chk)
    if not any(o['obs'] for o in outs): chk.fail_closed.append('no configuration produced obligations')
    chk.witnesses = sum(1 for o in outs if o['obs'] and o['paths'] >= 1)
    chk.finish(level='other', explanation=(
        'Whole iterations of the real solver run symbolically with every input coordinate = concrete + t (t symbolic). Polynomials in t are kept in exact canonical form, so difference-based code runs concretely; any branch condition or '
        'address still mentioning t goes to z3 and, if both outcomes are feasible for some translations, is reported. After every iteration positions must be reference + t and all other state t-free and equal to the untranslated run. '
        'Reports are confirmed by native runs at concrete translations.'))

if __name__ == '__main__':
    run_check('C14', main)
