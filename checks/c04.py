#!/usr/bin/env python3
"""C04 — growth, pressure, division trigger, 3-sigma clamp: the real update_target_volume,
update_pressure, is_ready_to_divide (through the vtable of each of the five cell classes),
is_below_min_vol and initialize_random_properties run in irsym with every scalar symbolic; z3
decides the closed-form laws on every feasible path. The removal statement of solver::run_iteration is decided by the removal part (real solver,
symbolic minimum volumes)."""
import math
from fractions import Fraction
import os
import random
import sys

sys.path.insert(0, os.path.dirname(os.path.dirname(os.path.abspath(__file__))))
from checks.framework import run_check
from irsym import api, build, sym as S, solver as SV, par

CLASSES = ['epithelial', 'ecm', 'lumen', 'nucleus', 'static']
ND = '_ZNSt19normal_distributionIdEclISt26linear_congruential_engineImLm48271ELm0ELm2147483647EEEEdRT_RKNS0_10param_typeE'

def main(chk):
    quick = chk.tier == 'quick'
    ir = build.build_ir(['h_cell.cpp'])
    nat = build.build_native(['h_cell.cpp'])
    native = api.Native(nat)
    rng = random.Random(chk.seed + 3)
    chk.trusted += ['clang-14 lowering validated per run against g++ -O2', 'irsym + z3', 'log(x) is an uninterpreted function (libm trusted); exact-real reading',
                    'std::normal_distribution::operator() replaced by a stub returning mean + stddev * Z with Z an arbitrary real (randomness = nondeterministic environment)']
    chk.assumptions += ['V > 0, V_target > 0, K > 0 (documented positivity of volumes and bulk modulus)', 'sigma >= 0']
    chk.bounds = {'classes': CLASSES, 'cases': 'P_max finite|+inf, V_div finite|+inf, sigma zero|non-zero, mu_div finite|+inf', 'loops': 'none (closed-form code)',
                  'outside': 'numeric value of log; removal loop and initial-pressure statement of the solver (see C08)'}

    # ---- translator validation ------------------------------------------------------------------------
    sc = api.Session(ir, mode='ieee')
    mism = 0; nval = 0
    for k in range(60 if quick else 300):
        din = [rng.uniform(0.1, 5), rng.uniform(0.1, 5), rng.uniform(0.1, 1e3), rng.uniform(-10, 100), rng.uniform(-1, 1), rng.uniform(1e-4, 1), rng.uniform(0, 3), rng.uniform(0.1, 6)]
        iin = [k % 5, (k // 5) % 2, (k // 10) % 2]
        r = sc.run('h_c04_cycle', din, iin); q = native.call('h_c04_cycle', din, iin)
        nval += 1
        if r.status != 'ok' or r.iout != q['i'] or not all(api.same_double(x, y) for x, y in zip(r.dout, q['d'])):
            mism += 1; chk.note('validation mismatch h_c04_cycle %r %r: %r vs %r' % (din, iin, r.dout, q))
    chk.validation = {'programs': 1, 'inputs': nval, 'mismatches': mism}
    chk.functions |= sc.functions_called

    z = SV.Z3Ctx()
    names = ['V', 'Vt', 'K', 'Pmax', 'g', 'dt', 'minvol', 'Vdiv']
    V, Vt, K, Pmax, g, dt, minvol, Vdiv = [S.var(n) for n in names]
    pre = [S.cmp('gt', V, S.ZERO), S.cmp('gt', Vt, S.ZERO), S.cmp('gt', K, S.ZERO), S.cmp('gt', minvol, S.ZERO)]
    sess = api.Session(ir, mode='real')
    tasks = []
    def add(name, pc, claim, info):
        tasks.append((name, list(pc), claim, 30000, True, info))
    for cls in range(5):
        for pinf in (0, 1):
            for dinf in (0, 1):
                ctl, res = sess.explore('h_c04_cycle', [V, Vt, K, Pmax, g, dt, minvol, Vdiv], [cls, pinf, dinf], assumptions=pre, zctx=z, max_paths=64, branch_timeout_ms=5000)
                chk.absorb(session=sess, ctl=ctl)
                if not ctl.exhausted: chk.fail_closed.append('path budget exhausted (cycle)')
                seen_ready = set()
                for (tr, pc, r) in res:
                    if getattr(r, 'status', None) != 'ok':
                        if getattr(r, 'status', None) != 'pathend': chk.fail_closed.append('cycle path: %r' % (getattr(r, 'error', r),))
                        continue
                    key = '%s/Pmax=%s/Vdiv=%s/%s' % (CLASSES[cls], 'inf' if pinf else 'fin', 'inf' if dinf else 'fin', ''.join('T' if d.taken else 'F' for d in tr))
                    info = {'cls': cls, 'pinf': pinf, 'dinf': dinf}
                    vt_out, p_out = S.R(r.dout[0]), S.R(r.dout[1])
                    ready, below, static = r.iout
                    def as_bool(v):
                        if isinstance(v, S.Node): return S.cmp('ne', v, S.iconst(0, v.width)) if v.sort == 'I' else v
                        return S.TRUE if v else S.FALSE
                    # target volume law: max(Vt + g*dt, minvol)
                    grown = S.add(Vt, S.mul(dt, g))
                    law_vt = S.ite(S.cmp('lt', grown, minvol), minvol, grown)
                    add(key + '/target-volume-law', pc, S.cmp('eq', vt_out, law_vt), info)
                    # pressure law: min(-K*log(V/Vt'), Pmax)
                    L = S.uf('log', S.div(V, vt_out))
                    raw = S.neg(S.mul(K, L))
                    law_p = raw if pinf else S.ite(S.cmp('gt', raw, Pmax), Pmax, raw)
                    add(key + '/pressure-law', pc, S.cmp('eq', p_out, law_p), dict(info, log_node=L, ratio=(V, vt_out)))
                    # eligibility: epithelial iff V >= Vdiv ; others never
                    if cls == 0 and not dinf:
                        want = S.cmp('ge', V, Vdiv)
                        add(key + '/ready<=>V>=Vdiv', pc, S.bnot(S.bxor(as_bool(ready), want)), info)
                        add(key + '/ready reachable', pc, S.bnot(as_bool(ready)), dict(info, expect='violated'))
                        add(key + '/not-ready reachable', pc, as_bool(ready), dict(info, expect='violated'))
                    else:
                        if isinstance(ready, S.Node) or ready:
                            chk.violation('C04/eligibility/%s' % CLASSES[cls], '%s cell reported ready to divide (class must never divide / infinite division volume)' % CLASSES[cls], {'iin': [cls, pinf, dinf]})
                        chk.ob(key + '/never ready', 'proved' if (not isinstance(ready, S.Node) and not ready) else 'violated', True, 0)
                        chk.obligations[-1]['trivial'] = True
                    want = S.cmp('lt', V, minvol)
                    add(key + '/below<=>V<Vmin', pc, S.bnot(S.bxor(as_bool(below), want)), info)
                    add(key + '/witness', pc, S.FALSE, info)
                    if static != (1 if cls in (1, 4) else 0):
                        chk.violation('C04/static-flag/%s' % CLASSES[cls], 'static flag of class %s is %d' % (CLASSES[cls], static), {})

    # ---- 3-sigma clamp -------------------------------------------------------------------------------------
    mu_g, sg_g, mu_d, sg_d = [S.var(n) for n in ('mu_g', 'sigma_g', 'mu_div', 'sigma_div')]
    draws = []
    def nd_stub(it, args):
        # operator()(urng, param): param_type {mean, stddev}
        p = args[2]
        mean = it.load(p, 8, api.K_DOUBLE); sd = it.load(p + 8, 8, api.K_DOUBLE)
        zv = S.var('Z%d' % len(draws)); draws.append(zv)
        return S.add(S.R(mean), S.mul(S.R(sd), zv))
    sess2 = api.Session(ir, mode='real', overrides={ND: nd_stub})
    if ND not in sess2.module.funcs:
        chk.fail_closed.append('std::normal_distribution::operator() instantiation not found under its expected symbol; stub not applied')
    pre2 = [S.cmp('ge', sg_g, S.ZERO), S.cmp('ge', sg_d, S.ZERO)]
    for cls in ([0] if quick else range(5)):
        for zg in (0, 1):
            for zd in (0, 1):
                for dinf in (0, 1):
                    def run_path(c):
                        del draws[:]
                        return sess2.run('h_c04_random', [mu_g, sg_g, mu_d, sg_d], [cls, zg, zd, dinf], pathctl=c)
                    ctl = SV.PathController(z, 5000, 64)
                    ctl.assumptions = list(pre2)
                    res = ctl.explore(run_path)
                    chk.paths += ctl.paths_done
                    if not ctl.exhausted: chk.fail_closed.append('path budget exhausted (random)')
                    for (tr, pc, r) in res:
                        if getattr(r, 'status', None) != 'ok':
                            if getattr(r, 'status', None) != 'pathend': chk.fail_closed.append('random path: %r' % (getattr(r, 'error', r),))
                            continue
                        key = 'clamp/%s/sg0=%d/sd0=%d/divinf=%d/%s' % (CLASSES[cls], zg, zd, dinf, ''.join('T' if d.taken else 'F' for d in tr))
                        info = {'random': [cls, zg, zd, dinf]}
                        gr, dv = r.dout
                        three = S.const(3)
                        if zg:
                            add(key + '/growth=mu', pc, S.cmp('eq', S.R(gr), mu_g), info)
                        else:
                            add(key + '/growth in mu+-3sigma', pc, S.band(S.cmp('ge', S.R(gr), S.sub(mu_g, S.mul(three, sg_g))), S.cmp('le', S.R(gr), S.add(mu_g, S.mul(three, sg_g)))), info)
                        if dinf:
                            ok = type(dv) is float and dv == math.inf
                            chk.ob(key + '/division volume=+inf', 'proved' if ok else 'violated', True, 0)
                            chk.obligations[-1]['trivial'] = True
                            if not ok: chk.violation('C04/clamp/infinite-division-volume', 'infinite mean division volume not propagated: %r' % (dv,), {})
                        elif zd:
                            add(key + '/divvol=mu', pc, S.cmp('eq', S.R(dv), mu_d), info)
                        else:
                            add(key + '/divvol in mu+-3sigma', pc, S.band(S.cmp('ge', S.R(dv), S.sub(mu_d, S.mul(three, sg_d))), S.cmp('le', S.R(dv), S.add(mu_d, S.mul(three, sg_d)))), info)
                        add(key + '/witness', pc, S.FALSE, info)
    chk.functions |= sess2.functions_called

    tasks += mesh_part(chk, ir, native, z, quick)
    chk.log('discharging %d obligations' % len(tasks))
    outs = par.prove_all(z, [t[:4] for t in tasks])
    chk.queries += z.queries
    for (nm, pc, cl, _, core, info), (st, model, dt_) in zip(tasks, outs):
        chk.solver_s += dt_
        if nm.endswith('/witness') or (info or {}).get('expect') == 'violated':
            if st == 'violated': chk.witnesses += 1
            elif nm.endswith('/witness') and st == 'proved': chk.note('%s: infeasible path explored' % nm)
            else: chk.witness_failures.append('%s: expected a model, got %s' % (nm, st))
            continue
        if st == 'violated':
            rep = replay_mesh(native, info, model, nm) if (info or {}).get('mesh') else replay(native, info, model, nm)
            if not rep['reproduced'] and (info or {}).get('log_node') is not None:
                # the solver treats log as an uninterpreted function: its model may give log a value the real logarithm does not take.
                # Look for a counterexample in which log(V/Vt') has its true value (pinned at a list of ratios)
                V_, vt_ = info['ratio']
                for rho in (Fraction(1, 1000), Fraction(1, 10), Fraction(1, 2), Fraction(9, 10), Fraction(1), Fraction(11, 10), Fraction(3, 2), Fraction(2), Fraction(10), Fraction(1000)):
                    pin = [S.cmp('eq', V_, S.mul(S.const(rho), vt_)), S.cmp('eq', info['log_node'], S.const(Fraction(math.log(rho)).limit_denominator(10 ** 12)))]
                    st2, m2 = SV.prove(z, list(pc) + pin, cl, 20000)
                    chk.queries += 1
                    if st2 == 'violated':
                        rep2 = replay(native, info, m2, nm)
                        if rep2['reproduced']:
                            rep = rep2; model = m2; break
            chk.ob(nm, 'violated' if rep['reproduced'] else 'unknown', core, dt_, detail=rep, sample={'obligation': nm, 'model': model})
            if rep['reproduced']:
                chk.violation('C04/' + nm.split('/')[-1], '%s: %s' % (nm, rep['what']), rep)
        else:
            chk.ob(nm, st, core, dt_, sample={'obligation': nm, 'status': st} if len(chk.samples) < 8 else None)
    native.close()
    removal_part(chk, quick)
    chk.finish(level='other', explanation=(
        'update_target_volume, update_pressure, is_ready_to_divide (virtual, five classes), is_below_min_vol and initialize_random_properties are '
        'executed in irsym with V, V_target, K, P_max, growth rate, dt, V_min, V_div, mu, sigma symbolic (P_max and V_div also +inf). On every feasible '
        'path z3 proves the target-volume law, the capped logarithmic pressure law (same log application), eligibility <=> V >= V_div for epithelial '
        'cells and never for the other classes, removal predicate <=> V < V_min, and the 3-sigma clamp for an arbitrary drawn sample.'))

FORCE_TERMS = ['cell::apply_bending_forces()', 'cell::regularize_face_angles(face const&)', 'cell::apply_pressure_on_surface()',
               'cell::apply_surface_tension_and_membrane_elasticity()', 'cell::compute_node_curvature_and_normals()']
MESH_CLASSES = {0: 'epithelial', 2: 'lumen', 3: 'nucleus', 4: 'static'}
TET_FACES = [(0, 2, 1), (0, 1, 3), (0, 3, 2), (1, 2, 3)]

def mesh_part(chk, ir, native, z, quick):
    """V in the laws is the enclosed volume of the mesh as it is now: a cell is built and initialised on one tetrahedron (coordinates X0),
    its nodes are moved to X1 (all 24 coordinates symbolic) and the real apply_internal_forces(dt) runs; the force terms it calls after the
    pressure update are replaced by empty bodies (they are C02's subject and do not write volume, target volume or pressure)."""
    import subprocess
    from checks import meshes as M
    mod = api.load_module(ir)
    names = list(mod.funcs)
    dem = subprocess.run(['c++filt'], input='\n'.join(names), capture_output=True, text=True).stdout.split('\n')
    ov = {}
    for n, d in zip(names, dem):
        if d in FORCE_TERMS: ov[n] = (lambda it, args: None)
    if len(ov) != len(FORCE_TERMS):
        chk.fail_closed.append('mesh part: %d of %d force-term symbols found for the stubs' % (len(ov), len(FORCE_TERMS)))
    chk.assumptions += ['mesh part: both tetrahedra (at construction and now) are outward oriented with positive volume; surface moduli are 0 and the force terms '
                        'called by apply_internal_forces after the pressure update have empty bodies (stubs: %s)' % ', '.join(FORCE_TERMS)]
    # translator validation on concrete inputs (no stubs)
    sc = api.Session(ir, mode='ieee')
    rng = random.Random(chk.seed + 11)
    base = [0, 0, 0, 1, 0, 0, 0, 1, 0, 0, 0, 1]
    for k in range(12 if quick else 40):
        x0 = [b + rng.uniform(-0.2, 0.2) for b in base]; x1 = [1.3 * b + rng.uniform(-0.2, 0.2) for b in base]
        din = x0 + x1 + [rng.uniform(0.1, 1), rng.uniform(1, 100), rng.uniform(1, 50), rng.uniform(-1, 1), rng.uniform(1e-3, 0.1), rng.uniform(0.01, 0.3)]
        iin = [[0, 2, 3, 4][k % 4], (k // 4) % 2]
        r = sc.run('h_c04_mesh', din, iin); q = native.call('h_c04_mesh', din, iin)
        chk.validation['inputs'] += 1
        if r.status != 'ok' or r.iout != q['i'] or not all(api.same_double(x, y) for x, y in zip(r.dout, q['d'])):
            chk.validation['mismatches'] += 1; chk.note('validation mismatch h_c04_mesh %r: %r vs %r' % (iin, getattr(r, 'dout', None), q))
    chk.validation['programs'] += 1
    chk.functions |= sc.functions_called
    X0 = [[S.var('a%d_%d' % (i, k)) for k in range(3)] for i in range(4)]
    X1 = [[S.var('b%d_%d' % (i, k)) for k in range(3)] for i in range(4)]
    Vt, K, Pmax, g, dt, minvol = [S.var(n) for n in ('mVt', 'mK', 'mPmax', 'mg', 'mdt', 'mminvol')]
    six = S.const(6)
    v0 = S.div(M.signed_volume6(X0, TET_FACES), six); v1 = S.div(M.signed_volume6(X1, TET_FACES), six)
    pre = [S.cmp('gt', v0, S.ZERO), S.cmp('gt', v1, S.ZERO), S.cmp('gt', Vt, S.ZERO), S.cmp('gt', K, S.ZERO), S.cmp('gt', minvol, S.ZERO)]
    sess = api.Session(ir, mode='real', overrides=ov)
    tasks = []
    for cls in sorted(MESH_CLASSES):
        for pinf in (0, 1):
            ctl, res = sess.explore('h_c04_mesh', M.flat(X0) + M.flat(X1) + [Vt, K, Pmax, g, dt, minvol], [cls, pinf], assumptions=pre, zctx=z, max_paths=64, branch_timeout_ms=5000, generic_position=True)
            chk.absorb(session=sess, ctl=ctl)
            if not ctl.exhausted: chk.fail_closed.append('path budget exhausted (mesh part)')
            n_ok = 0
            for (tr, pc, r) in res:
                st = getattr(r, 'status', None)
                if st != 'ok':
                    if st != 'pathend': chk.fail_closed.append('mesh part path: %r' % (getattr(r, 'error', r),))
                    continue
                n_ok += 1
                key = 'mesh/%s/Pmax=%s/%s' % (MESH_CLASSES[cls], 'inf' if pinf else 'fin', ''.join('T' if d.taken else 'F' for d in tr))
                info = {'mesh': True, 'cls': cls, 'pinf': pinf}
                vol, vt_out, p_out = S.R(r.dout[0]), S.R(r.dout[1]), S.R(r.dout[2])
                below = r.iout[0]
                bb = (S.cmp('ne', below, S.iconst(0, below.width)) if below.sort == 'I' else below) if isinstance(below, S.Node) else (S.TRUE if below else S.FALSE)
                tasks.append((key + '/stored volume = enclosed volume of the mesh as it is now', list(pc), S.cmp('eq', vol, v1), 30000, True, info))
                grown = S.add(Vt, S.mul(dt, g))
                tasks.append((key + '/target-volume-law', list(pc), S.cmp('eq', vt_out, S.ite(S.cmp('lt', grown, minvol), minvol, grown)), 30000, True, info))
                L = S.uf('log', S.div(vol, vt_out))
                raw = S.neg(S.mul(K, L))
                law_p = raw if pinf else S.ite(S.cmp('gt', raw, Pmax), Pmax, raw)
                tasks.append((key + '/pressure-law on the stored volume', list(pc), S.cmp('eq', p_out, law_p), 30000, True, info))
                tasks.append((key + '/below<=>V(now)<Vmin', list(pc), S.bnot(S.bxor(bb, S.cmp('lt', v1, minvol))), 30000, True, info))
                tasks.append((key + '/witness', list(pc), S.FALSE, 4000, True, info))
            if not n_ok: chk.fail_closed.append('mesh part: no completed path for class %s' % MESH_CLASSES[cls])
    chk.functions |= sess.functions_called
    return tasks

def replay_mesh(native, info, model, nm):
    if not model: return {'reproduced': False, 'what': 'no model'}
    g = lambda n, d=0.0: float(Fraction(model.get(n, d)))
    base = [0, 0, 0, 1, 0, 0, 0, 1, 0, 0, 0, 1]
    x0 = [g('a%d_%d' % (i, k), base[3 * i + k]) for i in range(4) for k in range(3)]
    x1 = [g('b%d_%d' % (i, k), base[3 * i + k]) for i in range(4) for k in range(3)]
    din = x0 + x1 + [g('mVt', 1.0), g('mK', 1.0), g('mPmax', 1e9), g('mg', 0), g('mdt', 0.1), g('mminvol', 0.01)]
    iin = [info['cls'], info['pinf']]
    q = native.call('h_c04_mesh', din, iin)
    if q['status'] != 0: return {'reproduced': False, 'what': 'native failed', 'din': din, 'iin': iin}
    vol, vt, p, area = q['d']; below = q['i'][0]
    def tetvol(x):
        P = [x[3 * i:3 * i + 3] for i in range(4)]
        tot = 0.0
        for (a, b, c) in TET_FACES:
            A, B, C = P[a], P[b], P[c]
            tot += A[0] * (B[1] * C[2] - B[2] * C[1]) - A[1] * (B[0] * C[2] - B[2] * C[0]) + A[2] * (B[0] * C[1] - B[1] * C[0])
        return tot / 6.0
    v_now = tetvol(x1)
    scale = max(abs(v_now), abs(tetvol(x0)), 1e-300)
    probs = []
    if abs(vol - v_now) > 1e-9 * scale + 1e-12 * max(abs(c) for c in x1 + [1.0]) ** 3:
        probs.append('stored volume %r but the mesh now encloses %r (at construction %r)' % (vol, v_now, tetvol(x0)))
    Vt, K, Pmax, gg, dt, mv = din[24:]
    exp_vt = max(Vt + gg * dt, mv)
    if abs(vt - exp_vt) > 1e-9 * max(1, abs(exp_vt)): probs.append('target volume %r, law gives %r' % (vt, exp_vt))
    if v_now > 0 and exp_vt > 0:
        exp_p = -K * math.log(v_now / exp_vt)
        if not info['pinf']: exp_p = min(exp_p, Pmax)
        if abs(p - exp_p) > 1e-6 * max(1, abs(exp_p)): probs.append('pressure %r, law on the current mesh gives %r' % (p, exp_p))
    if abs(v_now - mv) > 1e-9 * scale and bool(below) != (v_now < mv): probs.append('below_min=%d but V(now)=%r Vmin=%r' % (below, v_now, mv))
    return {'reproduced': bool(probs), 'what': '; '.join(probs) or 'native agrees with the law', 'din': din, 'iin': iin}

def parse_dumps(iout, dout, contact=1):
    """all population dumps of h_sim: list of {cell id: (volume, target volume, local id)}"""
    ip = 0; dp = 0; dumps = []
    while ip < len(iout):
        nc = iout[ip]; ip += 1
        cells = {}
        for c in range(nc):
            cid, lid, typ, nn, nf = iout[ip:ip + 5]; ip += 5
            sc = dout[dp:dp + 4]; dp += 4
            for k in range(nn):
                ip += 1; dp += 3
                if contact == 1: ip += 3
                ip += 1
            ip += 7 * nf
            cells[cid] = (sc[0], sc[1], lid)
        dumps.append(cells)
    return dumps

def removal_problems(dumps, ref, mv):
    """dumps[k+1] = population after iteration k; ref[k+1][i][0] = volume of cell i used by iteration k (from a run without removals)"""
    probs = []
    for k in range(1, len(dumps)):
        for i in ref[0]:
            below = [j for j in range(1, k + 1) if ref[j][i][0] < mv[i]]
            present = i in dumps[k]
            if below and present: probs.append('cell %d is still in the population after iteration %d although its volume %r was below its minimum volume %r in iteration %d' % (i, k - 1, ref[below[0]][i][0], mv[i], below[0] - 1))
            if not below and not present: probs.append('cell %d was removed by iteration %d although its volume never fell below its minimum volume %r (volumes %r)' % (i, k - 1, mv[i], [ref[j][i][0] for j in range(1, k + 1)]))
    return probs

def removal_part(chk, quick):
    """removal statement of solver::run_iteration: the real solver (constructor + 3 iterations, I/O and division stubbed) on three cells that do not
    interact, with the minimum volume of every cell type symbolic (below the target volume, so that nothing else depends on it). The volumes are
    concrete; which cell falls below its minimum in which iteration is decided by the solver, every combination is a path."""
    from irsym import envstubs
    ir = build.build_ir(['h_sim.cpp']); nat = build.build_native(['h_sim.cpp'])
    native = api.Native(nat)
    ov = {}
    ov.update(envstubs.fs_stubs()); ov.update(envstubs.writer_stubs()); ov.update(envstubs.divide_stub())
    def setup(it): it.strict_undef = False
    nc, nsteps = 3, 3
    def inputs(mv):
        din = [0.001, 1.0, 0.3, 0.25, 0.25, 0.01, 1.0, 0, 0, 0]
        for c in range(nc): din += [1.0 + 0.1 * c, 3.0 * c, 0.05 * c, 0.02 * c, mv[c], 1e9, 0.0]
        iin = [nc, nsteps] + [0, 1, 0][:nc] + [0, 2, 3][:nc] + [3] * nc + [0] * (nsteps * nc)
        return din, iin
    chk.assumptions += ['removal part: three cells far apart (no contacts), growth rate 0, 0 < V_min < initial target volume of the cell (the minimum volume then enters nothing but the removal test); '
                        'divisions, file output and the file system are stubbed']
    # reference: nothing is removed
    sc = api.Session(ir, mode='ieee', overrides=ov, setup=setup)
    din0, iin0 = inputs([1e-9] * nc)
    r0 = sc.run('h_sim', din0, iin0); q0 = native.call('h_sim', din0, iin0)
    chk.validation['programs'] += 1; chk.validation['inputs'] += 1
    if r0.status != 'ok' or q0.get('status') != 0 or r0.iout != q0['i'] or not all(api.same_double(a, b) for a, b in zip(r0.dout, q0['d'])):
        chk.validation['mismatches'] += 1; chk.note('removal part: validation mismatch on the reference run %r' % ((r0.status, getattr(r0, 'error', None)),))
        native.close(); return
    chk.functions |= sc.functions_called
    ref = parse_dumps(r0.iout, r0.dout)
    if len(ref) != nsteps + 1 or any(len(d) != nc for d in ref):
        chk.fail_closed.append('removal part: reference run lost a cell'); native.close(); return
    ids = sorted(ref[0])
    MV = {i: S.var('vmin%d' % i) for i in ids}
    pre = []
    for i in ids:
        pre += [S.cmp('gt', MV[i], S.ZERO), S.cmp('lt', MV[i], S.R(ref[0][i][1]))]
    z = SV.Z3Ctx()
    sess = api.Session(ir, mode='real', overrides=ov, setup=setup)
    din, iin = inputs([MV[i] for i in ids])
    ctl, res = sess.explore('h_sim', din, iin, assumptions=pre, zctx=z, max_paths=200, branch_timeout_ms=5000)
    chk.absorb(session=sess, ctl=ctl)
    if not ctl.exhausted: chk.fail_closed.append('removal part: path budget exhausted')
    outcomes = set()
    for (tr, pc, r) in res:
        st = getattr(r, 'status', None)
        if st == 'pathend': continue
        if st != 'ok':
            chk.fail_closed.append('removal part: path ended with %s %r' % (st, getattr(r, 'error', None))); continue
        try:
            dumps = parse_dumps([int(v) for v in r.iout], r.dout)
        except Exception as e:
            chk.fail_closed.append('removal part: dump not concrete (%r)' % (e,)); continue
        sig = tuple(tuple(sorted(d)) for d in dumps)
        outcomes.add(sig)
        name = 'removal/populations after the iterations %r' % ([list(x) for x in sig[1:]],)
        claim = S.TRUE
        for k in range(1, len(dumps)):
            for i in ids:
                conds = [S.cmp('lt', S.R(ref[j][i][0]), MV[i]) for j in range(1, k + 1)]
                anyb = S.FALSE
                for c_ in conds: anyb = S.bor(anyb, c_)
                claim = S.band(claim, S.bnot(anyb) if i in dumps[k] else anyb)
        st1, m1 = SV.prove(z, list(pc), claim, 20000)
        chk.queries += 1
        # survivors evolve exactly as in the reference run (no interaction) and keep positions = list indices
        same = all(dumps[k][i][0] == ref[k][i][0] for k in range(len(dumps)) for i in dumps[k]) and all(sorted(v[2] for v in d.values()) == list(range(len(d))) for d in dumps)
        if not same: chk.fail_closed.append(name + ': a surviving cell differs from the reference run')
        if st1 == 'violated':
            mv = {i: float(Fraction(m1.get('vmin%d' % i, 1e-9))) if m1 else 1e-9 for i in ids}
            dn, inn = inputs([mv[i] for i in ids])
            q = native.call('h_sim', dn, inn)
            probs = []
            if q.get('status') == 0:
                probs = removal_problems(parse_dumps(q['i'], q['d']), parse_dumps(q0['i'], q0['d']), mv)
            rep = {'din': dn, 'iin': inn, 'minimum volumes': mv, 'problems': probs[:6], 'how': 'harness h_sim (/verif/harness/h_sim.cpp), native build: real solver on three non-interacting cells, population dumps after every iteration compared with the volumes of a run without removals'}
            chk.ob(name + '/a cell is in the population after iteration k iff its volume was never below V_min up to k', 'violated' if probs else 'unknown', True, 0, rep)
            if probs: chk.violation('C04/removal/cells below the minimum volume are removed at the end of that iteration and only those', '%s: %s' % (name, probs[0]), rep)
        else:
            chk.ob(name + '/a cell is in the population after iteration k iff its volume was never below V_min up to k', st1, True, 0)
    if len(outcomes) < 4: chk.fail_closed.append('removal part: only %d different removal histories were reached' % len(outcomes))
    chk.witnesses += len(outcomes)
    chk.functions |= sess.functions_called
    native.close()

def replay(native, info, model, nm):
    from fractions import Fraction
    if not model: return {'reproduced': False, 'what': 'no model'}
    g = lambda n, d=1.0: float(Fraction(model.get(n, d)))
    if 'random' in info:
        return {'reproduced': False, 'what': 'clamp counterexamples depend on the stubbed random draw; replay by reading (model %r)' % (model,)}
    din = [g('V'), g('Vt'), g('K'), g('Pmax', 1e9), g('g', 0), g('dt', 0.1), g('minvol', 0.1), g('Vdiv', 1)]
    iin = [info['cls'], info['pinf'], info['dinf']]
    q = native.call('h_c04_cycle', din, iin)
    if q['status'] != 0: return {'reproduced': False, 'what': 'native failed'}
    vt, p = q['d']; ready, below, _ = q['i']
    V, Vt, K, Pmax, gg, dt, mv, Vdiv = din
    exp_vt = max(Vt + gg * dt, mv)
    exp_p = -K * math.log(V / exp_vt) if V > 0 and exp_vt > 0 else float('nan')
    if not info['pinf']: exp_p = min(exp_p, Pmax)
    probs = []
    if abs(vt - exp_vt) > 1e-9 * max(1, abs(exp_vt)): probs.append('target volume %r, law gives %r' % (vt, exp_vt))
    if exp_p == exp_p and abs(p - exp_p) > 1e-9 * max(1, abs(exp_p)): probs.append('pressure %r, law gives %r' % (p, exp_p))
    if info['cls'] == 0 and not info['dinf'] and bool(ready) != (V >= Vdiv): probs.append('ready=%d but V=%r Vdiv=%r' % (ready, V, Vdiv))
    if bool(below) != (V < mv): probs.append('below_min=%d but V=%r Vmin=%r' % (below, V, mv))
    return {'reproduced': bool(probs), 'what': '; '.join(probs) or 'native agrees with the law', 'din': din, 'iin': iin}

if __name__ == '__main__':
    run_check('C04', main)
