#!/usr/bin/env python3
"""C12 — volume, area, centroid, bounding box, normals: the real cell constructor +
initialize_cell_properties + compute_* run in irsym on a catalogue of closed meshes with every
coordinate symbolic; z3 decides exactness (divergence theorem about an arbitrary origin), scaling,
permutation invariance, AABB tightness, centroid law, normal/area consistency and orientation
repair for every input winding pattern."""
import itertools
import os
import random
import sys
import time

sys.path.insert(0, os.path.dirname(os.path.dirname(os.path.abspath(__file__))))
from checks.framework import run_check
from checks import meshes as M
from irsym import api, build, sym as S, solver as SV, par

def parse_out(r, nf, with_flag):
    """h_c12_geom output layout"""
    d = r.dout; i = r.iout
    o = {'volume': d[0], 'area': d[1], 'centroid': d[2:5], 'aabb': d[5:11], 'faces': []}
    dp = 11; ip = 0
    for k in range(nf):
        used = i[ip]; ip += 1
        if not used:
            o['faces'].append(None); continue
        ids = tuple(i[ip:ip + 3]); ip += 3
        o['faces'].append({'ids': ids, 'normal': d[dp:dp + 3], 'area': d[dp + 3]})
        dp += 4
    if with_flag:
        o['manifold'] = i[ip]
    return o

def main(chk):
    quick = chk.tier == 'quick'
    ir = build.build_ir(['h_cell.cpp'])
    nat = build.build_native(['h_cell.cpp'])
    native = api.Native(nat)
    rng = random.Random(chk.seed + 5)
    names = ['T4', 'T5'] if quick else ['T4', 'T5', 'T6', 'T6b', 'T7']
    orient_names = ['T4', 'T5'] if quick else ['T4', 'T5', 'T6']
    chk.bounds = {'meshes': names, 'orientation_repair_meshes': orient_names, 'max_nodes': 5 if quick else 7,
                  'winding_patterns': 'all 2^F input windings per orientation mesh', 'permutations': 'all adjacent transpositions of node storage and of face storage',
                  'outside': 'the 3x3 eigen-solver itself (gte::SymmetricEigensolver3x3, iterative) is environment: the matrix it receives and the use of its result are checked; rounding/cancellation far from the origin is outside the exact-real claim'}
    chk.trusted += ['clang-14 lowering validated per run against g++ -O2 (bitwise) on random coordinates', 'irsym interpreter incl. its libstdc++ red-black-tree shim', 'z3 nlsat',
                    'exact-real reading of doubles; sqrt(x) = s with s>=0, s*s=x']
    chk.assumptions += ['input mesh closed, consistently wound, in generic position: every exact comparison of a real quantity with a constant made by the code (face-normal norm == 0) is assumed to fall on the non-equal side; signed volume non-zero',
                        'for exactness obligations the input is wound outward (signed volume > 0)']

    # ---- translator validation -----------------------------------------------------------------------
    sc = api.Session(ir, mode='ieee')
    mism = 0; nval = 0
    for name in names:
        m = M.CATALOGUE[name]
        for k in range(30 if quick else 100):
            off = rng.choice([0.0, 10.0, -1e4])
            din = [c + rng.uniform(-0.2, 0.2) + off for p in m['pts'] for c in p]
            faces = [f if rng.random() < 0.7 else (f[0], f[2], f[1]) for f in m['faces']]
            for h in ('h_c12_geom', 'h_c12_geom_noorient'):
                r = sc.run(h, din, M.iin_of(m, faces))
                q = native.call(h, din, M.iin_of(m, faces))
                nval += 1
                if r.status != 'ok' or r.iout != q['i'] or len(r.dout) != len(q['d']) or not all(api.same_double(x, y) for x, y in zip(r.dout, q['d'])):
                    mism += 1
                    chk.note('translator validation mismatch %s %s: %r / %r' % (name, h, r.error, q.get('status')))
    chk.validation = {'programs': 2, 'inputs': nval, 'mismatches': mism}
    chk.functions |= sc.functions_called

    z = SV.Z3Ctx()
    sess = api.Session(ir, mode='real')
    tasks = []
    tmo = 60000 if quick else 180000

    def add(name, pc, claim, core=True, t=None):
        tasks.append((name, list(pc), claim, t or tmo, core))

    for name in names:
        m = M.CATALOGUE[name]
        nf = len(m['faces'])
        X = M.sym_coords(m)
        faces = m['faces']
        nondeg = [S.cmp('gt', M.face_norm2(X, f), S.ZERO) for f in faces]
        outward = S.cmp('gt', M.signed_volume6(X, faces), S.ZERO)
        A = [outward]
        ctl, res = sess.explore('h_c12_geom_noorient', M.flat(X), M.iin_of(m), assumptions=A, zctx=z, max_paths=16, branch_timeout_ms=20000, generic_position=True)
        chk.absorb(session=sess, ctl=ctl)
        chk.log('%s: base run %d path(s), %d steps' % (name, len(res), sess.total_steps))
        good = [(tr, pc, r) for (tr, pc, r) in res if getattr(r, 'status', None) == 'ok']
        if len(good) != 1 or not ctl.exhausted:
            chk.fail_closed.append('%s: expected exactly one feasible path under the representation invariant, got %d (%r)' % (name, len(good), [getattr(r, 'status', r) for (_, _, r) in res]))
            continue
        tr, pc, r = good[0]
        o = parse_out(r, nf, False)
        add('%s/witness' % name, pc, S.FALSE)
        # exactness + translation invariance at once: divergence theorem about an arbitrary origin
        O = [S.var('o0'), S.var('o1'), S.var('o2')]
        add('%s/volume=divergence-theorem(any origin)' % name, pc, S.cmp('eq', S.mul(S.R(o['volume']), S.const(6)), M.signed_volume6(X, faces, O)))
        # area = sum of face areas ; face area = 1/2 |N_f| ; normal * |N_f| = N_f
        tot = S.ZERO
        for k, f in enumerate(faces):
            fo = o['faces'][k]
            tot = S.add(tot, S.R(fo['area']))
            n2 = M.face_norm2(X, fo['ids'])
            ar = S.R(fo['area'])
            add('%s/face%d/area^2=|N|^2/4' % (name, k), pc, S.band(S.cmp('eq', S.mul(S.mul(ar, ar), S.const(4)), n2), S.cmp('ge', ar, S.ZERO)))
            cr = M.face_cross(X, fo['ids'])
            cl = S.TRUE
            for c in range(3):
                cl = S.band(cl, S.cmp('eq', S.mul(S.R(fo['normal'][c]), S.mul(ar, S.const(2))), cr[c]))
            add('%s/face%d/normal*|N|=N' % (name, k), pc, cl)
            if tuple(fo['ids']) != tuple(f):
                chk.violation('C12/winding-changed-without-repair/%s' % name, 'initialize_cell_properties(false) changed the winding of face %d' % k, {'mesh': name})
        add('%s/area=sum(face areas)' % name, pc, S.cmp('eq', S.R(o['area']), tot))
        # centroid * area = sum A_f c_f
        for c in range(3):
            acc = S.ZERO
            for k, f in enumerate(faces):
                fo = o['faces'][k]
                cf = S.div(S.add(S.add(X[f[0]][c], X[f[1]][c]), X[f[2]][c]), S.const(3))
                acc = S.add(acc, S.mul(S.R(fo['area']), cf))
            add('%s/centroid[%d]*A=sum(A_f c_f)' % (name, c), pc, S.cmp('eq', S.mul(S.R(o['centroid'][c]), S.R(o['area'])), acc))
        # AABB tight
        for c in range(3):
            lo = S.R(o['aabb'][c]); hi = S.R(o['aabb'][3 + c])
            cl = S.TRUE; att_lo = S.FALSE; att_hi = S.FALSE
            for p in X:
                cl = S.band(cl, S.band(S.cmp('le', lo, p[c]), S.cmp('ge', hi, p[c])))
                att_lo = S.bor(att_lo, S.cmp('eq', lo, p[c])); att_hi = S.bor(att_hi, S.cmp('eq', hi, p[c]))
            add('%s/aabb axis %d tight' % (name, c), pc, S.band(cl, S.band(att_lo, att_hi)))
        # scaling: x -> lam * x
        lam = S.var('lam')
        Xs = [[S.mul(lam, c) for c in p] for p in X]
        ctl2, res2 = sess.explore('h_c12_geom_noorient', M.flat(Xs), M.iin_of(m), assumptions=A + [S.cmp('gt', lam, S.ZERO)], zctx=z, max_paths=16, branch_timeout_ms=20000, generic_position=True)
        chk.absorb(ctl=ctl2)
        good2 = [(t2, p2, r2) for (t2, p2, r2) in res2 if getattr(r2, 'status', None) == 'ok']
        if len(good2) != 1:
            chk.fail_closed.append('%s: scaled run has %d feasible paths' % (name, len(good2)))
        else:
            _, pc2, r2 = good2[0]
            o2 = parse_out(r2, nf, False)
            l2 = S.mul(lam, lam); l3 = S.mul(l2, lam)
            add('%s/V(lam x)=lam^3 V(x)' % name, pc + pc2, S.cmp('eq', S.R(o2['volume']), S.mul(l3, S.R(o['volume']))))
            cl = S.TRUE
            for k in range(nf):
                add('%s/face%d/A_f(lam x)=lam^2 A_f(x)' % (name, k), pc + pc2, S.cmp('eq', S.R(o2['faces'][k]['area']), S.mul(l2, S.R(o['faces'][k]['area']))))
        # storage permutations: adjacent transpositions of the node list and of the face list
        nn = len(X)
        perms = []
        for i in range(nn - 1):
            perms.append(('nodes', i))
        for i in range(nf - 1):
            perms.append(('faces', i))
        for kind, i in perms:
            if kind == 'nodes':
                # storage position of node i and i+1 exchanged: new coordinate list, faces relabelled
                sw = {i: i + 1, i + 1: i}
                Xp = list(X); Xp[i], Xp[i + 1] = X[i + 1], X[i]
                fp = [tuple(sw.get(v, v) for v in f) for f in faces]
            else:
                Xp = X
                fp = list(faces); fp[i], fp[i + 1] = fp[i + 1], fp[i]
            rp = sess.run('h_c12_geom_noorient', M.flat(Xp), M.iin_of(m, fp), pathctl=replay_ctl(z, A, chk))
            if rp.status != 'ok':
                chk.fail_closed.append('%s: permuted run failed: %r' % (name, rp.error)); continue
            op = parse_out(rp, nf, False)
            add('%s/perm %s %d: volume equal' % (name, kind, i), pc, S.cmp('eq', S.R(op['volume']), S.R(o['volume'])))
            add('%s/perm %s %d: area equal' % (name, kind, i), pc, S.cmp('eq', S.R(op['area']), S.R(o['area'])))
        # rotation (thorough): axis rotations
        if not quick:
            cs, sn = S.var('rot_c'), S.var('rot_s')
            unit = S.cmp('eq', S.add(S.mul(cs, cs), S.mul(sn, sn)), S.ONE)
            for axis in range(3):
                i_, j_ = [(1, 2), (2, 0), (0, 1)][axis]
                Xr = []
                for p in X:
                    q = list(p)
                    q[i_] = S.sub(S.mul(cs, p[i_]), S.mul(sn, p[j_])); q[j_] = S.add(S.mul(sn, p[i_]), S.mul(cs, p[j_]))
                    Xr.append(q)
                rr = sess.run('h_c12_geom_noorient', M.flat(Xr), M.iin_of(m), pathctl=replay_ctl(z, A + [unit], chk))
                if rr.status != 'ok':
                    chk.ob('%s/rotation axis %d' % (name, axis), 'unknown', False, 0, detail='run failed: %r' % (rr.error,)); continue
                orr = parse_out(rr, nf, False)
                add('%s/rotation axis %d: volume' % (name, axis), pc + [unit], S.cmp('eq', S.R(orr['volume']), S.R(o['volume'])), core=False)
                for k in range(nf):
                    add('%s/rotation axis %d: face %d area' % (name, axis, k), pc + [unit], S.cmp('eq', S.R(orr['faces'][k]['area']), S.R(o['faces'][k]['area'])), core=False)

    # ---- orientation repair for every input winding pattern --------------------------------------------------------
    for name in orient_names:
        m = M.CATALOGUE[name]
        nf = len(m['faces'])
        X = M.sym_coords(m)
        nondeg = [S.cmp('gt', M.face_norm2(X, f), S.ZERO) for f in m['faces']]
        nonflat = S.cmp('ne', M.signed_volume6(X, m['faces']), S.ZERO)
        patterns = list(itertools.product([0, 1], repeat=nf))
        def work(pi):
            pat = patterns[pi]
            faces = [f if not b else (f[0], f[2], f[1]) for f, b in zip(m['faces'], pat)]
            s2 = api.Session(ir, mode='real')
            z2 = SV.Z3Ctx()
            ctl, res = s2.explore('h_c12_geom', M.flat(X), M.iin_of(m, faces), assumptions=[nonflat], zctx=z2, max_paths=8, branch_timeout_ms=20000, generic_position=True)
            out = []
            for (tr, pc, r) in res:
                st = getattr(r, 'status', None)
                if st != 'ok':
                    out.append(('bad', repr(getattr(r, 'error', r)))); continue
                o = parse_out(r, nf, True)
                fl = [tuple(f['ids']) for f in o['faces']]
                probs = M.closed_manifold_report(fl)
                # every output face must be one of the input faces up to winding
                if sorted(tuple(sorted(f)) for f in fl) != sorted(tuple(sorted(f)) for f in faces):
                    probs.append('face set changed')
                # cached normal and area of every face agree with the *final* winding (normals point out of the cell)
                nbad = []
                for fk, fo in enumerate(o['faces']):
                    cr = M.face_cross(X, fo['ids'])
                    ar = S.R(fo['area'])
                    cl = S.cmp('ge', ar, S.ZERO)
                    for c_ in range(3):
                        cl = S.band(cl, S.cmp('eq', S.mul(S.R(fo['normal'][c_]), S.mul(ar, S.const(2))), cr[c_]))
                    stn, mdl = SV.prove(z2, pc, cl, tmo)
                    if stn != 'proved': nbad.append((fk, stn, mdl))
                stv, model = SV.prove(z2, pc, S.cmp('gt', M.signed_volume6(X, fl), S.ZERO), tmo)
                stw, _ = SV.prove(z2, pc, S.FALSE, tmo)
                stvol, _ = SV.prove(z2, pc, S.cmp('gt', S.R(o['volume']), S.ZERO), tmo)
                out.append(('ok', probs, stv, model, stw, stvol, o.get('manifold'), fl, ''.join('T' if d.taken else 'F' for d in tr), nbad))
            return out, len(res), s2.functions_called, z2.queries, z2.solver_time
        outs = par.pmap(work, len(patterns))
        for pat, (out, npaths, fc, nq, st_) in zip(patterns, outs):
            chk.paths += npaths; chk.functions |= fc; chk.queries += nq; chk.solver_s += st_
            pname = ''.join(map(str, pat))
            sides = 0
            for o in out:
                if o[0] == 'bad':
                    chk.fail_closed.append('%s winding %s: path failed: %s' % (name, pname, o[1])); continue
                _, probs, stv, model, stw, stvol, man, fl, tr, nbad = o
                if not nbad:
                    chk.ob('%s/orient %s/%s cached normals agree with the repaired winding' % (name, pname, tr), 'proved', True, 0)
                for (fk, stn, mdl) in nbad:
                    nmn = '%s/orient %s/%s face %d cached normal agrees with the repaired winding' % (name, pname, tr, fk)
                    if stn == 'violated':
                        rep = replay_normals(native, m, pat, mdl)
                        chk.ob(nmn, 'violated' if rep['reproduced'] else 'unknown', True, 0, detail=rep)
                        if rep['reproduced']:
                            chk.violation('C12/normal-opposite-to-winding-after-initialisation/%s' % name, rep['what'], rep)
                    else:
                        chk.ob(nmn, 'unknown', True, 0)
                if stw == 'violated': chk.witnesses += 1; sides += 1
                if probs:
                    chk.ob('%s/orient %s/%s consistent' % (name, pname, tr), 'violated', True, 0, detail=probs)
                    rep = replay_orientation(native, m, pat, model)
                    if rep['reproduced']:
                        chk.violation('C12/orientation-inconsistent/%s' % name, 'after initialisation the faces are not consistently oriented: %s' % probs[0], rep)
                else:
                    chk.ob('%s/orient %s/%s consistent' % (name, pname, tr), 'proved', True, 0)
                    chk.obligations[-1]['trivial'] = True   # concrete oracle on the path's topology
                chk.ob('%s/orient %s/%s outward (signed volume>0)' % (name, pname, tr), stv, True, 0, sample={'mesh': name, 'input_winding_flips': pname, 'path': tr, 'result_faces': fl, 'status': stv} if pat[0] and len(chk.samples) < 4 else None)
                if stv == 'violated':
                    rep = replay_orientation(native, m, pat, model)
                    if rep['reproduced']:
                        chk.violation('C12/orientation-inward/%s' % name, 'after initialisation the surface is wound inward (negative enclosed volume)', rep)
                chk.ob('%s/orient %s/%s volume>0' % (name, pname, tr), stvol, True, 0)
            if sides < 2:
                chk.note('%s winding %s: only %d feasible sign branch(es)' % (name, pname, sides))

    chk.log('discharging %d obligations' % len(tasks))
    # ---- bounding box with a free node slot: the input has an unreferenced point in slot 0 (freed by initialize_cell_properties), every
    #      coordinate symbolic incl. the position of the unreferenced point; the box must be the tight box of the LIVE nodes ------------------
    for name in (['T4'] if quick else ['T4', 'T5']):
        m0 = M.CATALOGUE[name]
        mx = {'name': name + '+unreferenced point in slot 0', 'pts': [(7.0, -3.0, 5.0)] + list(m0['pts']), 'faces': [tuple(v + 1 for v in f) for f in m0['faces']]}
        Xx = M.sym_coords(mx)
        live = Xx[1:]
        A = [S.cmp('gt', M.signed_volume6(Xx, mx['faces']), S.ZERO)]
        ctl, res = sess.explore('h_c12_geom_noorient', M.flat(Xx), M.iin_of(mx), assumptions=A, zctx=z, max_paths=16, branch_timeout_ms=20000, generic_position=True)
        chk.absorb(session=sess, ctl=ctl)
        good = [(tr, pc, r) for (tr, pc, r) in res if getattr(r, 'status', None) == 'ok']
        if len(good) != 1 or not ctl.exhausted:
            chk.fail_closed.append('%s: expected exactly one feasible path, got %r' % (mx['name'], [getattr(r, 'status', r) for (_, _, r) in res])); continue
        tr, pc, r = good[0]
        bb = r.dout[5:11]
        for c in range(3):
            lo = S.R(bb[c]); hi = S.R(bb[3 + c])
            cl = S.TRUE; att_lo = S.FALSE; att_hi = S.FALSE
            for p_ in live:
                cl = S.band(cl, S.band(S.cmp('le', lo, p_[c]), S.cmp('ge', hi, p_[c])))
                att_lo = S.bor(att_lo, S.cmp('eq', lo, p_[c])); att_hi = S.bor(att_hi, S.cmp('eq', hi, p_[c]))
            add('%s/with a free node slot/aabb axis %d is the tight box of the live nodes' % (name, c), pc, S.band(cl, S.band(att_lo, att_hi)))

    # ---- longest axis: covariance matrix handed to the eigen-solver, selection of the largest eigenvalue ---------------------------------
    EIG = '_ZNK5mat3319eigen_decompositionEv'
    from irsym.interp import K_DOUBLE
    for name in (['T4', 'T5'] if quick else ['T4', 'T5', 'T6']):
        m = M.CATALOGUE[name]
        X = M.sym_coords(m)
        nn = len(m['pts'])
        L = [S.var('lam%d' % k) for k in range(3)]
        EV = [[S.var('ev%d%d' % (r_, c_)) for c_ in range(3)] for r_ in range(3)]
        seen_mats = []
        def eig_stub(it, a):
            mat = [it.load(a[1] + 8 * k, 8, K_DOUBLE) for k in range(9)]
            it.events.append(('eig', mat))
            for k in range(3): it.store(a[0] + 8 * k, 8, L[k])
            for r_ in range(3):
                for c_ in range(3): it.store(a[0] + 24 + 8 * (3 * r_ + c_), 8, EV[r_][c_])
            return None
        sess_ax = api.Session(ir, mode='real', overrides={EIG: eig_stub})
        if EIG not in sess_ax.module.funcs:
            chk.fail_closed.append('mat33::eigen_decomposition not found under its expected symbol; stub not applied'); break
        # columns are unit eigenvectors (what the solver returns); eigenvalues pairwise different in magnitude (generic)
        A = [S.cmp('gt', M.signed_volume6(X, m['faces']), S.ZERO)]
        for c_ in range(3): A.append(S.cmp('eq', S.add(S.add(S.mul(EV[0][c_], EV[0][c_]), S.mul(EV[1][c_], EV[1][c_])), S.mul(EV[2][c_], EV[2][c_])), S.ONE))
        # generic position: no two eigenvalues of equal magnitude (with a tie of the two largest the code falls through to its last
        # branch and returns the third column; recorded as an observation in DESIGN.md, not part of the claim)
        for i_ in range(3):
            for j_ in range(i_ + 1, 3):
                A.append(S.cmp('ne', S.mul(L[i_], L[i_]), S.mul(L[j_], L[j_])))
        ctl, res = sess_ax.explore('h_c12_axis', M.flat(X), M.iin_of(m), assumptions=A, zctx=z, max_paths=40, branch_timeout_ms=20000, generic_position=True)
        chk.absorb(session=sess_ax, ctl=ctl)
        if not ctl.exhausted: chk.fail_closed.append('%s longest axis: path budget exhausted' % name)
        def cov(a_, b_):
            acc = S.ZERO
            for p_ in X: acc = S.add(acc, S.mul(S.sub(p_[a_], cen[a_]), S.sub(p_[b_], cen[b_])))
            return S.div(acc, S.const(nn))
        first = True
        for (tr, pc, r) in res:
            if getattr(r, 'status', None) == 'pathend': continue
            if r.status != 'ok': chk.fail_closed.append('%s longest axis path: %s %r' % (name, r.status, getattr(r, 'error', None))); continue
            mats = [e[1] for e in r.events if e[0] == 'eig']
            if len(mats) != 1: chk.fail_closed.append('%s longest axis: eigen-solver called %d times' % (name, len(mats))); continue
            key = '%s/longest axis/path %s' % (name, ''.join('T' if d.taken else 'F' for d in tr if not d.forced) or '-')
            if first:
                first = False
                mt = mats[0]
                cen = [S.R(v) for v in r.dout[3:6]]       # the cell centroid as the code computes it (area-weighted, law proved above)
                for a_ in range(3):
                    for b_ in range(3):
                        add('%s/longest axis/matrix given to the eigen-solver: entry (%d,%d) is the mean of (p-c)_a (p-c)_b over the nodes, c the cell centroid' % (name, a_, b_), pc[:len(A)], S.cmp('eq', S.R(mt[3 * a_ + b_]), cov(a_, b_)))
            # the returned direction is the (unit) eigenvector column whose eigenvalue has the largest magnitude on this path
            out = [S.R(v) for v in r.dout[:3]]
            absL = [S.ite(S.cmp('ge', L[k], S.ZERO), L[k], S.neg(L[k])) for k in range(3)]
            cl = S.FALSE
            for k in range(3):
                is_k = S.TRUE
                for t_ in range(3): is_k = S.band(is_k, S.cmp('eq', out[t_], EV[t_][k]))
                dom = S.TRUE
                for j in range(3):
                    if j != k: dom = S.band(dom, S.cmp('ge', absL[k], absL[j]))
                cl = S.bor(cl, S.band(is_k, dom))
            add(key + '/result is the unit eigenvector of an eigenvalue of largest magnitude', pc, cl)

    outs = par.prove_all(z, [t[:4] for t in tasks])
    chk.queries += z.queries
    for (nm, pc, cl, _, core), (st, model, dt) in zip(tasks, outs):
        chk.solver_s += dt
        if nm.endswith('/witness'):
            if st == 'violated': chk.witnesses += 1
            else: chk.witness_failures.append(nm + ': path condition not satisfiable (%s)' % st)
            continue
        if st == 'violated':
            rep = replay_geom(native, nm, model)
            chk.ob(nm, 'violated', core, dt, detail=rep, sample={'obligation': nm, 'model': model})
            if rep.get('reproduced'):
                chk.violation('C12/' + nm.split('/', 1)[1].split(':')[0].strip() if '/' in nm else nm, '%s is violated: %s' % (nm, rep['what']), rep)
            else:
                chk.note('counterexample for %s not reproduced natively: %s' % (nm, rep.get('what')))
        else:
            chk.ob(nm, st, core, dt, sample={'obligation': nm, 'status': st} if len(chk.samples) < 10 else None)
    native.close()
    chk.finish(level='other', explanation=(
        'The real constructor, initialize_cell_properties, compute_volume/area/centroid, get_aabb, update_face_normal_and_area and '
        'check_face_normal_orientation are executed in irsym on closed meshes with every coordinate symbolic. z3 proves: volume = divergence-theorem '
        'volume about an arbitrary origin (exactness + translation invariance), cubic/quadratic scaling, per-face area and normal laws, area = sum, '
        'centroid law, AABB tightness, invariance under all adjacent transpositions of node and face storage; for every one of the 2^F input winding '
        'patterns both sign branches end consistently oriented with positive oracle volume.'))

def replay_ctl(z, assumptions, chk):
    """controller for a single deterministic re-run (no forks expected under the representation invariant)"""
    c = SV.PathController(z, 20000, 1)
    c.assumptions = list(assumptions)
    c.generic_position = True
    c.begin_path([])
    return c

def model_coords(model, mesh):
    from fractions import Fraction
    return [float(Fraction(model.get('x%d_%d' % (i, k), 0))) for i in range(len(mesh['pts'])) for k in range(3)]

def replay_orientation(native, m, pat, model):
    if not model: return {'reproduced': False, 'what': 'no model'}
    faces = [f if not b else (f[0], f[2], f[1]) for f, b in zip(m['faces'], pat)]
    din = model_coords(model, m)
    q = native.call('h_c12_geom', din, M.iin_of(m, faces))
    if q['status'] != 0: return {'reproduced': False, 'what': 'native status %r' % q['status']}
    nf = len(faces)
    class R: pass
    r = R(); r.dout = q['d']; r.iout = q['i']
    o = parse_out(r, nf, True)
    fl = [tuple(f['ids']) for f in o['faces']]
    probs = M.closed_manifold_report(fl)
    # numeric signed volume
    pts = [din[3 * i:3 * i + 3] for i in range(len(m['pts']))]
    sv = 0.0
    for (a, b, c) in fl:
        A, B, C = pts[a], pts[b], pts[c]
        sv += A[0] * (B[1] * C[2] - B[2] * C[1]) - A[1] * (B[0] * C[2] - B[2] * C[0]) + A[2] * (B[0] * C[1] - B[1] * C[0])
    bad = bool(probs) or sv < 0
    return {'reproduced': bad, 'what': 'native result faces %r, signed volume*6=%g, problems %r' % (fl, sv, probs), 'coords': din, 'faces_in': faces}

def replay_normals(native, m, pat, model):
    if not model: return {'reproduced': False, 'what': 'no model'}
    import math
    faces = [f if not b else (f[0], f[2], f[1]) for f, b in zip(m['faces'], pat)]
    din = model_coords(model, m)
    q = native.call('h_c12_geom', din, M.iin_of(m, faces))
    if q['status'] != 0: return {'reproduced': False, 'what': 'native status %r' % q['status']}
    class R_: pass
    r = R_(); r.dout = q['d']; r.iout = q['i']
    o = parse_out(r, len(faces), True)
    pts = [din[3 * i:3 * i + 3] for i in range(len(m['pts']))]
    bad = []
    for fk, f in enumerate(o['faces']):
        A, B, C = [pts[v] for v in f['ids']]
        u = [B[k] - A[k] for k in range(3)]; v = [C[k] - A[k] for k in range(3)]
        n = [u[1] * v[2] - u[2] * v[1], u[2] * v[0] - u[0] * v[2], u[0] * v[1] - u[1] * v[0]]
        nr = math.sqrt(sum(x * x for x in n))
        if nr > 0 and sum(f['normal'][k] * n[k] / nr for k in range(3)) < 0.999:
            bad.append('face %d %r: cached normal %r, winding normal %r' % (fk, f['ids'], f['normal'], [x / nr for x in n]))
    return {'reproduced': bool(bad), 'what': '; '.join(bad[:2]) if bad else 'native normals agree with the winding', 'coords': din, 'faces_in': faces}

def replay_geom(native, nm, model):
    """re-run natively at the model's coordinates and compare with a float oracle (relative tolerance 1e-9)"""
    if not model: return {'reproduced': False, 'what': 'no model'}
    name = nm.split('/')[0]
    m = M.CATALOGUE[name]
    din = model_coords(model, m)
    if '/longest axis/' in nm:
        return replay_axis(native, m, din)
    if '/with a free node slot/' in nm:
        mx = {'pts': [(7.0, -3.0, 5.0)] + list(m['pts']), 'faces': [tuple(v + 1 for v in f) for f in m['faces']]}
        dinx = model_coords(model, mx)
        q = native.call('h_c12_geom_noorient', dinx, M.iin_of(mx))
        if q['status'] != 0 or len(q['d']) < 11: return {'reproduced': False, 'what': 'native run failed'}
        pts = [dinx[3 * i:3 * i + 3] for i in range(1, len(mx['pts']))]
        errs = []
        for k in range(3):
            lo = min(p_[k] for p_ in pts); hi = max(p_[k] for p_ in pts)
            if q['d'][5 + k] != lo or q['d'][8 + k] != hi: errs.append('axis %d: box [%r, %r], live nodes span [%r, %r]' % (k, q['d'][5 + k], q['d'][8 + k], lo, hi))
        return {'reproduced': bool(errs), 'what': '; '.join(errs) if errs else 'native box is the tight box of the live nodes', 'coords': dinx}
    q = native.call('h_c12_geom_noorient', din, M.iin_of(m))
    if q['status'] != 0 or not q['d']: return {'reproduced': False, 'what': 'native run failed'}
    pts = [din[3 * i:3 * i + 3] for i in range(len(m['pts']))]
    import math
    sv = 0.0; area = 0.0; cen = [0.0, 0.0, 0.0]
    for (a, b, c) in m['faces']:
        A, B, C = pts[a], pts[b], pts[c]
        sv += A[0] * (B[1] * C[2] - B[2] * C[1]) - A[1] * (B[0] * C[2] - B[2] * C[0]) + A[2] * (B[0] * C[1] - B[1] * C[0])
        u = [B[k] - A[k] for k in range(3)]; v = [C[k] - A[k] for k in range(3)]
        n = [u[1] * v[2] - u[2] * v[1], u[2] * v[0] - u[0] * v[2], u[0] * v[1] - u[1] * v[0]]
        af = 0.5 * math.sqrt(sum(x * x for x in n)); area += af
        for k in range(3): cen[k] += af * (A[k] + B[k] + C[k]) / 3
    cen = [x / area for x in cen] if area else cen
    vol = abs(sv) / 6
    d = q['d']
    scale = max(1.0, max(abs(x) for x in din))
    errs = []
    if abs(d[0] - vol) > 1e-9 * scale ** 3: errs.append('volume %r vs oracle %r' % (d[0], vol))
    if abs(d[1] - area) > 1e-9 * scale ** 2: errs.append('area %r vs oracle %r' % (d[1], area))
    for k in range(3):
        if abs(d[2 + k] - cen[k]) > 1e-9 * scale: errs.append('centroid[%d] %r vs oracle %r' % (k, d[2 + k], cen[k]))
        lo = min(p[k] for p in pts); hi = max(p[k] for p in pts)
        if d[5 + k] != lo or d[8 + k] != hi: errs.append('aabb axis %d [%r,%r] vs oracle [%r,%r]' % (k, d[5 + k], d[8 + k], lo, hi))
    return {'reproduced': bool(errs), 'what': '; '.join(errs) if errs else 'native run agrees with the float oracle', 'coords': din}

def replay_axis(native, m, din):
    """native get_cell_longest_axis (real eigen-solver) against numpy's eigen-decomposition of the second-moment matrix about the cell centroid;
    the solver's coordinates are tried first, then a few stretched and tilted variants of the mesh (a wrong matrix entry needs a cell whose
    principal axes are not aligned with the coordinate axes to change the principal direction)"""
    import numpy as np, math
    base = np.array(din, dtype=float).reshape(-1, 3)
    variants = [base]
    Rx = lambda t: np.array([[1, 0, 0], [0, math.cos(t), -math.sin(t)], [0, math.sin(t), math.cos(t)]])
    Ry = lambda t: np.array([[math.cos(t), 0, math.sin(t)], [0, 1, 0], [-math.sin(t), 0, math.cos(t)]])
    P0 = np.array([list(p) for p in m['pts']], dtype=float)
    for (sx, sy, sz, tx, ty) in ((1, 1, 3, 0.6, 0.0), (3, 1, 1, 0.0, 0.7), (1, 2.5, 1, 0.5, 0.4), (1, 1, 3, 0.3, 0.9)):
        variants.append((P0 * np.array([sx, sy, sz])) @ Rx(tx).T @ Ry(ty).T)
    worst = None
    for V in variants:
        q = native.call('h_c12_axis', [float(x) for x in V.reshape(-1)], M.iin_of(m))
        if q.get('status') != 0 or len(q['d']) < 6: continue
        axis = np.array(q['d'][0:3]); cen = np.array(q['d'][3:6])
        D = V - cen
        Mx = D.T @ D / len(V)
        w, U = np.linalg.eigh(Mx)
        order = np.argsort(-np.abs(w))
        if abs(abs(w[order[0]]) - abs(w[order[1]])) < 1e-6 * abs(w[order[0]]): continue       # no unique longest axis
        vmax = U[:, order[0]]
        dev = 1.0 - abs(float(axis @ vmax))
        if dev > 1e-6:
            ang = math.degrees(math.acos(max(-1.0, min(1.0, abs(float(axis @ vmax))))))
            worst = {'reproduced': True, 'what': 'native longest axis %r deviates %.2f degrees from the principal direction %r of the second-moment matrix' % ([round(x, 6) for x in axis], ang, [round(float(x), 6) for x in vmax]), 'coords': [float(x) for x in V.reshape(-1)]}
            break
    return worst or {'reproduced': False, 'what': 'native longest axis agrees with the principal direction on the solver model and on the tilted variants'}

def sum_coord(X, k):
    acc = S.ZERO
    for p_ in X: acc = S.add(acc, p_[k])
    return acc

if __name__ == '__main__':
    run_check('C12', main)
