"""Common scaffolding of the per-property checks: obligation log, known-findings protocol,
evidence file, exit codes (0 = held on everything explored, 1 = violation, 2 = check could not
decide its core obligations / internal failure: fail closed)."""
import json
import os
import resource
import sys
import time
import traceback

VERIF = os.path.dirname(os.path.dirname(os.path.abspath(__file__)))
sys.path.insert(0, VERIF)

from irsym import sym as S   # noqa: E402

def jsonable(x):
    from fractions import Fraction
    if isinstance(x, Fraction):
        return float(x) if x.denominator != 1 else int(x)
    if isinstance(x, dict): return {str(k): jsonable(v) for k, v in x.items()}
    if isinstance(x, (list, tuple, set, frozenset)): return [jsonable(v) for v in x]
    if isinstance(x, S.Node): return S.show(x, 3)
    if isinstance(x, (int, float, str, bool)) or x is None: return x
    return repr(x)

class Check:
    def __init__(self, pid, argv=None):
        self.pid = pid
        argv = sys.argv[1:] if argv is None else argv
        self.tier = os.environ.get('VERIF_TIER') or ('thorough' if 'thorough' in argv else 'quick')
        if self.tier not in ('quick', 'thorough'): self.tier = 'quick'
        try:
            self.seed = int(os.environ.get('VERIF_SEED', '0'))
        except ValueError:
            self.seed = 0
        self.t0 = time.time()
        self.obligations = []       # dicts: name, status(proved|violated|unknown|skipped), core, time_s, detail
        self.violations = []        # unlisted violations
        self.known_hits = []        # (key, what)
        self.samples = []
        self.functions = set()
        self.bounds = {}
        self.assumptions = []
        self.trusted = []
        self.notes = []
        self.queries = 0
        self.solver_s = 0.0
        self.paths = 0
        self.witnesses = 0          # vacuity witnesses that came back violated as they must
        self.witness_failures = []
        self.validation = {'programs': 0, 'inputs': 0, 'mismatches': 0}
        self.known = self._load_known()
        self.fail_closed = []
        self.replay_dir = os.path.join(VERIF, '_work', 'replay', pid)
        os.makedirs(self.replay_dir, exist_ok=True)
        # VERIF_EVIDENCE_DIR: used only when a check is pointed at a scratch copy of the repository (tools/run_seed_iso.sh)
        self.evidence_path = os.path.join(os.environ.get('VERIF_EVIDENCE_DIR') or os.path.join(VERIF, 'evidence'), pid + '.json')
        os.makedirs(os.path.dirname(self.evidence_path), exist_ok=True)

    def _load_known(self):
        try:
            data = json.load(open(os.path.join(VERIF, 'known_findings.json')))
        except (OSError, ValueError):
            return {}
        out = {}
        for e in data.get('findings', []):
            if e.get('property') == self.pid and e.get('status') == 'open':
                out[e['key']] = e
        return out

    # ----------------------------------------------------------------------------------
    def ob(self, name, status, core=True, time_s=0.0, detail=None, sample=None):
        self.obligations.append({'name': name, 'status': status, 'core': core, 'time_s': round(time_s, 3), 'detail': detail})
        if sample is not None and len(self.samples) < 12:
            self.samples.append(jsonable(sample))

    def write_replay(self, data):
        n = len(os.listdir(self.replay_dir))
        path = os.path.join(self.replay_dir, '%d.json' % n)
        with open(path, 'w') as f:
            json.dump(jsonable(data), f, indent=1)
        return path

    def violation(self, key, what, replay=None):
        """a reproduced violation; key identifies the failing obligation + path signature (never the numeric model)"""
        if key in self.known:
            if key not in [k for k, _ in self.known_hits]:
                self.known_hits.append((key, self.known[key].get('what', what)))
                print('KNOWN-FINDING: property=%s %s [%s]' % (self.pid, self.known[key].get('what', what), key))
            return False
        if key in [v['key'] for v in self.violations]:
            return True     # one report per failing obligation kind
        path = self.write_replay({'property': self.pid, 'key': key, 'what': what, 'replay': replay})
        self.violations.append({'key': key, 'what': what, 'replay': path})
        print('VIOLATION property=%s replay=%s' % (self.pid, path))
        print('  key: %s\n  what: %s' % (key, what))
        sys.stdout.flush()
        return True

    def note(self, s):
        self.notes.append(s)
        print('note: ' + s)
        sys.stdout.flush()

    def log(self, s):
        print('[%s %6.1fs] %s' % (self.pid, time.time() - self.t0, s))
        sys.stdout.flush()

    def absorb(self, zctx=None, session=None, ctl=None):
        if session is not None:
            self.functions |= {f for f in session.functions_called}
        if ctl is not None:
            self.paths += ctl.paths_done

    # ----------------------------------------------------------------------------------
    def finish(self, level='other', explanation='', extra=None):
        n_ob = len(self.obligations)
        proved = sum(1 for o in self.obligations if o['status'] == 'proved')
        violated = [o for o in self.obligations if o['status'] == 'violated']
        unknown = [o for o in self.obligations if o['status'] == 'unknown']
        core_unknown = [o for o in unknown if o['core']]
        distinct = len({o['name'] for o in self.obligations if o['status'] in ('proved', 'violated') and not o.get('trivial')})
        cov = {
            'explanation': explanation,
            'obligations': n_ob,
            'discharged': proved,
            'violated': len(violated),
            'undecided': len(unknown),
            'undecided_names': [o['name'] for o in unknown][:40],
            'known_findings_hit': [k for k, _ in self.known_hits],
            'paths': self.paths,
            'queries': self.queries,
            'solver_s': round(self.solver_s, 2),
            'functions_encoded': sorted(demangle_all(self.functions))[:400],
            'bounds': self.bounds,
            'vacuity_witnesses': self.witnesses,
            'vacuity_failures': self.witness_failures,
            'translator_validation': self.validation,
            'evaluations': max(n_ob, 1),
            'distinct_nontrivial': distinct,
            'rule': 'one evaluation = one solver obligation (path condition AND NOT claim); distinct = distinct obligation names decided by the solver (proved or violated); obligations whose claim is syntactically true are not counted',
            'samples': self.samples[:12] or [o for o in self.obligations[:5]],
            'checker_cmd': ' '.join([os.path.basename(sys.executable)] + sys.argv),
            'trusted_base': self.trusted,
            'notes': self.notes,
            'obligation_log': self.obligations[:600],
            'max_rss_mb': int(resource.getrusage(resource.RUSAGE_SELF).ru_maxrss / 1024),
            'max_rss_children_mb': int(resource.getrusage(resource.RUSAGE_CHILDREN).ru_maxrss / 1024),
        }
        if extra: cov.update(extra)
        ev = {
            'property_id': self.pid,
            'tier': self.tier,
            'seed': self.seed,
            'level': level,
            'coverage': jsonable(cov),
            'assumptions': self.assumptions,
            'wall_s': round(time.time() - self.t0, 2),
            'violations': len(self.violations),
        }
        tmp = self.evidence_path + '.tmp%d' % os.getpid()
        with open(tmp, 'w') as f:
            json.dump(ev, f, indent=1)
        os.replace(tmp, self.evidence_path)
        print('%s: %d obligations, %d proved, %d violated (%d unlisted), %d undecided, %d known findings, %.1fs' % (
            self.pid, n_ob, proved, len(violated), len(self.violations), len(unknown), len(self.known_hits), time.time() - self.t0))
        if self.violations:
            sys.exit(1)
        if self.fail_closed or self.witness_failures or self.validation['mismatches']:
            for m in self.fail_closed: print('FAIL-CLOSED: ' + m)
            for m in self.witness_failures: print('FAIL-CLOSED (vacuity): ' + str(m))
            if self.validation['mismatches']: print('FAIL-CLOSED: translator validation mismatches: %d' % self.validation['mismatches'])
            sys.exit(2)
        if core_unknown:
            print('FAIL-CLOSED: core obligations undecided: ' + ', '.join(o['name'] for o in core_unknown[:10]))
            sys.exit(2)
        core_violated = [o for o in violated if o['core']]
        if core_violated and not self.known_hits:
            # the solver refuted a core obligation but no replay confirmed it (otherwise a violation would have been reported above):
            # neither a pass nor a reproduced violation
            print('FAIL-CLOSED: core obligations refuted by the solver without a confirmed replay: ' + ', '.join(o['name'] for o in core_violated[:10]))
            sys.exit(2)
        sys.exit(0)

def demangle_all(names):
    names = [n for n in names if n]
    if not names: return []
    import subprocess
    try:
        p = subprocess.run(['c++filt'], input='\n'.join(names), capture_output=True, text=True, timeout=20)
        out = p.stdout.strip().split('\n')
        return [o[:160] for o in out]
    except Exception:
        return names

def run_check(pid, main):
    """wrap a check's main(chk): any internal exception => fail closed (exit 2), never a false VIOLATION"""
    chk = Check(pid)
    try:
        main(chk)
    except SystemExit:
        raise
    except BaseException:
        traceback.print_exc()
        if chk.violations:
            # violations already reproduced and reported stay violations
            try:
                chk.finish(explanation='check aborted by an internal error after reporting violations')
            except SystemExit:
                pass
            sys.exit(1)
        chk.fail_closed.append('internal error: ' + traceback.format_exc().strip().split('\n')[-1])
        try:
            chk.finish(explanation='check aborted by an internal error; nothing is claimed for this run')
        except SystemExit:
            pass
        sys.exit(2)
