#!/usr/bin/env python3
"""C10 — memory safety monitored on every symbolically explored path.  irsym's memory model (every load/store
checked against live regions; never-written bytes tracked; sized deletes compared with allocation sizes) runs the
real code of the refinement operations, the grid, the integrator and the cell life cycle with symbolic
coordinates (path feasibility by z3); each report is replayed natively under valgrind memcheck, which is used
only as replay oracle.  Not a whole-program claim: only the listed harnesses / paths are covered."""
import os
from fractions import Fraction
import random
import re
import subprocess
import sys

sys.path.insert(0, os.path.dirname(os.path.dirname(os.path.abspath(__file__))))
from checks.framework import run_check
from checks import meshes as M
from irsym import api, build, sym as S, solver as SV, par

OPS = {0: 'split_edge', 1: 'can_be_merged+merge_edge', 2: 'swap_edge', 3: 'refine_mesh', 4: 'refine_mesh;rebase;move;refine_mesh;rebase', 5: 'rebase'}

def valgrind_replay(binary, entry, din, iin):
    line = entry + ' %d %d' % (len(din), len(iin)) + ''.join(' ' + float(d).hex() for d in din) + ''.join(' %d' % i for i in iin) + '\n'
    try:
        p = subprocess.run(['valgrind', '-q', '--error-exitcode=99', '--track-origins=no', binary], input=line, capture_output=True, text=True, timeout=300)
    except subprocess.TimeoutExpired:
        return {'ran': False, 'what': 'valgrind timeout'}
    err = p.stderr
    kinds = []
    if re.search(r'Invalid (read|write)', err): kinds.append('invalid-access')
    if 'uninitialised' in err: kinds.append('uninitialised')
    if 'Mismatched' in err or 'Invalid free' in err: kinds.append('bad-free')
    first = ''
    m = re.search(r'==\d+== (Invalid[^\n]*|Conditional[^\n]*|Use of uninit[^\n]*|Mismatched[^\n]*)\n((==\d+==[^\n]*\n){0,6})', err)
    if m: first = (m.group(1) + ' | ' + ' '.join(re.findall(r'(?:at|by) 0x[0-9A-F]+: ([^\n]*)', m.group(2))[:4]))[:500]
    return {'ran': True, 'rc': p.returncode, 'kinds': kinds, 'first': first}

CLASS = {'use-after-free': 'invalid-access', 'out-of-bounds': 'invalid-access', 'invalid-pointer': 'invalid-access', 'uninitialised-decision': 'uninitialised',
         'uninitialised-pointer': 'uninitialised', 'sized-delete-mismatch': 'bad-free', 'invalid-free': 'bad-free', 'double-free': 'bad-free'}

def site_of(where):
    """innermost repository function of the call chain (skip libstdc++ / vec3 helpers)"""
    chain = [w.strip() for w in (where or '').split('<-')]
    import subprocess as sp
    try:
        dem = sp.run(['c++filt'], input='\n'.join(chain), capture_output=True, text=True).stdout.strip().split('\n')
    except Exception:
        dem = chain
    for d in dem:
        if d.startswith('std::') or d.startswith('.omp_outlined') or d.startswith('__gnu') or d.startswith('vec3::') or d.startswith('node::operator') or d.startswith('void std::') or d.startswith('edge::edge'):
            continue
        return re.sub(r'\(.*', '', d)
    return re.sub(r'\(.*', '', dem[0]) if dem else '?'

def main(chk):
    quick = chk.tier == 'quick'
    ir = build.build_ir(['h_refine.cpp'])
    nat = build.build_native(['h_refine.cpp'])
    rng = random.Random(chk.seed + 31)
    chk.trusted += ['irsym memory model (regions with concrete addresses, per-byte definedness, liveness of heap/stack regions, sized delete vs allocation size)',
                    'libstdc++ models listed in irsym/models.py; valgrind memcheck as replay oracle only', 'z3 for path feasibility under symbolic coordinates']
    chk.assumptions += ['closed outward input mesh in generic position; l_min > 0']
    names = ['T4', 'T5'] if quick else ['T4', 'T5', 'T6', 'T6b']
    chk.bounds = {'solver scenarios': 'h_sim: real solver constructor, run_iteration (1-2 iterations, I/O stubbed) and destructor on two-cell tissues with concrete geometry', 'harness': 'h_refine: real constructor + initialize_cell_properties, then one of ' + ', '.join(OPS.values()), 'meshes': names,
                  'edges': 'every edge for split/merge/swap; vectors are at capacity (size == capacity) so the first add_node/add_face reallocates',
                  'formatting': 'both sprintf sites with symbolic numbers (format_number with the four formats used in the repository, hh:mm:ss of the statistics writers)', 'outside': 'thread schedules, file parsing, ball pivoting / hole filling, any path no harness explores'}
    sess = api.Session(ir, mode='real')
    z = SV.Z3Ctx()
    reports = {}      # (kind, site) -> example
    npaths = 0; clean = 0
    jobs = []
    for name in names:
        m = M.CATALOGUE[name]; nn = len(m['pts']); nf = len(m['faces'])
        edges = sorted(M.undirected_edges(m['faces']))
        for op in (0, 1, 2, 5):
            for e in (edges if op != 5 else edges[:1]):
                jobs.append((name, op, e))
    def work(i):
        name, op, e = jobs[i]
        m = M.CATALOGUE[name]; nn = len(m['pts']); nf = len(m['faces'])
        X = M.sym_coords(m)
        Pm = [S.var('p%d_%d' % (n, k)) for n in range(nn) for k in range(3)]
        lmin = S.var('lmin')
        din = M.flat(X) + Pm + [lmin]
        iin = M.iin_of(m) + [op, e[0], e[1], 1] + [k % 3 for k in range(nf)]
        A = [S.cmp('gt', M.signed_volume6(X, m['faces']), S.ZERO), S.cmp('gt', lmin, S.ZERO)]
        s2 = api.Session(ir, mode='real'); z2 = SV.Z3Ctx()
        ctl, res = s2.explore('h_refine', din, iin, assumptions=A, zctx=z2, max_paths=16, branch_timeout_ms=3000, generic_position=True)
        out = []
        for (tr, pc, r) in res:
            st = getattr(r, 'status', None)
            item = {'status': st, 'path': ''.join('T' if d.taken else 'F' for d in tr if not d.forced)}
            if st == 'memory':
                kind, msg, where = r.error
                item.update(kind=kind, msg=msg, where=where)
                stt, model = SV.satisfiable(z2, pc, 20000)
                item['model'] = {k: float(v) for k, v in (model or {}).items() if not isinstance(v, bool)}
                item['feasible'] = stt
            elif st not in ('ok', 'pathend'):
                item['error'] = repr(getattr(r, 'error', None))[:300]
            out.append(item)
        return out, s2.functions_called, z2.queries, z2.solver_time
    outs = par.pmap(work, len(jobs))
    for (name, op, e), (out, fc, nq, st_) in zip(jobs, outs):
        chk.functions |= fc; chk.queries += nq; chk.solver_s += st_
        for item in out:
            npaths += 1
            nm = '%s/%s edge %d-%d/path %s/no invalid memory access' % (name, OPS[op], e[0], e[1], item['path'] or '-')
            if item['status'] == 'ok':
                clean += 1
                chk.ob(nm, 'proved', True, 0, sample={'obligation': nm, 'status': 'no report on this path'} if len(chk.samples) < 3 else None)
            elif item['status'] == 'memory':
                site = site_of(item['where'])
                key = (item['kind'], site)
                chk.ob(nm, 'violated', True, 0, detail={'kind': item['kind'], 'msg': item['msg'], 'where': item['where']})
                if key not in reports:
                    reports[key] = (name, op, e, item)
            elif item['status'] == 'pathend':
                pass
            else:
                chk.ob(nm, 'unknown', False, 0, detail=item.get('error'))
    chk.paths = npaths
    # replay each distinct report natively under valgrind at the solver's model of the path condition
    for (kind, site), (name, op, e, item) in sorted(reports.items()):
        m = M.CATALOGUE[name]; nn = len(m['pts']); nf = len(m['faces'])
        model = item.get('model') or {}
        coords = [model.get('x%d_%d' % (i, k), m['pts'][i][k]) for i in range(nn) for k in range(3)]
        if not model: coords = [c for p in m['pts'] for c in p]
        din = coords + [model.get('p%d_%d' % (n, k), 0.0) for n in range(nn) for k in range(3)] + [model.get('lmin', 0.5)]
        iin = M.iin_of(m) + [op, e[0], e[1], 1] + [k % 3 for k in range(nf)]
        rep = valgrind_replay(nat, 'h_refine', din, iin)
        if CLASS.get(kind) == 'uninitialised' and CLASS.get(kind) not in rep.get('kinds', []):
            # an optimising build may have compiled the undefined read away: second oracle = the same sources at -O0
            nat0 = build.build_native(['h_refine.cpp'], opt='-O0')
            rep0 = valgrind_replay(nat0, 'h_refine', din, iin)
            rep0['build'] = 'g++ -O0 (the -O2 build shows no error for this input)'
            rep = rep0
        rep.update(irsym_report={'kind': kind, 'msg': item['msg'], 'where': item['where']}, din=din, iin=iin, path_feasible=item.get('feasible'))
        want = CLASS.get(kind)
        if rep.get('ran') and want in rep.get('kinds', []):
            chk.violation('C10/%s/%s' % (kind, site), '%s in %s (%s); valgrind: %s' % (kind, site, item['msg'], rep.get('first')), rep)
        else:
            chk.note('memory report %s in %s not confirmed by valgrind (%r): recorded, not reported as violation' % (kind, site, rep.get('first') or rep.get('what')))
            chk.ob('unconfirmed report %s/%s' % (kind, site), 'unknown', False, 0, detail=rep)
    sim_scenarios(chk, reports_seen=set(k for k in reports))
    reader_scenarios(chk)
    format_scenarios(chk)
    chk.finish(level='other', explanation=(
        'Memory monitors of the symbolic interpreter on %d explored paths of the refinement/compaction harness (symbolic coordinates, path feasibility by z3). '
        'A path with a report is a violation only if valgrind memcheck confirms an error of the same class on the native g++ build at the solver model.' % npaths))

def reader_scenarios(chk):
    """(d) the mesh loader after tokenisation: mesh_reader::get_cell_mesh on connectivity lists with every entry symbolic (the harness and the
    exploration of C17, here for the memory-safety claim only; fewer shapes)"""
    from checks import c17
    ir = build.build_ir(['h_reader.cpp'], sources=['src/io/mesh_reader.cpp'])
    nat = build.build_native(['h_reader.cpp'])
    shapes = [(12, [2]), (12, [3]), (12, [4]), (6, [5]), (12, [3, 2])]
    outs = par.pmap(lambda i: c17.run_shape(ir, shapes[i][0], shapes[i][1], 10000, 3000), len(shapes), procs=8)
    seen = set()
    for o in outs:
        chk.paths += o['paths']; chk.queries += o['queries']; chk.solver_s += o['solver_s']; chk.functions |= set(o['functions'])
        for m_ in o['fail']: chk.fail_closed.append(m_)
        for (name, status, core, t, detail) in o['obs']:
            chk.ob('get_cell_mesh/' + name, status, core, t, detail)
        for rep in o['reports']:
            if rep['kind'] in ('escape', 'bad-result'): continue
            site = site_of(rep['where']) if rep['where'] else 'mesh_reader::get_cell_mesh'
            if (rep['kind'], site) in seen: continue
            seen.add((rep['kind'], site))
            iin = c17.concrete_of(rep['model'], o['npos'], o['lens'])
            vg = valgrind_replay(nat, 'h_c17_cell_mesh', [], iin)
            vg.update(irsym_report={'kind': rep['kind'], 'msg': rep['msg'], 'where': rep['where']}, iin=iin, lists=c17.split_lists(iin))
            if vg.get('ran') and 'invalid-access' in vg.get('kinds', []):
                chk.violation('C10/%s/%s' % (rep['kind'], site), '%s in %s (%s) for connectivity lists %r; valgrind: %s' % (rep['kind'], site, rep['msg'], c17.split_lists(iin), vg.get('first')), vg)
            else:
                chk.note('memory report %s in %s not confirmed by valgrind: recorded, not reported as violation' % (rep['kind'], site))
                chk.ob('unconfirmed report %s/%s' % (rep['kind'], site), 'unknown', False, 0, detail=vg)

NOW = '_ZNSt6chrono3_V212system_clock3nowEv'
def format_scenarios(chk):
    """(e) fixed-size formatting buffers: the two sprintf sites of the repository (format_number in include/utils.hpp with the formats the repository
    passes, and the hh:mm:ss string of the statistics writers) run in irsym with the formatted numbers symbolic; the sprintf model asks the solver
    whether the text plus its terminator can exceed the room left in the destination object. A report is replayed on an AddressSanitizer build."""
    ir = build.build_ir(['h_str.cpp'])
    nat = build.build_native(['h_str.cpp'])
    chk.assumptions += ['(e) the wall clock does not run backwards (elapsed time >= 0) and is below 2^63 ns; doubles passed to format_number are arbitrary (any finite value, inf or nan)']
    cases = [('string_statistics_writer::write_data, elapsed time arbitrary', 'h_c10_clock', lambda: ([], [0])),
             ('format_number(double, "%.2e")', 'h_c10_format', lambda: ([S.var('fx')], [0, 0])),
             ('format_number(double, "%.3e")', 'h_c10_format', lambda: ([S.var('fx')], [1, 0])),
             ('format_number(double, "%.4e")', 'h_c10_format', lambda: ([S.var('fx')], [2, 0])),
             ('format_number(unsigned, "%d")', 'h_c10_format', lambda: ([0.0], [3, S.ivar('fu', 32, 0, (1 << 32) - 1)]))]
    def now(it, a):
        return S.ivar('now_ns', 64, 0, (1 << 63) - 1)
    sess = api.Session(ir, mode='real', overrides={NOW: now})
    z = SV.Z3Ctx()
    for (name, entry, mk) in cases:
        din, iin = mk()
        ctl, res = sess.explore(entry, din, iin, assumptions=[], zctx=z, max_paths=32, branch_timeout_ms=5000)
        chk.paths += ctl.paths_done
        tag = 'formatting buffer/' + name
        done = [(tr, pc, r) for (tr, pc, r) in res if getattr(r, 'status', None) != 'pathend']
        if not ctl.exhausted or not done:
            chk.fail_closed.append(tag + ': exploration incomplete'); continue
        bad = [(tr, pc, r) for (tr, pc, r) in done if r.status == 'memory']
        other = [(tr, pc, r) for (tr, pc, r) in done if r.status not in ('ok', 'memory')]
        for (tr, pc, r) in other:
            chk.fail_closed.append(tag + ': path ended with %s %r' % (r.status, getattr(r, 'error', None)))
        if not any(r.status == 'ok' for (_, _, r) in done): chk.fail_closed.append(tag + ': no completed path')
        else: chk.witnesses += 1
        if not bad:
            chk.ob(tag + '/the text and its terminator fit into the buffer for every value', 'proved', True, 0)
            continue
        tr, pc, r = bad[0]
        st, model = SV.satisfiable(z, list(pc), 10000)
        chk.ob(tag + '/the text and its terminator fit into the buffer for every value', 'violated', True, 0, {'report': str(r.error)[:300]})
        # replay on an AddressSanitizer build at the solver's value
        asan = build.build_native(['h_str.cpp'], opt='-fsanitize=address')
        m_ = model or {}
        if entry == 'h_c10_clock':
            ns = int(Fraction(m_.get('now_ns', 10 ** 18)))
            rdin, riin = [], [ns // 10 ** 9]
        else:
            rdin = [float(Fraction(m_['fx'])) if 'fx' in m_ else -1.2345678e-100] if iin[0] != 3 else [0.0]
            riin = [iin[0], int(Fraction(m_.get('fu', (1 << 32) - 1))) if iin[0] == 3 else 0]
        rep = asan_replay(asan, entry, rdin, riin)
        rep.update(irsym_report=str(r.error)[:400], din=rdin, iin=riin, how='harness %s (/verif/harness/h_str.cpp) on a g++ -fsanitize=address build' % entry)
        if rep.get('ran') and 'invalid-access' in rep.get('kinds', []):
            chk.violation('C10/formatting-buffer/%s' % name.split(',')[0], '%s: %s; AddressSanitizer at %r %r: %s' % (tag, str(r.error)[:200], rdin, riin, rep.get('first')), rep)
        else:
            chk.fail_closed.append(tag + ': irsym reports %s, AddressSanitizer does not confirm at %r %r (%r)' % (str(r.error)[:120], rdin, riin, rep.get('first')))
    chk.functions |= sess.functions_called

def asan_replay(binary, entry, din, iin):
    line = entry + ' %d %d' % (len(din), len(iin)) + ''.join(' ' + float(d).hex() for d in din) + ''.join(' %d' % i for i in iin) + '\n'
    try:
        p = subprocess.run([binary], input=line, capture_output=True, text=True, timeout=300, env=dict(os.environ, ASAN_OPTIONS='new_delete_type_mismatch=1:detect_leaks=0:halt_on_error=1'))
    except subprocess.TimeoutExpired:
        return {'ran': False, 'what': 'timeout'}
    err = p.stderr
    kinds = []
    if 'new-delete-type-mismatch' in err or 'alloc-dealloc-mismatch' in err: kinds.append('bad-free')
    if 'heap-use-after-free' in err or 'heap-buffer-overflow' in err or 'stack-buffer-overflow' in err: kinds.append('invalid-access')
    m = re.search(r'ERROR: AddressSanitizer: ([^\n]*)', err)
    frames = re.findall(r'#\d+ 0x[0-9a-f]+ in ([^\n]*)', err)[:5]
    return {'ran': True, 'rc': p.returncode, 'kinds': kinds, 'first': ((m.group(1) if m else '') + ' | ' + ' ; '.join(frames))[:600]}

def sim_scenarios(chk, reports_seen):
    """(b) first iteration of the real solver on freshly constructed cells: is every field read by the contact phase written before?
    (c) construction and destruction of the solver (polymorphic members owned through base-class unique_ptr)."""
    from irsym import envstubs
    ir = build.build_ir(['h_sim.cpp'])
    nat = build.build_native(['h_sim.cpp'])
    ov = {}
    ov.update(envstubs.fs_stubs()); ov.update(envstubs.writer_stubs()); ov.update(envstubs.divide_stub())
    def setup(it): it.strict_undef = False
    sess = api.Session(ir, mode='ieee', overrides=ov, setup=setup)
    scen = [
        ('two adjacent epithelial tetrahedra, 2 iterations', [2, 2, 0, 0, 0, 0, 2, 2, 0, 0, 0, 0], [0.001, 1.0, 0.3, 0.2, 0.2, 0.01, 1.0, 0, 0, 0] + [1.0, 0, 0, 0, 0.001, 1e9, 0.0] + [1.0, 1.2, 0.1, 0.1, 0.001, 1e9, 0.0]),
        ('epithelial octahedron inside an ECM octahedron, 1 iteration', [2, 1, 1, 1, 0, 1, 2, 1, 0, 0], [0.001, 1.0, 0.3, 0.2, 0.2, 0.01, 1.0, 0, 0, 0] + [0.5, 0, 0, 0, 0.001, 1e9, 0.0] + [2.0, 0.0, 0.0, 0.0, 0.001, 1e9, 0.0]),
    ]
    found = {}
    for (label, iin, din) in scen:
        r = sess.run('h_sim', din, iin)
        chk.paths += 1
        reps = list(r.mem_reports)
        if r.status == 'memory': reps.append(r.error)
        elif r.status != 'ok':
            chk.fail_closed.append('solver scenario %s: %s %r' % (label, r.status, r.error)); continue
        nm = 'solver life cycle/%s/no invalid memory access, no decision on uninitialised data, no mismatched delete' % label
        chk.ob(nm, 'violated' if reps else 'proved', True, 0, detail=[(k, m_) for (k, m_, w) in reps][:4] if reps else None)
        for (kind, msg, where) in reps:
            site = site_of(where)
            found.setdefault((kind, site), (label, iin, din, msg, where))
    chk.functions |= sess.functions_called
    for (kind, site), (label, iin, din, msg, where) in sorted(found.items()):
        want = CLASS.get(kind)
        if want == 'bad-free':
            rep = asan_replay(build.build_native(['h_sim.cpp'], opt='-fsanitize=address'), 'h_sim', din, iin)
            rep['build'] = 'g++ -O2 -fsanitize=address (replay oracle)'
        else:
            rep = valgrind_replay(nat, 'h_sim', din, iin)
            if want not in rep.get('kinds', []) and want == 'uninitialised':
                rep = valgrind_replay(build.build_native(['h_sim.cpp'], opt='-O0'), 'h_sim', din, iin)
                rep['build'] = 'g++ -O0'
        rep.update(irsym_report={'kind': kind, 'msg': msg, 'where': where}, din=din, iin=iin, scenario=label)
        if rep.get('ran') and want in rep.get('kinds', []):
            chk.violation('C10/%s/%s' % (kind, site), '%s in %s (%s); native oracle: %s' % (kind, site, msg, rep.get('first')), rep)
        else:
            chk.note('memory report %s in %s not confirmed natively (%r)' % (kind, site, rep.get('first') or rep.get('what')))
            chk.ob('unconfirmed report %s/%s' % (kind, site), 'unknown', False, 0, detail=rep)

if __name__ == '__main__':
    run_check('C10', main)
