#!/usr/bin/env python3
"""C01 — cell surfaces stay closed, consistently oriented 2-manifolds under remeshing (see refine_check.py)."""
import os, sys
sys.path.insert(0, os.path.dirname(os.path.dirname(os.path.abspath(__file__))))
from checks.framework import run_check
from checks import refine_check

def main(chk):
    refine_check.main(chk, 'C01')
    chk.finish(level='other', explanation=(
        'Every split / can_be_merged+merge / swap on every edge of the catalogue meshes, bounded refinement passes and pass-compaction-move-pass chains are executed '
        'from the LLVM IR with symbolic coordinates (z3 decides which paths exist). After each operation an independent oracle recomputes, from the triangle list only, '
        'closedness, orientation, genus, duplicate triangles, and compares the cell\'s edge set, counts, free queues and ids; z3 proves cached normals/areas agree with the '
        'winding and that a split leaves the signed volume unchanged; the ordering key of the edge set is proved injective below 2^26 node ids.'))

if __name__ == '__main__':
    run_check('C01', main)
