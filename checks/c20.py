#!/usr/bin/env python3
"""C20 — spatial grids: index arithmetic of uspg_3d / uspg_4d executed symbolically from the LLVM IR.
O1 bit-precise (IEEE doubles, cbmc): every in-box point (faces and corners included) maps to an existing voxel.
O2 the same in exact-real arithmetic (z3).  O3 linear index / voxel count never wrap in 32 bits.
O4/O5 retrievability and neighbourhood completeness on real containers (small grids, symbolic positions)."""
import os
import random
import sys
import tempfile
import time
from fractions import Fraction

sys.path.insert(0, os.path.dirname(os.path.dirname(os.path.abspath(__file__))))
from checks.framework import run_check, VERIF
from irsym import api, build, sym as S, solver as SV, fpsym as FS, cemit, par

NAMES = ['minx', 'miny', 'minz', 'maxx', 'maxy', 'maxz', 'v', 'px', 'py', 'pz']
FILL4 = '_ZNSt6vectorISt12forward_listIiSaIiEESaIS2_EE14_M_fill_insertEN9__gnu_cxx17__normal_iteratorIPS2_S4_EEmRKS2_'
APP3 = '_ZNSt6vectorISt8optionalIiESaIS1_EE17_M_default_appendEm'

def main(chk):
    quick = chk.tier == 'quick'
    ir = build.build_ir(['h_grid.cpp'])
    nat = build.build_native(['h_grid.cpp'])
    native = api.Native(nat)
    rng = random.Random(chk.seed + 23)
    work = os.path.join(VERIF, '_work', 'cbmc'); os.makedirs(work, exist_ok=True)
    chk.trusted += ['clang-14 lowering validated per run against g++ -O2', 'irsym (bit-precise mode: IEEE operations in the compiler\'s order, no algebraic rewriting)',
                    'cbmc 6.11 --floatbv with its models of floor/ceil/fabs; z3 for the exact-real and integer obligations']
    chk.assumptions += ['O1/O2 inputs: all finite, |coordinate| <= 1e6, 1e-9 <= voxel size <= 1e6, min < max per axis (the code\'s own precondition), grid extent/voxel size <= 1e6, point inside [min,max] per axis',
                        'vector growth (_M_fill_insert / _M_default_append) is stubbed in the arithmetic harnesses O1-O3: allocation size is not their subject']
    chk.bounds = {'O1': 'no loops; one symbolic box, voxel size and point; cbmc time limit %ds per obligation' % (240 if quick else 600), 'O3': 'voxel counts < 2^21 per axis, indices < counts',
                  'O4/O5': 'one stored point and one query point within one voxel size; one axis symbolic over a grid of <= 3 voxels, the other two axes symbolic within one voxel; voxel size concrete (1 quick; 1, 1/1024, 37/8 thorough), |min| <= 1e3; exact reals'}

    # ---- translator validation --------------------------------------------------------------------------
    sc = api.Session(ir, mode='ieee')
    mism = 0; nval = 0
    for k in range(100 if quick else 500):
        sc_ = 10.0 ** rng.randint(-6, 3)
        mn = [rng.uniform(-1, 1) * sc_ for _ in range(3)]
        ext = [rng.uniform(0.1, 5) * sc_ for _ in range(3)]
        v = rng.uniform(0.05, 2) * sc_
        if k % 4 == 0: ext = [v * rng.randint(1, 6) for _ in range(3)]
        mx = [a + b for a, b in zip(mn, ext)]
        p = [rng.choice([a, b, rng.uniform(a, b)]) for a, b in zip(mn, mx)]
        din = mn + mx + [v] + p
        for h in ('h_c20_index4d', 'h_c20_index3d'):
            r = sc.run(h, din); q = native.call(h, din)
            nval += 1
            if r.status == 'memory' and r.error[0] in ('uninitialised-decision', 'uninitialised-pointer') and q.get('status') == 0:
                # the index arithmetic used the result of an out-of-range double -> unsigned conversion (poison in LLVM, undefined in C++) for a
                # point of the declared box: not a translator mismatch but a candidate violation, decided by the containing-voxel oracle on the native run
                rep = replay_contains(native, h, din)
                if rep['reproduced']:
                    chk.ob('%s/validation input/in-box point is indexed in the voxel that contains it' % h, 'violated', True, 0, detail=rep)
                    chk.violation('C20/O1/%s/point indexed in a voxel that does not contain it' % ('uspg_4d' if '4d' in h else 'uspg_3d'), '%s at %r: %s; irsym: %s' % (h, din, rep['what'], r.error[1]), rep)
                    continue
            if r.status != 'ok' or r.iout != q['i'] or not all(api.same_double(a, b) for a, b in zip(r.dout, q['d'])):
                mism += 1; chk.note('validation mismatch %s %r: %r vs %r' % (h, din, (r.status, r.error, r.iout), q))
    chk.validation = {'programs': 2, 'inputs': nval, 'mismatches': mism}
    chk.functions |= sc.functions_called

    # ---- O1 bit-precise ----------------------------------------------------------------------------------
    V = [FS.fvar(x) for x in NAMES]
    W = dict(zip(NAMES, V))
    def absle(x, b): return FS.fcmp('ole', FS.ffabs(x), b)
    pre = [absle(W[n], 1e6) for n in NAMES]
    pre += [FS.fcmp('oge', W['v'], 1e-9)]
    for ax in 'xyz':
        pre += [FS.fcmp('olt', W['min' + ax], W['max' + ax]),
                FS.fcmp('ole', FS.fdiv(FS.fsub(W['max' + ax], W['min' + ax]), W['v']), 1e6),
                FS.fcmp('oge', W['p' + ax], W['min' + ax]), FS.fcmp('ole', W['p' + ax], W['max' + ax])]
    nop = lambda it, a: None
    cb_timeout = 240 if quick else 600
    jobs = []
    for h, label in (('h_c20_index4d', 'uspg_4d'), ('h_c20_index3d', 'uspg_3d')):
        sess = api.Session(ir, mode='fp', overrides={FILL4: nop, APP3: nop})
        ctl = SV.FPPathController(64)
        res = ctl.explore(lambda c: sess.run(h, V, pathctl=c))
        chk.paths += ctl.paths_done
        chk.functions |= sess.functions_called
        okp = 0
        for (tr, pc, r) in res:
            st = getattr(r, 'status', None)
            key = ''.join('T' if d.taken else 'F' for d in tr)
            if st == 'ok':
                okp += 1
                nb = r.iout[0:3]; idx = r.iout[3:6]
                for a, ax in enumerate('xyz'):
                    jobs.append(('%s/O1 bit-precise/path %s/index_%s < nb_%s' % (label, key, ax, ax), pre + pc, S.cmp('lt', idx[a], nb[a]), h, 'claim'))
                jobs.append(('%s/O1/path %s/witness' % (label, key), pre + pc, S.FALSE, h, 'witness'))
            else:
                # a path irsym cannot follow (symbolic size used as address): must be infeasible
                jobs.append(('%s/O1/path %s/unsupported path is infeasible' % (label, key), pre + pc, S.FALSE, h, 'infeasible'))
        if not okp: chk.fail_closed.append('%s: no complete path' % label)
    def run_job(i):
        nm, assumes, claim, h, kind = jobs[i]
        tmo = cb_timeout if kind == 'claim' else 60
        return cemit.run_cbmc(assumes, claim, tmo, workdir=work, portfolio=(kind == 'claim'))
    chk.log('O1: %d cbmc obligations' % len(jobs))
    wit = {}
    outs = par.pmap(run_job, len(jobs), procs=8)
    for (nm, assumes, claim, h, kind), (st, model, dt) in zip(jobs, outs):
        chk.solver_s += dt; chk.queries += 1
        if kind == 'witness':
            lab = nm.split('/')[0]
            wit.setdefault(lab, 0)
            if st == 'violated': chk.witnesses += 1; wit[lab] += 1
            elif st == 'proved': chk.note(nm + ': path condition unsatisfiable (infeasible path, its obligations hold vacuously)')
            continue
        if kind == 'infeasible':
            chk.ob(nm, 'proved' if st == 'proved' else 'unknown', True, dt)
            continue
        if st == 'violated':
            rep = replay_index(native, h, model)
            chk.ob(nm, 'violated' if rep['reproduced'] else 'unknown', True, dt, detail=rep, sample={'obligation': nm, 'model': model})
            if rep['reproduced']:
                chk.violation('C20/O1/%s/in-box point maps outside the grid' % nm.split('/')[0], '%s: %s' % (nm, rep['what']), rep)
        else:
            chk.ob(nm, st, True, dt, sample={'obligation': nm, 'status': st})

    for lab, k in wit.items():
        if not k: chk.witness_failures.append('%s: no explored path has a confirmed satisfiable path condition' % lab)

    # ---- O2 exact-real ----------------------------------------------------------------------------------------
    z = SV.Z3Ctx()
    R = [S.var(x) for x in NAMES]; Wr = dict(zip(NAMES, R))
    big = S.const(10 ** 6)
    pre_r = [S.cmp('ge', Wr['v'], S.const(Fraction(1, 10 ** 9))), S.cmp('le', Wr['v'], big)]
    for n_ in NAMES[:6] + NAMES[7:]:
        pre_r += [S.cmp('le', Wr[n_], big), S.cmp('ge', Wr[n_], S.neg(big))]
    for ax in 'xyz':
        pre_r += [S.cmp('lt', Wr['min' + ax], Wr['max' + ax]), S.cmp('ge', Wr['p' + ax], Wr['min' + ax]), S.cmp('le', Wr['p' + ax], Wr['max' + ax]),
                  S.cmp('le', S.sub(Wr['max' + ax], Wr['min' + ax]), S.mul(S.const(1000), Wr['v']))]
    for h, label in (('h_c20_index4d', 'uspg_4d'), ('h_c20_index3d', 'uspg_3d')):
        sess = api.Session(ir, mode='real', overrides={FILL4: nop, APP3: nop})
        ctl, res = sess.explore(h, R, assumptions=pre_r, zctx=z, max_paths=16, branch_timeout_ms=5000)
        chk.absorb(session=sess, ctl=ctl)
        for (tr, pc, r) in res:
            if getattr(r, 'status', None) != 'ok': continue
            nb = r.iout[0:3]; idx = r.iout[3:6]
            for a, ax in enumerate('xyz'):
                nm = '%s/O2 exact-real/index_%s < nb_%s' % (label, ax, ax)
                t = time.time()
                st, model = SV.prove(z, pc, S.cmp('lt', idx[a], nb[a]), 60000)
                dt = time.time() - t
                if st == 'violated':
                    m2 = {k: float(Fraction(v)) for k, v in model.items() if k in NAMES}
                    rep = replay_index(native, h, m2)
                    chk.ob(nm, 'violated' if rep['reproduced'] else 'unknown', True, dt, detail=rep, sample={'obligation': nm, 'model': m2})
                    if rep['reproduced']:
                        chk.violation('C20/O1/%s/in-box point maps outside the grid' % label, '%s: %s' % (nm, rep['what']), rep)
                    else:
                        chk.note('%s: exact-real counterexample does not survive rounding (%s)' % (nm, rep['what']))
                else:
                    chk.ob(nm, st, True, dt)
            # containing voxel (exact reals): origin + idx*v <= p, and p <= origin + (idx+1)*v (closed: the upper face belongs to the last voxel)
            org = [S.R(x) for x in r.dout[0:3]]
            for a, ax in enumerate('xyz'):
                nm = '%s/O2 exact-real/the index on axis %s designates the voxel that contains the point' % (label, ax)
                i_r = S.i2r(idx[a]) if isinstance(idx[a], S.Node) else S.const(idx[a])
                lo_ = S.add(org[a], S.mul(i_r, Wr['v'])); hi_ = S.add(lo_, Wr['v'])
                t = time.time()
                st, model = SV.prove(z, pc, S.band(S.cmp('le', lo_, Wr['p' + ax]), S.cmp('le', Wr['p' + ax], hi_)), 60000)
                dt = time.time() - t
                if st == 'violated':
                    m2 = {k: float(Fraction(v)) for k, v in model.items() if k in NAMES}
                    din2 = [float(m2.get(n, 0.0)) for n in NAMES]
                    rep = replay_contains(native, h, din2)
                    chk.ob(nm, 'violated' if rep['reproduced'] else 'unknown', True, dt, detail=rep)
                    if rep['reproduced']:
                        chk.violation('C20/O1/%s/point indexed in a voxel that does not contain it' % label, '%s: %s' % (nm, rep['what']), rep)
                    else:
                        chk.note('%s: exact-real counterexample does not survive rounding (%s)' % (nm, rep['what']))
                else:
                    chk.ob(nm, st, True, dt)
            break

    # ---- O4/O5 retrievability and neighbourhood completeness on the real containers (exact reals) ----
    o45(chk, ir, native, quick)

    # ---- O3 32-bit wrap ------------------------------------------------------------------------------------------
    o3(chk, ir, native, z, nop)

    native.close()
    chk.queries += z.queries
    chk.finish(level='other', explanation=(
        'update_dimensions and get_3d_voxel_index of uspg_4d/uspg_3d are executed symbolically from the IR. O1: the IEEE-754 expression DAG of every path is printed as C '
        'and cbmc decides, per axis, that any point inside the declared box maps to an index < voxel count (all doubles within the stated magnitudes). O2 decides the same in exact reals with z3. '
        'O3: with symbolic voxel counts and indices z3 decides that the linear index and the allocated voxel count equal the mathematical values (no 32-bit wrap). Counterexamples are replayed natively.'))

def replay_contains(native, h, din):
    """native run: the voxel index returned for the in-box point must designate the voxel (of the grid's own origin and voxel size) that contains the point"""
    q = native.call(h, din)
    if q['status'] != 0 or len(q['i']) < 6 or len(q['d']) < 3: return {'reproduced': False, 'what': 'native run failed %r' % (q.get('status'),)}
    nb = q['i'][0:3]; idx = q['i'][3:6]; org = q['d'][0:3]; v = din[6]
    inbox = all(din[a] <= din[7 + a] <= din[3 + a] for a in range(3))
    bad = []
    for a, ax in enumerate('xyz'):
        p = din[7 + a]
        lo = org[a] + idx[a] * v; hi = org[a] + (idx[a] + 1) * v
        tol = 4 * abs(v) * 2.0 ** -52 * max(1.0, abs(p) / abs(v), nb[a])
        if idx[a] >= nb[a] or p < lo - tol or (p > hi + tol and idx[a] != nb[a] - 1):
            bad.append('%s: point %r, voxel %d of %d spans [%r, %r]' % (ax, p, idx[a], nb[a], lo, hi))
    return {'reproduced': bool(bad) and inbox, 'what': 'native: ' + '; '.join(bad) if bad else 'native index designates the containing voxel', 'din': din, 'box_contains_point': inbox}

def replay_index(native, h, model):
    if not model: return {'reproduced': False, 'what': 'no model'}
    din = [float(model.get(n, 0.0)) for n in NAMES]
    q = native.call(h, din)
    if q['status'] != 0 or len(q['i']) < 6: return {'reproduced': False, 'what': 'native run failed %r' % (q,)}
    nb = q['i'][0:3]; idx = q['i'][3:6]
    bad = [ax for a, ax in enumerate('xyz') if idx[a] >= nb[a]]
    inbox = all(din[a] <= din[7 + a] <= din[3 + a] for a in range(3))
    return {'reproduced': bool(bad) and inbox, 'what': ('native: voxel counts %r, index of the in-box point %r (axis %s out of range)' % (nb, idx, ','.join(bad))) if bad else 'native index in range',
            'din': din, 'box_contains_point': inbox}

def o45(chk, ir, native, quick):
    """one stored point p and one query point q with |p-q|_inf <= voxel size, one axis fully symbolic (up to 3 voxels), the two
    other axes symbolic inside a single voxel: the object must be in its own voxel, in the neighbourhood of q, and exactly once in the grid content"""
    names = ['minx', 'miny', 'minz', 'maxx', 'maxy', 'maxz', 'v', 'px', 'py', 'pz', 'qx', 'qy', 'qz']
    vsizes = [Fraction(1)] if quick else [Fraction(1), Fraction(1, 1024), Fraction(37, 8)]
    jobs = [(g, ax, vs) for g in (4, 3) for ax in range(3) for vs in vsizes]
    def work(i):
        g, ax, vs = jobs[i]
        V = {n: S.var(n) for n in names}
        V['v'] = S.const(vs)
        v = V['v']
        pre = []
        for a, axn in enumerate('xyz'):
            mn, mx, p, q = V['min' + axn], V['max' + axn], V['p' + axn], V['q' + axn]
            pre += [S.cmp('lt', mn, mx), S.cmp('ge', p, mn), S.cmp('le', p, mx), S.cmp('ge', q, mn), S.cmp('le', q, mx),
                    S.cmp('le', S.sub(p, q), v), S.cmp('le', S.sub(q, p), v)]
            width = S.mul(v, S.const(Fraction(5, 2))) if a == ax else S.mul(v, S.const(Fraction(1, 2)))
            pre += [S.cmp('le', S.sub(mx, mn), width)]
            pre += [S.cmp('le', mn, S.const(1000)), S.cmp('ge', mn, S.const(-1000))]
        s2 = api.Session(ir, mode='real'); z2 = SV.Z3Ctx()
        ctl, res = s2.explore('h_c20_neigh', [V[n] for n in names], [g], assumptions=pre, zctx=z2, max_paths=300, branch_timeout_ms=5000, eager_ints=True)
        out = []
        for (tr, pc, r) in res:
            st = getattr(r, 'status', None)
            if st == 'pathend': continue
            key = ''.join(('T' if d.taken else 'F') if d.kind == 'b' else '[%d]' % d.value for d in tr if not d.forced)
            item = {'key': key, 'status': st}
            if st == 'ok':
                item['iout'] = [x if type(x) is int else repr(x) for x in r.iout]
                stw, model = SV.satisfiable(z2, pc, 20000)
                item['witness'] = stw; item['model'] = dict({k: float(Fraction(v_)) for k, v_ in (model or {}).items() if k in names}, v=float(vs))
            else:
                item['error'] = repr(getattr(r, 'error', None))[:300]
                if st == 'memory':
                    stw, model = SV.satisfiable(z2, pc, 20000)
                    item['witness'] = stw; item['model'] = dict({k: float(Fraction(v_)) for k, v_ in (model or {}).items() if k in names}, v=float(vs))
            out.append(item)
        return out, ctl.exhausted, s2.functions_called, z2.queries, z2.solver_time
    outs = par.pmap(work, len(jobs))
    for (g, ax, vs), (out, exhausted, fc, nq, st_) in zip(jobs, outs):
        tag = 'uspg_%dd/O4-O5 axis %s voxel %s' % (g, 'xyz'[ax], vs)
        chk.functions |= fc; chk.queries += nq; chk.solver_s += st_; chk.paths += len(out)
        if not exhausted: chk.fail_closed.append(tag + ': path budget exhausted')
        good = 0
        for item in out:
            nm = '%s/path %s' % (tag, item['key'] or '-')
            if item['status'] == 'memory' and item.get('witness') == 'sat':
                rep = replay_neigh(native, g, item['model'], names)
                chk.ob(nm + '/no invalid access', 'violated' if rep['reproduced'] else 'unknown', True, 0, detail={'error': item['error'], 'replay': rep})
                if rep['reproduced']: chk.violation('C20/O4/uspg_%dd/container access out of range' % g, '%s: %s; %s' % (nm, item['error'], rep['what']), rep)
                continue
            if item['status'] != 'ok':
                if item.get('witness') != 'unsat': chk.fail_closed.append(nm + ': ' + item['status'] + ' ' + item.get('error', ''))
                continue
            if item['witness'] == 'unsat': continue
            if item['witness'] == 'sat': chk.witnesses += 1; good += 1
            own, nb, allc = item['iout'][0:3]
            for (lab, val, key) in (('stored object found in its own voxel', own, 'not-retrievable'), ('stored object returned by the neighbourhood of every point within one voxel size', nb, 'neighbour-missed'),
                                    ('stored object returned exactly once by the full-content query', allc, 'content-count')):
                if val == 1:
                    chk.ob(nm + '/' + lab, 'proved', True, 0, sample={'obligation': nm + '/' + lab, 'voxel counts': item['iout'][3:6]} if len(chk.samples) < 12 else None)
                else:
                    rep = replay_neigh(native, g, item['model'], names)
                    chk.ob(nm + '/' + lab, 'violated' if rep['reproduced'] else 'unknown', True, 0, detail={'value': val, 'replay': rep})
                    if rep['reproduced']:
                        chk.violation('C20/O5/uspg_%dd/%s' % (g, key), '%s/%s: count %r; %s' % (nm, lab, val, rep['what']), rep)
        if not good: chk.fail_closed.append(tag + ': no feasible path')

def replay_neigh(native, g, model, names):
    if not model: return {'reproduced': False, 'what': 'no model'}
    din = [float(model.get(n, 0.0)) for n in names]
    # the doubles actually fed to the native code must themselves satisfy the preconditions (rounding of the rational model may break them)
    okpre = din[6] > 0 and all(din[k] < din[3 + k] and din[k] <= din[7 + k] <= din[3 + k] and din[k] <= din[10 + k] <= din[3 + k] for k in range(3))
    if not okpre:
        return {'reproduced': False, 'what': 'model does not survive conversion to doubles (preconditions violated after rounding)', 'din': din}
    q = native.call('h_c20_neigh', din, [g])
    if q['status'] == 'crash': return {'reproduced': True, 'what': 'native run crashed (rc %r)' % q.get('rc'), 'din': din}
    if q['status'] != 0 or len(q['i']) < 3: return {'reproduced': False, 'what': 'native run failed %r' % (q,), 'din': din}
    own, nb, allc = q['i'][0:3]
    v = din[6]
    close = all(abs(din[7 + k] - din[10 + k]) <= v for k in range(3))
    bad = []
    if own != 1: bad.append('object not in its own voxel')
    if nb != 1 and close: bad.append('object at %r missed by the neighbourhood of %r (voxel size %r)' % (din[7:10], din[10:13], v))
    if allc != 1: bad.append('grid content returns the object %d times' % allc)
    return {'reproduced': bool(bad), 'what': '; '.join(bad) if bad else 'native run finds the object', 'din': din, 'native': q['i']}

def o3(chk, ir, native, z, nop):
    names = ['nbx', 'nby', 'nbz', 'ix', 'iy', 'iz']
    B = 1 << 21
    Iv = [S.ivar(n, 64, 0 if n.startswith('i') else 1, B - 1) for n in names]
    sess = api.Session(ir, mode='real')
    ctl, res = sess.explore('h_c20_linear', [], Iv, zctx=z, max_paths=8, branch_timeout_ms=5000)
    chk.absorb(session=sess, ctl=ctl)
    nbx, nby, nbz, ix, iy, iz = Iv
    pre = [S.cmp('lt', ix, nbx), S.cmp('lt', iy, nby), S.cmp('lt', iz, nbz)]
    for (tr, pc, r) in res:
        if getattr(r, 'status', None) != 'ok':
            chk.fail_closed.append('O3 path failed: %r' % (getattr(r, 'error', r),)); continue
        lin = r.iout[0]
        true_lin = S.mk('iadd', (S.mk('iadd', (S.mk('imul', (S.mk('imul', (iz, nbx), 'I', 64), nby), 'I', 64), S.mk('imul', (iy, nbx), 'I', 64)), 'I', 64), ix), 'I', 64)
        t = time.time()
        st, model = SV.prove(z, pc + pre, S.cmp('eq', lin, true_lin), 60000)
        dt = time.time() - t
        nm = 'uspg/O3/linear index equals z*nbx*nby + y*nbx + x (no 32-bit wrap)'
        if st == 'violated':
            iin = [int(model.get(n, 0)) for n in names]
            q = native.call('h_c20_linear', [], iin)
            want = iin[5] * iin[0] * iin[1] + iin[4] * iin[0] + iin[3]
            rep = {'reproduced': q['status'] == 0 and q['i'][0] != want, 'what': 'native linear index %r, mathematical value %d for counts %r index %r' % (q['i'], want, iin[:3], iin[3:]), 'iin': iin}
            chk.ob(nm, 'violated' if rep['reproduced'] else 'unknown', True, dt, detail=rep, sample={'obligation': nm, 'model': iin})
            if rep['reproduced']:
                chk.violation('C20/O3/linear-index-wraps-in-32-bits', rep['what'], rep)
        else:
            chk.ob(nm, st, True, dt)

if __name__ == '__main__':
    run_check('C20', main)
