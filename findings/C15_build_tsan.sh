#!/bin/bash
set -u
OBJ=./_obj; rm -rf $OBJ; mkdir -p $OBJ
INC="-I../include -I../include/io -I../include/uspg -I../include/mesh -I../include/mesh/cell_types -I../include/math_modules -I../include/triangulation_modules -I../include/time_integration -I../include/contact_models -I../include/automatic_polarization -I../lib/tinyxml2 -I../lib/delaunator/include"
CXXFLAGS="-std=c++17 -O1 -g -fopenmp -fsanitize=thread -DNDEBUG -fno-access-control -w -DPROJECT_SOURCE_DIR=\"..\""
SRCS=$(find ../src/ -name '*.cpp' -not -path '*python_bindings*' | sort)
SRCS="$SRCS ../lib/tinyxml2/tinyxml2.cpp ./demo.cpp"
compile_one() { src="$1"; obj="$OBJ/$(echo "$src" | sed 's#^\.\./##; s#^\./##; s#/#_#g; s#\.cpp$#.o#')"; g++ $CXXFLAGS $INC -c "$src" -o "$obj" || { echo "FAILED $src"; exit 1; }; }
export -f compile_one; export OBJ INC CXXFLAGS
echo "$SRCS" | tr ' ' '\n' | grep -v '^$' | xargs -P 16 -I{} bash -c 'compile_one {}' || exit 3
g++ -fopenmp -fsanitize=thread $OBJ/*.o -o ./demo_tsan || exit 3
