#!/usr/bin/env python3
"""Regenerates /verif/MANIFEST.json from the table below (single source of truth for the interface)."""
import json, os
VERIF = os.path.dirname(os.path.dirname(os.path.abspath(__file__)))
PY = 'python3-vt'

CHECKS = {
 'C05': dict(
    level='other',
    text=('Bounded symbolic proof over the real code: compute_node_triangle_distance (LLVM IR from clang-14) is executed symbolically with all 12 coordinates '
          'symbolic; every feasible return path is enumerated and z3 (nlsat) decides barycentric validity, distance consistency, KKT optimality, translation '
          'and rotation invariance for all real inputs. The function is loop-free, so the only bound is the exact-real reading of doubles (rounding outside the claim). A refuted obligation whose model does not reproduce natively is re-searched with the triangle confined to other length scales (1e-5, 1e-3, 1e3).'),
    note=('Trusted: clang-14 lowering (validated every run against the g++ -O2 build on random inputs, bit for bit), irsym interpreter + z3 translation, z3; '
          'assumption: non-degenerate triangle; KKT/non-negativity are core in a canonical frame, generality in orientation via solver-proved rotation invariance of every dot product.'),
    technique='symbolic execution of LLVM IR + z3 nonlinear real arithmetic; native replay of counterexamples',
    design='3/C05'),
 'C01': dict(
    level='other',
    text=('Bounded symbolic checking of the remeshing operations: every split / can_be_merged+merge / swap on every edge of the catalogue meshes (4-6 nodes quick, up to 7 thorough), refinement passes with at most k '
          'edges outside the length band, pass-compaction-move-pass-compaction chains, and the histories collapse-then-split (freed slots reused) with and without a following compaction are executed from the LLVM IR with symbolic coordinates; z3 decides which paths exist. On every path an independent oracle '
          '(triangle list only) checks closedness, consistent orientation, genus, duplicate triangles, live nodes, and the cell\'s own edge set, counts, free queues and ids; z3 proves cached normals/areas agree with the winding '
          'and that a split keeps the signed volume; the ordering key of std::set<edge> is proved injective below 2^26 ids (integer encoding validated against the real edge::hash).'),
    note='Trusted: clang lowering (validated per run incl. whole passes), irsym + red-black-tree shim, normaliser, z3. Bounds: catalogue connectivity, <= 2 passes, <= 1 out-of-band edge per pass on T4 and T5 (k = 2 did not finish within 25 minutes per mesh), thorough adds T6 inside the band, passes with swapping disabled. Assumption: pre-state from the real constructor in generic position.',
    technique='symbolic execution of LLVM IR with concrete topology per path + independent topological oracle + z3 (path feasibility, geometric obligations, integer key injectivity)',
    design='3/C01'),
 'C11': dict(
    level='other',
    text=('Bounded symbolic proof of the neutrality/selectivity of remeshing on the same explorations as C01 with symbolic momenta and labels: z3 proves per path conservation of total momentum, new nodes at edge midpoints, '
          'survivors untouched, summed momentum on merge, volume (and parent areas) kept by splits; label inheritance and untouched faces are checked on the concrete topology; a pass changes the mesh only if an edge is outside '
          'the band and leaves a conforming mesh unchanged; every explored path of refine_mesh returns or throws mesh_integrity_exception.'),
    note='Same trusted base and bounds as C01. Termination is claimed only for the explored (bounded) paths.',
    technique='symbolic execution of LLVM IR + z3 on normalised polynomial obligations; native replay',
    design='3/C11'),
 'C02': dict(
    level='other',
    text=('Bounded symbolic proof: apply_pressure_on_surface, apply_surface_tension_and_membrane_elasticity (whole mesh; T4,T5 quick, +T6 thorough), apply_bending_forces (one hinge at a time) '
          'and regularize_face_angles (one face at a time) run in irsym after the real constructor/initialisation with every coordinate and parameter symbolic. For every feasible path the solver '
          'decides net force = 0 and net torque = 0; pressure and tension/elasticity forces are proved equal, per node and component, to p*dV/dx_i and -sum_f gamma_eff,f*dA_f/dx_i obtained by '
          'differentiating the oracle volume/area polynomials. Bending is decided in the canonical hinge frame with a free translation. The tension/elasticity term is run twice: all parameters symbolic, and with both surface tensions exactly zero (exact tests of a parameter against 0 are otherwise taken on their generic side).'),
    note=('Trusted: clang lowering (validated per run), irsym, polynomial normaliser (sqrt/denominator atoms, tan(acos c)=sqrt(1-c^2)/c), z3. Assumptions: closed outward mesh in generic position; exact reals; '
          'M_PI/2 read as pi/2. Outside: meshes > 6 nodes, rotation covariance of the bending hinge, values of the bending/regularisation energy gradients.'),
    technique='symbolic execution of LLVM IR + algebraic normalisation + z3 nonlinear real arithmetic; native replay of solver models',
    design='3/C02'),
 'C03': dict(
    level='other',
    text=('Bounded symbolic proof of the integration law: update_nodes_positions runs in irsym on three-cell populations (epithelial/ECM/static/lumen/nucleus) with every position, momentum, force, '
          'dt, damping, density, volume symbolic, over one and two consecutive steps; z3 proves, per node and component, the semi-implicit / overdamped law with mass = density*volume/#live nodes, '
          'force reset, time = k*dt, static cells and unused slots untouched, and the coupled-pair law (equal displacement, averaged mass, total momentum/force). Quick: configurations (contact 1, dynamic 0/1); '
          'thorough: all six (contact 0/1/2 x dynamic 0/1).'),
    note='Trusted: clang lowering (validated per run in each configuration), irsym, polynomial normaliser, z3. Assumptions: positive dt/damping/density/volume; couplings mutual and between non-static cells. Bounds: 3 cells x 4 nodes, <= 2 steps, 5 coupling patterns.',
    technique='symbolic execution of LLVM IR (per compile-time configuration) + z3 on normalised rational-function identities; native replay',
    design='3/C03'),
 'C07': dict(
    level='other',
    text=('Bounded symbolic proof on the narrow phase of the contact models: resolve_contact / apply_contact_forces runs in irsym on one (node, face) pair with all positions, normals, curvatures, cut-offs and strengths symbolic, '
          'for representative ordered pairs of cell types (quick: 5 pairs, contact model 1; thorough: all 25 pairs, models 0/1/2, both cut-off orders). The kernel is replaced by its contract (C05). Per feasible path z3 proves reciprocity, '
          'no force beyond the largest cut-off, repulsion only on the forbidden side (inverted for epithelial-vs-ECM and nucleus-vs-epithelial), node pushed toward the surface point with the reaction toward the node, couplings mutual/epithelial-only/within the adhesion cut-off. A last part runs the whole model on the two-cell tissue of C06 with persistent ids ahead of the list positions: the hand-over log must contain no same-cell pair and every withheld pair must lie outside the cut-off box. An obligation z3 leaves undecided is re-searched with the scalar parameters fixed (a refutation found this way is replayed natively; a proof under fixed parameters does not count).'),
    note='Trusted: clang lowering (validated per model), irsym, normaliser, z3; kernel contract from C05. Cell types define the three face types the polarisation code can label a face with (fewer: open finding C08/face-type-index). Outside: accumulation over many pairs under threads, broad phase, same-cell filtering (C06).',
    technique='symbolic execution of LLVM IR (per contact model) + z3 nonlinear real arithmetic; native replay',
    design='3/C07'),
 'C08': dict(
    level='other',
    text=('Bounded checking of identities and cross-references over population histories: the real solver constructor and run_iteration (division pass with divide_cell replaced by its contract, refinement, contact model 1, '
          'polarisation, forces, integrator, removal) run in irsym on row tissues of 2-4 cells for 3 iterations. Removal histories are enumerated (each cell, first iterations); which cells divide is decided by z3 through symbolic '
          'division volumes. After every iteration an oracle checks index = list position, id uniqueness and no reuse, mutual couplings to live nodes, owner pointers, face-type index range; the memory monitors check every dereference.'),
    note='Trusted: irsym incl. OpenMP/filesystem/writer stubs (listed in evidence), clang lowering validated on a whole run. Two scenarios run contact model 0 (epithelial cell with 2 / 3 face types over an ECM cell): face-type indices written by the polarisation rules. One open known finding (face-type index 2 with two face types, see known_findings.json). Outside: the real divide_cell (C09), > 4 cells, > 3 iterations, contact model 2.',
    technique='symbolic execution of the whole iteration in LLVM IR with enumerated removal schedules and solver-decided division subsets; independent oracle + memory monitors; native replay',
    design='3/C08'),
 'C10': dict(
    level='other',
    text=('Memory-safety monitoring on symbolically explored paths (not a whole-program claim): irsym executes the real constructor, initialize_cell_properties and each refinement/compaction '
          'operation (split, can_be_merged+merge, swap on every edge; rebase) on catalogue meshes whose vectors are at capacity, with symbolic coordinates; every load/store is checked against live '
          'regions, never-written bytes are tracked into decisions, frees are checked. Further parts: first iterations of the real solver and its construction/destruction (ASan for sized deletes), and the mesh loader after tokenisation (mesh_reader::get_cell_mesh with every list entry symbolic, the exploration of C17). z3 decides which paths exist; a report counts only if valgrind memcheck confirms the same class of error natively.'),
    note='Trusted: irsym memory model and libstdc++ models; valgrind as replay oracle (also on a -O0 build for uninitialised reads). Part (e): both sprintf sites (format_number with the four formats the repository uses; hh:mm:ss of the statistics writers with the clock as environment) with symbolic numbers: the sprintf model makes the output length an expression in the arguments and z3 decides whether it can exceed the destination buffer; AddressSanitizer replay. Outside: thread schedules, parsing, ball pivoting, every path no harness explores (see DESIGN C10).',
    technique='symbolic execution of LLVM IR with a checked memory model; z3 path feasibility; valgrind replay',
    design='3/C10'),
 'C12': dict(
    level='other',
    text=('Bounded symbolic proof: the real cell constructor, initialize_cell_properties, compute_volume/area/centroid, get_aabb, update_face_normal_and_area and '
          'check_face_normal_orientation run in irsym on a catalogue of closed meshes (quick: T4,T5; thorough: up to 7 nodes) with every coordinate symbolic. z3 proves exactness '
          '(divergence theorem about an arbitrary origin = translation invariance), cubic/quadratic scaling, face normal/area laws, centroid law, AABB tightness, invariance under all '
          'adjacent transpositions of node/face storage, and orientation repair for all 2^F input windings (both sign branches); get_cell_longest_axis: the 3x3 eigen-solver is replaced by a recording stub, z3 proves that the matrix it receives is the mean of (p-c)(p-c)^T over the nodes (c the cell centroid) and that the returned direction is the unit eigenvector of an eigenvalue of largest magnitude (native replay against numpy on tilted meshes). Bound: mesh connectivity is concrete (catalogue).'),
    note='Trusted: clang-14 lowering (validated per run vs g++ -O2 bitwise), irsym + polynomial normaliser + z3; assumptions: closed consistently wound input in generic position (incl. eigenvalues of pairwise different magnitude), exact-real arithmetic; the eigen-solver itself (gte::SymmetricEigensolver3x3) is environment.',
    technique='symbolic execution of LLVM IR on concrete mesh topology with symbolic coordinates + z3 (nlsat) on normalised polynomial obligations',
    design='3/C12'),
 'C04': dict(
    level='other',
    text=('Symbolic proof of the closed-form cell-cycle laws: update_target_volume, update_pressure, is_ready_to_divide (through the vtable of all five cell classes), is_below_min_vol '
          'and initialize_random_properties are executed in irsym with all scalars symbolic (P_max and V_div finite or +inf; sigma zero or not); z3 proves the laws on every feasible path. '
          'No loops: the only bounds are the case enumeration listed in the evidence. log is uninterpreted; a counterexample whose log value the real logarithm does not take is re-searched with log pinned to its true value at a list of volume ratios, so that it can be replayed natively. Mesh part: a cell of each class that applies internal forces is built and initialised on one tetrahedron (coordinates X0), its nodes are moved to X1 (all 24 coordinates symbolic) and the real apply_internal_forces(dt) runs with the force terms stubbed: the stored volume is the volume enclosed by the mesh as it is now, and target volume, pressure and the removal predicate follow from it. Removal part: the real solver (constructor + 3 iterations, I/O and divisions stubbed) on three non-interacting cells of different classes with the minimum volume of every type symbolic: every removal history is a path, and z3 proves that a cell is in the population after iteration k iff its volume was never below its minimum volume up to k (removed at the end of that iteration, never back); native replay.'),
    note='Trusted: clang lowering (validated per run), irsym, z3, log as uninterpreted function, normal_distribution::operator() stubbed as mean+stddev*Z (Z arbitrary real). The removal loop of the solver is decided by the removal part (its index bookkeeping by C08).',
    technique='symbolic execution of LLVM IR + z3 (LRA/NRA with uninterpreted log)',
    design='3/C04'),
 'C06': dict(
    level='other',
    text=('The real run() of contact models 0, 1 and 2 (face list, update_face_aabbs, store_face_in_uspg, per-node voxel lookup, aabb_intersection_check) executes from the LLVM IR on a two/three-cell tissue whose query node p is symbolic in boxes that straddle voxel boundaries '
          '(three placements: at, far from, and straddling the origin; two cut-off settings; 8 sub-boxes each; the deeper tier runs the same explorations with more validation inputs: further placements, 27 sub-boxes and all models for every exploration kind were measured at 25-60 minutes on 16 cores without finishing). irsym records every (node, face) pair handed to the contact rules; per path z3 proves for all node/face pairs of different cells: not handed over => the node lies outside the face box padded by the cut-off. '
          'Further explorations: persistent cell ids ahead of the list positions (no node may be handed to a face of its own cell), a cell with unused face slots (octahedron with a collapsed edge; the harness lists the real order of the face list of the model; memory reports of the broad phase are candidates), and the SAME model object run twice (as the solver does every time step) and adds: no pair is handed over more than once in one run. Models of failed obligations are replayed natively against a fresh model with one voxel per axis. Exact reals; many-cell tissues and symbolic cut-offs are not covered.'),
    note='Trusted: clang lowering (validated per run incl. the reference run), irsym (OpenMP sequential model), exact polynomial normal form in p, z3. The narrow phase runs as is (C05/C07 are about it).',
    technique='symbolic execution of LLVM IR (whole contact-model run) with recorded hand-overs; z3 (linear real arithmetic + to_int); native differential replay against a single-voxel grid',
    design='3/C06'),
 'C09': dict(
    level='other',
    text=('Kernels only (end-to-end divide_cell with its clock-seeded Poisson sampling, Delaunay triangulation and remeshing is not encoded): from the LLVM IR in exact reals, z3 decides per path (K1) find_edge_plane_intersection: a returned point lies on the plane and on the segment, '
          'and "no intersection" is never returned for end points strictly on opposite sides; (K2) map_points_to_xy_plane + map_points_to_division_plane as divide_cell composes them, for every unit division axis except (0,0,-1) (both branches: axis = +z and the quaternion branch): '
          'rotation orthonormal and axis -> +z, interface flattened isometrically, round trip exact, points created at z = 0 return into the division plane through the interface centroid. 2-3 (4 thorough) interface points, 1 (2) new points; (K3) add_point_to_face + divide_faces on two triangles sharing the cut edge with symbolic distinct node ids, every stored rotation / cut-edge pair / insertion order (72 structures): the six triangles tile the cut faces with the original orientation; (K4) the real body of divide_cell with its stages replaced by stand-ins that succeed or throw (division_exception, mesh_integrity_exception, intialization_exception, std::bad_alloc at each of five stages): both daughters are of the class of the mother and inherit half of her symbolic TARGET volume, every stage failure becomes "no division" without an escaping exception and without touching the mother. '
          '(K5) the real cell_divider::run on 1-3 (4 thorough) cells with the volume of every cell and the success of every division symbolic (divide_cell replaced by its contract): every subset of ready cells and of successful divisions is a path; divide_cell is called exactly for the cells with V >= V_div, every mother that divided is replaced by exactly two daughters with fresh ids, the other cells are kept unchanged and in order, no emptied cell stays, ids unique, local ids = positions; the native replay links the compiled run() against the same stand-in (divide_cell symbol weakened in the repository object). '
          'Daughter validity, volumes, the no-throw guarantee and success-or-unchanged of the whole randomised pipeline are NOT covered.'),
    note='Trusted: clang lowering (validated per run), irsym, z3 NRA + polynomial normaliser. Three extra distance identities for three interface points stay undecided within the quick time limit (non-core; implied by the proved orthonormality and round trip).',
    technique='symbolic execution of LLVM IR; z3 nonlinear real arithmetic with sqrt definitions (polynomial normaliser first); native replay',
    design='3/C09'),
 'C14': dict(
    level='other',
    text=('Whole iterations of the real solver (constructor + run_iteration, contact models 0/1/2, dynamic models 0/1) run from the LLVM IR on five small tissues whose input coordinates are concrete + t with t a symbolic real vector, '
          '|t_k| <= 1e5. Doubles that are polynomials in t are kept in exact canonical form, so difference-based code runs concretely; every decision, integer or address that still mentions t is given to z3 and reported if the translation can change it. '
          'After each of 3 (quick) / 8 (thorough) iterations: every node position = untranslated position + t, everything else (connectivity, counts, couplings, volumes, pressures, areas) is t-free and equal to the untranslated run. '
          'Reports are confirmed by native runs at ten concrete translations. Exact-real reading: rounding of translated coordinates (e.g. cancellation in the absolute-coordinate volume formula at |t| >> cell size) is outside the claim.'),
    note='Trusted: clang lowering (validated per run), irsym (OpenMP sequential model, writer/filesystem stubs, divide_cell contract stub), exact polynomial arithmetic, z3. On the unchanged tree no decision mentions t, so the solver has nothing to split (0 queries); a seeded absolute-position dependence produces t-dependent indices that the solver cannot bound and the native differential confirms.',
    technique='symbolic execution of LLVM IR with exact polynomial normal form in the symbolic translation; z3 for residual t-dependent decisions; native differential replay',
    design='3/C14'),
 'C15': dict(
    level='other',
    text=('Restricted sense: thread interleavings are not explored. The OpenMP runtime is modelled with one thread per block of the static schedule, threads run to completion in a chosen order, and every load/store of the real code (LLVM IR) inside parallel regions is logged with thread, address and '
          'critical/atomic context. (A) parallel_exception_handler: placement and type of the throwing elements symbolic (z3 enumerates them), all thread orders for n <= 3: every element processed, the caller receives one of the thrown exceptions as such (omp_get_thread_num / omp_get_num_threads / omp_get_max_threads answer according to the thread model: thread t of T inside a region, 0 of 1 outside). '
          '(B) non-interacting 3-cell tissue, constructor + 2 (4) iterations: in every parallel region no two iterations touch the same byte with a write outside common critical sections / atomics - the classical sufficient condition for bit-identical results under any thread count and schedule. '
          '(C) cell_divider::run with 2 and 3 cells dividing in one call (divide_cell replaced by its contract): same population for all 6 completion orders, and the loop body checked as in B. mesh_writer sections, libgomp and preemptive interleavings are outside.'),
    note='Trusted: clang lowering (validated per run; the 3-thread model run is bit-identical to the native run), irsym, the OpenMP model described above, z3. The data race of cell_divider::run found by (C) was confirmed with ThreadSanitizer on the real code and fixed (0cf9c3f).',
    technique='symbolic execution of LLVM IR under a thread-per-iteration OpenMP model with access logging (independence of iterations as sufficient condition); z3 enumerates failing-element placements; ThreadSanitizer as replay oracle',
    design='3/C15'),
 'C17': dict(
    level='other',
    text=('Post-tokenisation step only: mesh_reader::get_cell_mesh runs from the LLVM IR on connectivity lists whose every entry is symbolic (0..2^31-1, what std::stoi delivers for [0-9]+ tokens), for all list lengths 0..6 (8 thorough), one and two (three) cells, '
          'point arrays of 0-4 points. irsym checks every access; accesses through symbolic offsets and into allocations of symbolic size are decided by z3 under the path condition. Per path: return with in-range local ids and copied existing points, or an exception '
          'derived from std::exception; no access outside a live object; all paths terminate. Memory reports are replayed natively under valgrind at the solver model. Second part: the parameter reader on files in which one element is empty (<tag></tag>, every tag in turn, tinyxml2 navigation as environment table as in C18): every path ends in acceptance or an exception derived from std::exception, never in std::terminate. Third part: the cross-checks of simulation_initializer (cell count vs number of type ids, type id range, at least one face type) run for real with the file-level pieces replaced by stand-ins and the type ids of the mesh file symbolic: start-up completes with every cell built from a cell type of the parameter list or throws an exception derived from std::exception, no out-of-bounds index. Byte-level parsing (regex, getline, stoi/strtod, tinyxml2 internals) is not encoded.'),
    note='Trusted: clang lowering (validated per run), irsym memory model incl. symbolic addresses/allocation sizes, libstdc++ containers executed from the IR (red-black tree helpers re-implemented in shims.cpp), z3; valgrind as replay oracle only.',
    technique='symbolic execution of LLVM IR with solver-decided bounds of symbolic offsets and allocation sizes (z3, integer arithmetic); native replay under valgrind',
    design='3/C17'),
 'C18': dict(
    level='other',
    text=('The real parameter_reader (read_numerical_parameters, read_biomechanical_parameters, read_cell_type_parameters, read_face_type_parameters, get_string_value, lower_string, std::stod/stoi wrappers) runs from the LLVM IR '
          'on files whose structure is concrete (1-3 cell types x 1-3 face types quick, up to 4 x 6 thorough; each single omitted tag or section; INF/inf/Inf) and whose numeric contents are symbolic; tinyxml2 navigation and strtod/strtol '
          'are an environment table. z3 proves per path: accept => every documented constraint and every field equals the symbol of its own tag (order, counts, INF -> +infinity); reject of a complete file => a documented constraint is violated; '
          'an incomplete file has no accept path. Failed obligations are replayed on real XML files through the native reader (real tinyxml2, shuffled tag order). "Values govern the run" is not covered. Consumer side: the real solver constructor runs with the global parameters symbolic; z3 proves that the mesh refiner gets [min_edge_length, 3 min_edge_length] and the swap switch, the integrator the time step and damping coefficient, the contact model both cut-offs (padding = the larger, voxel = 3 l_min + 2 paddings), and that the initial target volume is V exp(initial_pressure / bulk_modulus) (exp uninterpreted).'),
    note='Trusted: clang lowering (validated per run), irsym, the environment table (validated per run against real files), z3. Bounds and the reading of "documented sign constraints" are in the evidence.',
    technique='symbolic execution of LLVM IR with the XML/strtod layer as environment table; z3 (linear real/integer arithmetic); native replay on generated XML files',
    design='3/C18'),
 'C19': dict(
    level='other',
    text=('Numbering law and statistics cadence: the real solver::save_mesh and the integrator\'s time advance run from the LLVM IR over k iterations with symbolic dt and S. Exact reals (z3 with to_int): every feasible numbering sequence '
          'starts at 1, never decreases, has no gap and ends within two of T/S+1, and simulated time is j*dt. IEEE doubles (cbmc on the path DAG): per path, search for a wrong first number, a decrease or a gap; counterexamples are '
          'replayed natively with the real mesh writer. One open known finding (gap when S is within a few ulp of dt). Statistics cadence: the real solver::run() on one static cell with the duration symbolic - every iteration count 1..60 (160 thorough) is a path - must call the statistics writer for iterations 0, 50, 100, ... and for the last one, once each, and must stop exactly when T is reached (final time N dt >= T and (N-1) dt < T on every path, T symbolic). File contents, CSV shape and the values written are not covered.'),
    note='Trusted: clang lowering (validated), irsym, z3, cbmc --floatbv. Bounds: k=6 (exact) / 4 (IEEE) iterations quick, 12 / 6 thorough; 0 < dt <= S, 1e-9 <= dt, S <= 1e6 for IEEE. The reading of "K within one of T/S+1" is stated in the evidence assumptions.',
    technique='symbolic execution of LLVM IR; z3 mixed integer/real arithmetic; bit-precise path DAG -> C -> cbmc; native replay',
    design='3/C19'),
 'C20': dict(
    level='other',
    text=('Bounded symbolic checking of the grid index arithmetic from the LLVM IR of uspg_3d/uspg_4d: (O1) the IEEE-754 expression DAG of update_dimensions + get_3d_voxel_index is printed as C per path and cbmc '
          '(bit-precise doubles) proves that every point inside the declared box, faces and corners included, maps to an index < voxel count, for all doubles within the stated magnitudes; (O2) the same in exact reals (z3); '
          '(O3) z3 proves that the linear index equals z*nx*ny + y*nx + x over mathematical integers (no 32-bit wrap) for counts < 2^21 per axis. (O2b) exact reals: the index designates the voxel (relative to the origin the grid itself uses) that contains the point; (O4/O5) a stored point is retrieved from its voxel and from the neighbourhood of every query within one voxel size (exact reals, one axis symbolic over <= 3 voxels). Out-of-range double->unsigned conversions met on concrete validation inputs are decided by a containing-voxel oracle on the native run.'),
    note='Trusted: clang lowering (validated per run), irsym bit-precise mode, cbmc --floatbv (minisat + kissat portfolio) and its floor/ceil models, z3. Assumptions: finite inputs, |coordinate| <= 1e6, 1e-9 <= voxel <= 1e6, extent/voxel <= 1e6; vector growth stubbed.',
    technique='symbolic execution of LLVM IR; bit-precise path DAG -> C -> cbmc; z3 for exact-real/integer obligations; native replay',
    design='3/C20'),
}

NOT_APPLICABLE = {
 'C13': ('Initial surface reconstruction = Poisson disk sampling with a clock-seeded RNG (rejection loops over growing containers), ball pivoting with hole filling (containers that grow while they are iterated) and ten randomised retries. '
         'No bound small enough to encode with the IR interpreter still contains a meaningful reconstruction: a cube at the coarsest admissible resolution needs > 10^2 samples and > 10^5 pivot steps, every one with data-dependent branches on symbolic coordinates. '
         'The leaf predicates alone (ball centre, point-in-circumsphere) would not decide any sentence of C13, so no partial claim is made.'),
 'C16': ('The write->read round trip composes std::ofstream / sprintf("%.4e") formatting with a reader made of five std::regex searches, std::getline and std::stod. The regex engine, the stream layer and the decimal formatting live in libstdc++/libc outside the IR; '
         'decimal formatting and parsing of a symbolic double is not expressible in the solver theories available here, and with concrete geometry the run degenerates into one unit test. The post-tokenisation half of the reader (get_cell_mesh) is covered by C17.'),
}
PENDING = 'check not built yet (build phase in progress)'

def main():
    props = [json.loads(l)['id'] for l in open(os.path.join(VERIF, 'properties.jsonl'))]
    checks = []
    for pid in props:
        c = CHECKS.get(pid)
        if not c: continue
        checks.append({
            'property_id': pid,
            'quick_cmd': '%s checks/%s.py quick' % (PY, pid.lower()),
            'thorough_cmd': '%s checks/%s.py thorough' % (PY, pid.lower()),
            'evidence_file': 'evidence/%s.json' % pid,
            'replay_cmd_template': 'cat {path}',
            'engine': 'irsym',
            'level_claimed': {'category': c['level'], 'text': c['text'], 'design_ref': c['design']},
            'level_note': c['note'],
            'technique': c['technique'],
        })
    na = []
    for pid in props:
        if pid in CHECKS: continue
        na.append({'property_id': pid, 'reason': NOT_APPLICABLE.get(pid, PENDING)})
    m = {
        'version': 1,
        'setup_cmd': '%s tools/setup.py' % PY,
        'hooks': {
            'guard': 'SIMUCELL3D_VERIF',
            'enable': 'clang++-14 -DSIMUCELL3D_VERIF [-DSIMUCELL3D_VERIF_CONTACT_MODEL_INDEX=k -DSIMUCELL3D_VERIF_DYNAMIC_MODEL_INDEX=k] when lowering /repo to LLVM IR (irsym/build.py); -fno-access-control instead of friend hooks',
            'baseline_off_cmd': 'cmake -G Ninja -B /repo/_build -S /repo >/dev/null && cmake --build /repo/_build >/dev/null && ctest --test-dir /repo/_build -j8 --timeout 900',
            'source_commits': ['1e47a47'],
            'add_only': True,
        },
        'engines': [{'name': 'irsym', 'path': 'irsym/', 'serves_properties': sorted(CHECKS),
                     'kind_free_text': 'own LLVM-IR symbolic interpreter (Python) over clang-14 IR of the real sources; z3 (in-process) / cvc5 / cbmc as deciding back ends; native g++ replay'}],
        'checks': checks,
        'not_applicable': na,
        'notes': 'Exit codes: 0 held on everything explored; 1 violation (VIOLATION line); 2 fail-closed (core obligation undecided, vacuity or translator-validation failure, internal error). Fixed defects: see known_findings.json.',
    }
    json.dump(m, open(os.path.join(VERIF, 'MANIFEST.json'), 'w'), indent=1)

if __name__ == '__main__':
    main()
