#!/bin/bash
# runs the quick command of every listed check on the current tree; prints one line per check
cd /verif
for p in "$@"; do
  L=$(echo $p | tr A-Z a-z)
  S=$(date +%s)
  timeout 3000 python3-vt checks/$L.py quick > /tmp/all_$p.out 2>&1
  RC=$?
  echo "$p exit=$RC $(( $(date +%s) - S ))s :: $(tail -1 /tmp/all_$p.out | cut -c1-160)"
done
