#!/bin/bash
# usage: run_seed_iso.sh <seed dir> [tier] : like run_seed.sh but on a scratch worktree of /repo (VERIF_REPO), so that /repo itself is never
# modified and other checks can run at the same time; evidence goes to a scratch directory
D=$1; TIER=${2:-quick}
ID=$(basename $D); P=$(echo $ID | cut -d_ -f1); L=$(echo $P | tr A-Z a-z)
WT=/tmp/seediso_$ID
git -C /repo worktree remove --force $WT 2>/dev/null
git -C /repo worktree add -q --detach $WT HEAD || exit 2
git -C $WT apply $D/patch.diff || { echo "patch does not apply"; git -C /repo worktree remove --force $WT; exit 2; }
mkdir -p /tmp/seediso_ev_$ID
cd /verif
VERIF_REPO=$WT VERIF_EVIDENCE_DIR=/tmp/seediso_ev_$ID timeout 3000 python3-vt checks/$L.py $TIER > /tmp/seediso_$ID.out 2>&1
RC=$?
git -C /repo worktree remove --force $WT
rm -rf /tmp/seediso_ev_$ID
echo "$ID: check exit $RC"
grep -m2 -A2 "^VIOLATION" /tmp/seediso_$ID.out | cut -c1-300
tail -2 /tmp/seediso_$ID.out | cut -c1-300
