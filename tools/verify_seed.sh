#!/bin/bash
# usage: verify_seed.sh <worktree> : confirms that the seeded change compiles, passes the 126 tests, and that the demo fails with / passes without it
set -u
WT=$1
cd $WT || exit 2
git checkout -q -- . 2>/dev/null
git apply demo/patch.diff || { echo "PATCH DOES NOT APPLY"; exit 2; }
(cmake -G Ninja -B $WT/_build -S $WT -DCMAKE_BUILD_TYPE=RelWithDebInfo >/dev/null && cmake --build $WT/_build >/dev/null) || { echo "BUILD FAILED WITH CHANGE"; git checkout -q -- .; exit 2; }
T=$(ctest --test-dir $WT/_build -j8 2>&1 | grep "tests passed")
echo "with change: $T"
(cd $WT/demo && timeout 1200 bash ./run.sh > verify_changed.txt 2>&1); RC1=$?
echo "demo with change: exit $RC1"
git checkout -q -- .
(cd $WT/demo && timeout 1200 bash ./run.sh > verify_original.txt 2>&1); RC0=$?
echo "demo without change: exit $RC0"
git status --short | grep -v "^??" | head -3
