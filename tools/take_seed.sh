#!/bin/bash
# usage: take_seed.sh <worktree> <seed id e.g. C04_b> : verifies the seed in its worktree, copies it to /verif/seeded/<id>, removes the worktree
WT=$1; ID=$2
bash /verif/tools/verify_seed.sh $WT 2>&1 | tail -4
mkdir -p /verif/seeded/$ID
cp $WT/demo/patch.diff $WT/demo/demo.cpp $WT/demo/run.sh $WT/demo/notes.txt /verif/seeded/$ID/ 2>/dev/null
ls $WT/demo | grep -v "^_\|verify_\|\.log$\|demo_bin\|patch.diff\|demo.cpp\|run.sh\|notes.txt" | head -5
git -C /repo worktree remove --force $WT
