#!/bin/bash
# runs the thorough command of every listed check on the current tree; prints one line per check
cd /verif
for p in "$@"; do
  L=$(echo $p | tr A-Z a-z)
  S=$(date +%s)
  timeout ${THOROUGH_TIMEOUT:-10800} python3-vt checks/$L.py thorough > /verif/_work/tmp/thorough_$p.out 2>&1
  RC=$?
  echo "$p exit=$RC $(( $(date +%s) - S ))s :: $(tail -1 /verif/_work/tmp/thorough_$p.out | cut -c1-160)"
done
