#!/usr/bin/env python3
"""setup_cmd: nothing to fetch; verify the toolchain is present and the engine imports."""
import shutil, subprocess, sys, os
sys.path.insert(0, os.path.dirname(os.path.dirname(os.path.abspath(__file__))))
missing = [t for t in ('clang++-14', 'g++', 'cbmc', 'cvc5', 'c++filt', 'ar') if shutil.which(t) is None]
if not os.path.exists('/usr/lib/llvm-14/bin/llvm-link'): missing.append('llvm-link-14')
import z3
from irsym import interp, solver, api, build
os.makedirs(os.path.join(build.VERIF, '_work'), exist_ok=True)
os.makedirs(os.path.join(build.VERIF, 'evidence'), exist_ok=True)
if missing:
    print('missing tools: ' + ', '.join(missing)); sys.exit(1)
print('irsym ready: z3', z3.get_version_string())
