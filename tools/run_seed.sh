#!/bin/bash
# usage: run_seed.sh <seed dir> [tier] : applies the seeded change to /repo, runs the property's check, reverts
D=$1; TIER=${2:-quick}
P=$(basename $D | cut -d_ -f1)
cd /repo && git diff --quiet || { echo "/repo not clean"; exit 2; }
git -C /repo apply $D/patch.diff || { echo "patch does not apply"; exit 2; }
cd /verif
L=$(echo $P | tr A-Z a-z)
timeout 3000 python3-vt checks/$L.py $TIER > /tmp/seed_$(basename $D).out 2>&1
RC=$?
git -C /repo checkout -- .
echo "$(basename $D): check exit $RC"
grep -m3 -A2 "^VIOLATION" /tmp/seed_$(basename $D).out | cut -c1-300
tail -2 /tmp/seed_$(basename $D).out | cut -c1-300
